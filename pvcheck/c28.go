package main

import (
	"fmt"
	"go/types"
	"strings"

	"golang.org/x/tools/go/ssa"
)

// C28 — SigV4 verification cannot be satisfied by an altered request.
func init() { register("C28", checkC28) }

const relAuthn = "internal/http/server/authentication"

func checkC28(w *World, r *Run) {
	ruleGuards := r.Rule("authenticated-return-dominated-by-all-checks", "F1",
		"the only return of checkAuthentication that can report authenticated == true is dominated by: known access key, service == s3, request == aws4_request, credential date == timestamp date, the time-window tests, host ∈ signed headers, validateSignedHeaders == nil, the exit of the loop that rejects unsigned x-amz-*/content-md5 headers, and verifier.verify(stringToSign, signature) == true; the value returned is that verify result", 10)
	ruleInputs := r.Rule("verified-string-covers-request", "F3",
		"the string handed to verify derives from generateStringToSign(r, the parsed timestamp, the parsed scope, the signed-header list, isPresigned, algorithm); generateStringToSign includes algorithm, timestamp, scope and the canonical request; generateCanonicalRequest concatenates method, URI, query string, canonical headers, signed headers and the payload part; the verifier is built from the stored secret of the matched credential", 12)
	ruleQuery := r.Rule("canonical-query-skips-nothing-but-presigned-signature", "F1",
		"the canonical query string includes every parameter; the only skip is X-Amz-Signature on a presigned request", 1)
	rulePayload := r.Rule("payload-hash-trusted-only-for-declared-modes", "F1",
		"the x-amz-content-sha256 header value is copied into the canonical request only when it equals one of the declared unsigned/streaming constants; any other value is replaced by the SHA-256 computed over the body", 1)
	ruleMw := r.Rule("middleware-forwards-only-authenticated", "F1",
		"MakeSignatureMiddleware calls next.ServeHTTP only under isAnonymousRequest(r) == true or checkAuthentication(..) authenticated == true, and writes 401 otherwise", 2)
	ruleHeaders := r.Rule("canonical-headers-cover-signed-list", "F3",
		"collectSignedHeaders always includes host and every request header whose lower-cased name is in the signed list; the unsigned-header rejection applies mustBeSignedHeader to every request header", 3)

	fn := w.SSAFunc(relAuthn, "checkAuthentication")
	if fn == nil {
		r.Anchor(ruleGuards, "authentication.checkAuthentication")
		return
	}
	// the authenticated-capable returns
	var good []*ssa.Return
	for _, ret := range returnsOf(fn) {
		if ret.Block() == fn.Recover {
			continue
		}
		if b, isConst := boolConst(retResult(ret, 1)); isConst && !b {
			continue
		}
		good = append(good, ret)
	}
	if len(good) != 1 {
		r.Bad(ruleGuards, "checkAuthentication authenticated return", fn.Pos(), fmt.Sprintf("expected exactly one return that can report authenticated == true, found %d", len(good)))
		return
	}
	ret := good[0]
	facts := factsAt(ret.Block())
	has := func(pred func(Fact) bool) bool {
		for _, f := range facts {
			if pred(f) {
				return true
			}
		}
		return false
	}
	callNamed := func(v ssa.Value, name string) *ssa.Call {
		c, _ := callOf(v)
		if c == nil {
			return nil
		}
		if f := calleeObj(c); f != nil && f.Name() == name {
			return c
		}
		return nil
	}
	eqFieldConst := func(field, want string) func(Fact) bool {
		return func(f Fact) bool {
			if f.Kind != EqConst || f.Const == nil {
				return false
			}
			s, ok := constString(f.Const)
			n, _ := fieldLoadName(f.Val)
			if n == "" {
				if fl, ok := f.Val.(*ssa.Field); ok {
					n = fieldName(fl.X.Type(), fl.Field)
				}
			}
			return ok && s == want && n == field
		}
	}
	fieldIs := func(v ssa.Value, field string) bool {
		if n, _ := fieldLoadName(v); n == field {
			return true
		}
		if fl, ok := v.(*ssa.Field); ok && fieldName(fl.X.Type(), fl.Field) == field {
			return true
		}
		return false
	}
	checks := []struct {
		name string
		ok   bool
		why  string
	}{
		{"access key is a configured credential", has(func(f Fact) bool {
			b, ok := f.Val.(*ssa.BinOp)
			return ok && f.Kind == IsFalse && b.Op.String() == "<" && callNamed(b.X, "IndexFunc") != nil
		}), "the key lookup result is not tested before use"},
		{"scope.service == \"s3\"", has(eqFieldConst("service", "s3")), "the credential scope's service is not compared with s3"},
		{"scope.request == \"aws4_request\"", has(eqFieldConst("request", "aws4_request")), "the credential scope's terminator is not compared with aws4_request"},
		{"scope.date == date of the signing timestamp", has(func(f Fact) bool {
			return f.Kind == EqConst && f.Other != nil && ((fieldIs(f.Val, "date") && callNamed(f.Other, "Format") != nil) || (fieldIs(f.Other, "date") && callNamed(f.Val, "Format") != nil))
		}), "the credential date is not tied to the signing timestamp"},
		{"now not before the allowed window", has(func(f Fact) bool { return f.Kind == IsFalse && callNamed(f.Val, "Before") != nil }), "no lower bound on the request time"},
		{"now not after expiry", has(func(f Fact) bool { return f.Kind == IsFalse && callNamed(f.Val, "After") != nil }), "no upper bound (expiry) on the request time"},
		{"host is a signed header", has(func(f Fact) bool {
			c := callNamed(f.Val, "Contains")
			if c == nil || f.Kind != IsTrue || len(c.Call.Args) != 2 {
				return false
			}
			s, ok := constString(c.Call.Args[1])
			return ok && s == "host"
		}), "host is not required among the signed headers"},
		{"validateSignedHeaders == nil", has(func(f Fact) bool { return f.Kind == IsNil && callNamed(f.Val, "validateSignedHeaders") != nil }), "algorithm-specific signed-header validation is skipped"},
		{"verify(stringToSign, signature) == true", has(func(f Fact) bool { return f.Kind == IsTrue && callNamed(f.Val, "verify") != nil }), "the signature verification result does not guard the authenticated return"},
	}
	for _, c := range checks {
		r.Check(c.ok, ruleGuards, "checkAuthentication: "+c.name, posOf(ret), "dominates the authenticated return", c.why)
	}
	// returned value is the verify result
	v := retResult(ret, 1)
	isVerify := callNamed(v, "verify") != nil
	if b, isConst := boolConst(v); isConst && b {
		isVerify = true
	}
	r.Check(isVerify, ruleGuards, "checkAuthentication: returns the verify result", posOf(ret), "authenticated := verifier.verify(..)", "the authenticated result is not the signature verification result")

	// unsigned sensitive header loop
	loopOK, exitOK := false, false
	for _, rr := range returnsOf(fn) {
		if b, isConst := boolConst(retResult(rr, 1)); !isConst || b {
			continue
		}
		var must, notSigned bool
		for _, f := range factsAt(rr.Block()) {
			if f.Kind == IsTrue && callNamed(f.Val, "mustBeSignedHeader") != nil {
				c := callNamed(f.Val, "mustBeSignedHeader")
				// argument derives from ranging over r.Header
				backSlice(c.Call.Args[0], true, func(x ssa.Value) {
					if _, ok := x.(*ssa.Next); ok {
						must = true
					}
				})
			}
			if f.Kind == IsFalse && callNamed(f.Val, "Contains") != nil {
				notSigned = true
			}
		}
		if must && notSigned {
			loopOK = true
			// no further condition may excuse a header: between the loop head and the
			// rejection only the two tests above may lie
			var loopHead *ssa.BasicBlock
			for _, f := range factsAt(rr.Block()) {
				if c := callNamed(f.Val, "mustBeSignedHeader"); c != nil {
					backSlice(c.Call.Args[0], true, func(x ssa.Value) {
						if nx, ok := x.(*ssa.Next); ok {
							loopHead = nx.Block()
						}
					})
				}
			}
			for _, f := range factsAt(rr.Block()) {
				if loopHead == nil || f.If == nil || f.If.Block() == loopHead || !loopHead.Dominates(f.If.Block()) {
					continue
				}
				if callNamed(f.Val, "mustBeSignedHeader") == nil && callNamed(f.Val, "Contains") == nil {
					loopOK = false
					desc := describeVal(f.Val)
					if n, _ := fieldLoadName(f.Val); n != "" {
						desc = "the field " + n
					}
					r.Bad(ruleGuards, "checkAuthentication: unsigned-header rejection has no further condition", posOf(f.If), "the rejection of an unsigned x-amz-*/content-md5 header additionally depends on "+desc+": requests for which it does not hold can carry altered unsigned headers")
				}
			}
			// the authenticated return must lie after the loop: dominated by the range's exit edge
			for d := ret.Block().Idom(); d != nil; d = d.Idom() {
				if len(d.Instrs) == 0 {
					continue
				}
				if iff, ok := d.Instrs[len(d.Instrs)-1].(*ssa.If); ok {
					if ex, ok := iff.Cond.(*ssa.Extract); ok {
						if _, isNext := ex.Tuple.(*ssa.Next); isNext && edgeDominates(d, 1, ret.Block()) && d.Dominates(rr.Block()) {
							exitOK = true
						}
					}
				}
			}
		}
	}
	r.Check(loopOK && exitOK, ruleGuards, "checkAuthentication: unsigned x-amz-*/content-md5 headers rejected for every header", posOf(ret), "range over r.Header with reject inside, success only after the loop", "requests carrying an unsigned security-sensitive header are not rejected on every path")

	// inputs of verify
	var verifyCall *ssa.Call
	for _, f := range facts {
		if f.Kind == IsTrue {
			if c := callNamed(f.Val, "verify"); c != nil {
				verifyCall = c
			}
		}
	}
	if verifyCall == nil {
		r.Bad(ruleInputs, "verify inputs", fn.Pos(), "verify call not found")
	} else {
		var sts *ssa.Call
		backSlice(verifyCall.Call.Args[1], false, func(x ssa.Value) {
			if c, ok := x.(*ssa.Call); ok {
				if f := calleeObj(c); f != nil && f.Name() == "generateStringToSign" {
					sts = c
				}
			}
		})
		r.Check(sts != nil, ruleInputs, "verify: string to sign from generateStringToSign", posOf(verifyCall), "ok", "the verified string is not produced by generateStringToSign")
		if sts != nil {
			a := sts.Call.Args // r, timestamp, scope, headers, isPresigned, algorithm
			r.Check(paramIndex(fn, a[0]) == 2, ruleInputs, "generateStringToSign: request", posOf(sts), "the request under test", "a different request object is canonicalised")
			r.Check(fieldIs(a[1], "timestamp") && fieldIs(a[4], "isPresigned") && fieldIs(a[5], "algorithm"), ruleInputs, "generateStringToSign: timestamp, isPresigned, algorithm from the parsed parameters", posOf(sts), "ok", "timestamp / isPresigned / algorithm do not come from the parsed signature parameters")
			r.Check(fieldIs(a[2], "value"), ruleInputs, "generateStringToSign: scope from the parsed credential scope", posOf(sts), "scope.value", "the scope string does not come from the parsed credential scope")
		}
		sigOK := fieldIs(verifyCall.Call.Args[2], "signature")
		r.Check(sigOK, ruleInputs, "verify: signature from the parsed parameters", posOf(verifyCall), "parameters.signature", "the compared signature is not the one supplied with the request")
		// verifier from newVerifier(accessKeyId, expectedCredentials.SecretAccessKey, scope)
		vOK := false
		backSlice(verifyCall.Call.Args[0], false, func(x ssa.Value) {
			if c, ok := x.(*ssa.Call); ok {
				if f := calleeObj(c); f != nil && f.Name() == "newVerifier" {
					for _, arg := range c.Call.Args {
						if fieldIs(arg, "SecretAccessKey") {
							vOK = true
						}
					}
				}
			}
		})
		r.Check(vOK, ruleInputs, "verify: verifier keyed with the matched credential's secret", posOf(verifyCall), "newVerifier(.., expectedCredentials.SecretAccessKey, scope)", "the verifier is not derived from the stored secret of the matched credential")
	}
	// composition of generateStringToSign / generateCanonicalRequest
	comp := func(fname string, wantCalls []string, wantParams []string) {
		f := w.SSAFunc(relAuthn, fname)
		if f == nil {
			r.Anchor(ruleInputs, "authentication."+fname)
			return
		}
		seenCalls := map[string]bool{}
		seenParams := map[string]bool{}
		for _, rr := range returnsOf(f) {
			if isFailureReturn(rr) {
				continue
			}
			backSlice(retResult(rr, 0), true, func(x ssa.Value) {
				if c, ok := x.(*ssa.Call); ok {
					if g := calleeObj(c); g != nil {
						seenCalls[g.Name()] = true
					}
				}
				if p, ok := x.(*ssa.Parameter); ok {
					seenParams[p.Name()] = true
				}
			})
		}
		for _, c := range wantCalls {
			r.Check(seenCalls[c], ruleInputs, fname+" includes "+c+"(..)", f.Pos(), "part of the result", "the result does not include "+c+": that part of the request is not covered by the signature")
		}
		for _, p := range wantParams {
			r.Check(seenParams[p], ruleInputs, fname+" includes parameter "+p, f.Pos(), "part of the result", "the result does not include "+p)
		}
	}
	comp("generateStringToSign", []string{"generateCanonicalRequest"}, []string{"algorithm", "timestamp", "scope"})
	comp("generateCanonicalRequest", []string{"generateCanonicalHttpMethod", "generateCanonicalURI", "generateCanonicalQueryStringForRequest", "generateCanonicalHeaders", "generateSignedHeaders", "generateHashedPayload"}, nil)

	checkC28Query(w, r, ruleQuery)
	checkC28Payload(w, r, rulePayload)
	checkC28Middleware(w, r, ruleMw)
	checkC28Headers(w, r, ruleHeaders)
	checkC28PayloadHash(w, r)
	ruleCanon28 := r.Rule("canonical-header-value-covers-every-field-line", "F9", "collectSignedHeaders joins all values of a signed header with a comma; no header value is taken with Header.Get (first line only)", 1)
	checkCanonicalHeaderValues(w, r, ruleCanon28)
	r.NotCovered("injectivity of the canonicalisation (two different requests with one canonical form); HMAC/ECDSA arithmetic; the chunk-signature chain of streaming uploads (C30)")
	_ = types.Universe
	_ = strings.ToLower
}

func checkC28Query(w *World, r *Run, rule string) {
	fn := w.SSAFunc(relAuthn, "generateCanonicalQueryStringForRequest")
	if fn == nil {
		fn = w.SSAFunc(relAuthn, "generateCanonicalQueryString")
	}
	if fn == nil {
		r.Anchor(rule, "authentication.generateCanonicalQueryString*")
		return
	}
	// every If in the function that is not a range/loop condition
	bad := ""
	skips := 0
	for _, b := range fn.Blocks {
		if len(b.Instrs) == 0 {
			continue
		}
		iff, ok := b.Instrs[len(b.Instrs)-1].(*ssa.If)
		if !ok {
			continue
		}
		if isLoopCond(iff.Cond) {
			continue
		}
		// which facts does the edge that avoids the append establish? Accept only the
		// conjunction isPresigned && key == "X-Amz-Signature" (two nested Ifs in SSA).
		var fs []Fact
		decompose(iff.Cond, true, iff, &fs)
		okCond := false
		for _, f := range fs {
			if f.Kind == IsTrue {
				if p, isParam := f.Val.(*ssa.Parameter); isParam && strings.EqualFold(p.Name(), "isPresigned") {
					okCond = true
				}
			}
			if f.Kind == EqConst && f.Const != nil {
				if s, isStr := constString(f.Const); isStr && s == "X-Amz-Signature" {
					// must be nested under isPresigned
					for _, ff := range factsAt(b) {
						if p, isParam := ff.Val.(*ssa.Parameter); isParam && ff.Kind == IsTrue && strings.EqualFold(p.Name(), "isPresigned") {
							okCond = true
							skips++
						}
					}
				}
			}
		}
		if !okCond {
			// ordering/joining conditions after the collection loop (idx > 0) are not skips:
			// they sit outside the range over r.URL.Query()
			if !insideMapRange(b) {
				continue
			}
			bad = w.Pos(iff.Pos())
		}
	}
	r.Check(bad == "" && skips == 1, rule, "generateCanonicalQueryString skip conditions", fn.Pos(), "only isPresigned && key == X-Amz-Signature", "a query parameter can be left out of the canonical query string (condition at "+bad+"): it can be added or changed without invalidating the signature")
}

func isLoopCond(v ssa.Value) bool {
	switch x := v.(type) {
	case *ssa.Extract:
		_, ok := x.Tuple.(*ssa.Next)
		return ok
	case *ssa.BinOp:
		if x.Op.String() == "<" {
			if inc, ok := x.X.(*ssa.BinOp); ok && inc.Op.String() == "+" {
				if _, isPhi := inc.X.(*ssa.Phi); isPhi {
					return true
				}
			}
		}
	}
	return false
}

// insideMapRange: the block lies in the body of a range-over-map loop.
func insideMapRange(b *ssa.BasicBlock) bool {
	for d := b.Idom(); d != nil; d = d.Idom() {
		if len(d.Instrs) == 0 {
			continue
		}
		if iff, ok := d.Instrs[len(d.Instrs)-1].(*ssa.If); ok {
			if ex, ok := iff.Cond.(*ssa.Extract); ok {
				if nx, isNext := ex.Tuple.(*ssa.Next); isNext && !nx.IsString && edgeDominates(d, 0, b) {
					return true
				}
			}
		}
	}
	return false
}

func checkC28Payload(w *World, r *Run, rule string) {
	fn := w.SSAFunc(relAuthn, "generateCanonicalRequest")
	if fn == nil {
		r.Anchor(rule, "authentication.generateCanonicalRequest")
		return
	}
	allowed := map[string]bool{}
	p := w.Pkg(relAuthn)
	for _, n := range p.Types.Scope().Names() {
		if c, ok := p.Types.Scope().Lookup(n).(*types.Const); ok && strings.HasPrefix(n, "contentSHA256") && n != "contentSHA256Header" {
			allowed[strings.Trim(c.Val().ExactString(), "\"")] = true
		}
	}
	// find concatenations whose right operand is the header value
	ok := true
	n := 0
	allInstrs(fn, false, func(_ *ssa.Function, ins ssa.Instruction) {
		b, isBin := ins.(*ssa.BinOp)
		if !isBin || b.Op.String() != "+" {
			return
		}
		c, _ := callOf(b.Y)
		if c == nil {
			return
		}
		g := calleeObj(c)
		if g == nil || g.Name() != "Get" || len(c.Call.Args) < 2 {
			return
		}
		if s, isStr := constString(c.Call.Args[1]); !isStr || s != "x-amz-content-sha256" {
			return
		}
		n++
		good := everyPathEstablishes(b.Block(), func(f Fact) bool {
			if f.Kind != EqConst || f.Const == nil || !sameValue(f.Val, b.Y) {
				return false
			}
			s, isStr := constString(f.Const)
			return isStr && allowed[s]
		})
		if !good {
			ok = false
		}
	})
	r.Check(ok && n == 1 && len(allowed) >= 3, rule, "generateCanonicalRequest copies x-amz-content-sha256 only for declared payload modes", fn.Pos(), fmt.Sprintf("%d declared constants", len(allowed)), "a client-supplied payload hash is trusted without hashing the body (or the guard is no longer recognisable)")
}

func checkC28Middleware(w *World, r *Run, rule string) {
	mk := w.SSAFunc(relAuthn, "MakeSignatureMiddleware")
	if mk == nil || len(mk.AnonFuncs) != 1 {
		r.Anchor(rule, "authentication.MakeSignatureMiddleware closure")
		return
	}
	cl := mk.AnonFuncs[0]
	n := 0
	allOK := true
	for _, c := range callsTo(cl, false, func(f *types.Func) bool { return f.Name() == "ServeHTTP" }) {
		n++
		good := false
		for _, f := range factsAt(c.Block()) {
			if f.Kind != IsTrue {
				continue
			}
			cc, idx := callOf(f.Val)
			if cc == nil {
				continue
			}
			g := calleeObj(cc)
			if g == nil {
				continue
			}
			if g.Name() == "isAnonymousRequest" || (g.Name() == "checkAuthentication" && idx == 1) {
				good = true
			}
		}
		if !good {
			allOK = false
		}
	}
	r.Check(allOK && n == 2, rule, "MakeSignatureMiddleware forwards only anonymous or authenticated requests", cl.Pos(), "2 forwards, both guarded", "a request carrying credentials can reach the wrapped handler without a successful signature check")
	// 401 on the other edge
	w401 := false
	for _, c := range callsTo(cl, false, func(f *types.Func) bool { return f.Name() == "WriteHeader" }) {
		if k, isc := intConst(c.Common().Args[len(c.Common().Args)-1]); isc && k == 401 {
			for _, f := range factsAt(c.Block()) {
				if cc, idx := callOf(f.Val); cc != nil && f.Kind == IsFalse && idx == 1 && calleeObj(cc) != nil && calleeObj(cc).Name() == "checkAuthentication" {
					w401 = true
				}
			}
		}
	}
	r.Check(w401, rule, "MakeSignatureMiddleware answers 401 when authentication fails", cl.Pos(), "WriteHeader(401) on the failure edge", "no 401 on the failed-authentication edge")
}

func checkC28Headers(w *World, r *Run, rule string) {
	fn := w.SSAFunc(relAuthn, "collectSignedHeaders")
	if fn == nil {
		r.Anchor(rule, "authentication.collectSignedHeaders")
		return
	}
	host := false
	allInstrs(fn, false, func(_ *ssa.Function, ins ssa.Instruction) {
		if st, ok := ins.(*ssa.Store); ok {
			if s, isStr := constString(st.Val); isStr && s == "host" {
				host = true
			}
		}
	})
	r.Check(host, rule, "collectSignedHeaders always includes host", fn.Pos(), "pair{key: \"host\"}", "host is not part of the canonical headers")
	// the include test is includeInCanonicalHeaders(lower(key), headersToInclude) and nothing else
	inc := false
	extra := ""
	for _, b := range fn.Blocks {
		if len(b.Instrs) == 0 || !insideMapRange(b) {
			continue
		}
		iff, ok := b.Instrs[len(b.Instrs)-1].(*ssa.If)
		if !ok || isLoopCond(iff.Cond) {
			continue
		}
		c, _ := callOf(iff.Cond)
		if c != nil && calleeObj(c) != nil && calleeObj(c).Name() == "includeInCanonicalHeaders" {
			inc = true
		} else {
			extra = w.Pos(iff.Pos())
		}
	}
	r.Check(inc && extra == "", rule, "collectSignedHeaders includes exactly the headers named in the signed list", fn.Pos(), "includeInCanonicalHeaders(lower(name), signedHeaders)", "an additional condition ("+extra+") can drop a signed header from the canonical form")
	must := w.SSAFunc(relAuthn, "mustBeSignedHeader")
	cov := map[string]bool{}
	if must != nil {
		allInstrs(must, false, func(_ *ssa.Function, ins ssa.Instruction) {
			if b, ok := ins.(*ssa.BinOp); ok && b.Op.String() == "==" {
				if s, isStr := constString(b.Y); isStr {
					cov[s] = true
				}
			}
			if c, ok := ins.(*ssa.Call); ok {
				if g := calleeObj(c); g != nil && g.Name() == "HasPrefix" {
					if s, isStr := constString(c.Call.Args[1]); isStr {
						cov[s+"*"] = true
					}
				}
			}
		})
	}
	r.Check(cov["content-md5"] && cov["x-amz-*"], rule, "mustBeSignedHeader covers content-md5 and x-amz-*", fn.Pos(), "content-md5, x-amz-*", "the set of headers that must be signed no longer covers content-md5 and every x-amz-* header")
}
