#!/usr/bin/env python3
"""Regenerates the per-property table of DESIGN.md §8 (between the BEGIN/END markers) from
evidence/*.json, selftest/, seeded/ and known-findings.json."""
import json, os, glob, re
here = os.path.dirname(os.path.dirname(os.path.abspath(__file__)))
kf = json.load(open(os.path.join(here, "known-findings.json")))
props = [json.loads(l) for l in open(os.path.join(here, "properties.jsonl"))]
rows = ["| prop | rules | obligations | exempt | known findings | fixes in /repo | mutants | seeded change |",
        "|------|------:|------------:|-------:|---------------|----------------|--------:|---------------|"]
for p in props:
    pid = p["id"]
    ev = os.path.join(here, "evidence", pid + ".json")
    if not os.path.exists(ev):
        rows.append(f"| {pid} | – | – | – | not claimed | | | |"); continue
    c = json.load(open(ev))["coverage"]
    nob = len(c["all_obligations"]); nex = sum(1 for o in c["all_obligations"] if o["status"] == "exempt")
    nk = sum(1 for f in kf["findings"] if f["property"] == pid)
    fixes = list(dict.fromkeys(re.search(r"property=%s (\w+)" % pid, f).group(1) for f in kf["fixed"] if ("property=%s " % pid) in f))
    nm = len(glob.glob(os.path.join(here, "selftest", pid, "*.patch")))
    seeded = ""
    sm = os.path.join(here, "seeded", pid, "meta.json")
    if os.path.exists(sm):
        m = json.load(open(sm))
        seeded = m.get("verdict", "")
    rows.append(f"| {pid} | {len(c['rules'])} | {nob} | {nex} | {nk or ''} | {' '.join(fixes)} | {nm} | {seeded} |")
table = "\n".join(rows)
path = os.path.join(here, "DESIGN.md")
s = open(path).read()
b, e = "<!-- BEGIN GENERATED TABLE -->", "<!-- END GENERATED TABLE -->"
if b in s:
    s = s[:s.index(b) + len(b)] + "\n" + table + "\n" + s[s.index(e):]
    open(path, "w").write(s)
# second table: seeded changes
st = {}
sp = os.path.join(here, "seeded", "strengthened.json")
if os.path.exists(sp):
    st = json.load(open(sp))
rows2 = ["| prop | changed file(s) | what the change does / trigger | caught by | history |", "|------|-----------------|-------------------------------|-----------|---------|"]
for p in props:
    pid = p["id"]
    for sub in ["", "round2", "round3", "round4", "round5"]:
        sm = os.path.join(here, "seeded", pid, sub, "meta.json")
        if not os.path.exists(sm):
            continue
        m = json.load(open(sm))
        files = ", ".join(os.path.basename(f) for f in m.get("files", []))
        trig = (m.get("trigger") or m.get("summary") or "").replace("|", "/").replace("\n", " ")
        if len(trig) > 230:
            trig = trig[:227] + "…"
        label = pid + ("/" + sub if sub else "")
        rows2.append(f"| {label} | {files} | {trig} | {', '.join(m.get('caught_by', [])) or '—'} | {st.get(label, '')} |")
table2 = "\n".join(rows2)
b2, e2 = "<!-- BEGIN SEEDED TABLE -->", "<!-- END SEEDED TABLE -->"
s2 = open(path).read()
if b2 in s2:
    s2 = s2[:s2.index(b2) + len(b2)] + "\n" + table2 + "\n" + s2[s2.index(e2):]
    open(path, "w").write(s2)
print(table)
