package main

import (
	"fmt"
	"go/token"
	"go/types"
	"strings"

	"golang.org/x/tools/go/ssa"
)

// C32 — client IP and scheme come from forwarded headers only behind a trusted proxy.
func init() { register("C32", checkC32) }

const relLua = "internal/http/server/authorization/lua"

var forwardedHeaderNames = map[string]bool{
	"cf-connecting-ip": true, "x-forwarded-for": true, "x-forwarded-proto": true, "x-real-ip": true,
	"forwarded": true, "x-forwarded-host": true, "x-forwarded-scheme": true, "true-client-ip": true, "x-client-ip": true,
}

func checkC32(w *World, r *Run) {
	ruleRead := r.Rule("forwarded-header-read-behind-trust-guard", "F1",
		"every read of a forwarding header (CF-Connecting-IP, X-Forwarded-For, X-Forwarded-Proto, …) in the server and authorizer packages is dominated by trustForwardedHeaders == true and isTrustedProxy(httpRequest.RemoteIP, authorizer.trustedProxyCIDRs) == true", 3)
	ruleRet := r.Rule("untrusted-return-carries-peer-values", "F1",
		"every return of resolveClientIPAndScheme that is not dominated by the trust guard returns the peer's RemoteIP and the connection's scheme (no header-derived value)", 1)
	ruleWriters := r.Rule("clientip-scheme-writers", "F6",
		"HTTPRequest.ClientIP/Scheme are written only by makeAuthorizationHTTPRequest (from the connection: RemoteAddr/TLS, never from headers) and by pushRequest (from resolveClientIPAndScheme)", 4)
	ruleAbs := r.Rule("unusable-cidr-list-never-trust-all", "F9",
		"three-point abstraction {nil, empty non-nil, non-empty} of the CIDR slice: the value parseTrustedProxyCIDRs returns for a non-empty input whose entries were all rejected must not satisfy the trust-all branch of isTrustedProxy", 1)
	ruleContains := r.Rule("trusted-proxy-membership", "F1",
		"apart from the trust-all branch, isTrustedProxy returns true only under cidr.Contains(ip) == true for the parsed peer address, and false for an unparsable peer", 1)

	resolve := w.SSAFunc(relLua, "LuaAuthorizer.resolveClientIPAndScheme")
	isTrusted := w.Func(relLua, "isTrustedProxy")
	if resolve == nil || isTrusted == nil {
		r.Anchor(ruleRead, "lua.resolveClientIPAndScheme / isTrustedProxy")
		return
	}
	trustGuard := func(b *ssa.BasicBlock) bool {
		flag, proxy := false, false
		for _, f := range factsAt(b) {
			if f.Kind != IsTrue {
				continue
			}
			if n, _ := fieldLoadName(f.Val); n == "trustForwardedHeaders" {
				flag = true
			}
			if c, _ := callOf(f.Val); c != nil && calleeObj(c) == isTrusted && len(c.Call.Args) == 2 {
				n0, _ := fieldLoadName(c.Call.Args[0])
				n1, _ := fieldLoadName(c.Call.Args[1])
				if n0 == "RemoteIP" && n1 == "trustedProxyCIDRs" {
					proxy = true
				}
			}
		}
		return flag && proxy
	}
	// 1. header reads: any call in packages lua / server / middleware with a constant string
	// argument naming a forwarding header
	n := 0
	for _, fn := range w.allFuncs {
		if fn.Pkg == nil {
			continue
		}
		rel := pkgRel(fn.Pkg.Pkg)
		if !(strings.HasPrefix(rel, "internal/http")) {
			continue
		}
		allInstrs(fn, false, func(_ *ssa.Function, ins ssa.Instruction) {
			c, ok := ins.(ssa.CallInstruction)
			if !ok {
				return
			}
			for _, a := range c.Common().Args {
				s, isStr := constString(a)
				if !isStr || !forwardedHeaderNames[strings.ToLower(s)] {
					continue
				}
				n++
				cons := shortLua(fn) + " reads header " + s
				if fn == resolve && trustGuard(c.Block()) {
					r.OK(ruleRead, cons, posOf(c), "dominated by trustForwardedHeaders && isTrustedProxy(RemoteIP, trustedProxyCIDRs)")
				} else {
					r.Bad(ruleRead, cons, posOf(c), "forwarding header read outside the trust guard: a client-controlled header can reach the authorizer's view of the peer")
				}
			}
		})
	}
	// 2. untrusted returns
	goodRets, badRet := 0, ""
	for _, ret := range returnsOf(resolve) {
		if ret.Block() == resolve.Recover {
			continue
		}
		if trustGuard(ret.Block()) {
			goodRets++
			continue
		}
		tainted := false
		for i := range ret.Results {
			backSlice(retResult(ret, i), true, func(v ssa.Value) {
				if c, ok := v.(*ssa.Call); ok {
					if f := calleeObj(c); f != nil && f.Pkg() != nil && pkgRel(f.Pkg()) == relLua && f.Name() != "" {
						tainted = true // any helper of the package (getHeaderIgnoreCase, parseForwarded*) taints
					}
				}
				if n, _ := fieldLoadName(v); n == "Headers" {
					tainted = true
				}
			})
		}
		if tainted {
			badRet = w.Pos(posOf(ret))
		} else {
			goodRets++
		}
	}
	r.Check(badRet == "" && goodRets >= 2, ruleRet, "(*LuaAuthorizer).resolveClientIPAndScheme untrusted returns", resolve.Pos(), "peer values only", "return at "+badRet+" yields a header-derived client IP/scheme without the trust guard")

	// 3. writers of ClientIP / Scheme
	httpReq := w.Named(relAuthz, "HTTPRequest")
	for _, fn := range w.allFuncs {
		allInstrs(fn, false, func(_ *ssa.Function, ins ssa.Instruction) {
			st, ok := ins.(*ssa.Store)
			if !ok {
				return
			}
			fa, ok := st.Addr.(*ssa.FieldAddr)
			if !ok {
				return
			}
			fname := fieldName(fa.X.Type(), fa.Field)
			if (fname != "ClientIP" && fname != "Scheme") || recvOfPtr(fa.X.Type()) != httpReq || httpReq == nil {
				return
			}
			cons := shortLua(fn) + " writes HTTPRequest." + fname
			switch {
			case fn.Name() == "makeAuthorizationHTTPRequest" && pkgRel(fn.Pkg.Pkg) == relServer:
				hdr := false
				backSlice(st.Val, true, func(v ssa.Value) {
					if n, _ := fieldLoadName(v); n == "Header" {
						hdr = true
					}
				})
				r.Check(!hdr, ruleWriters, cons, posOf(st), "from the connection (RemoteAddr / TLS)", "the connection-level value derives from request headers")
			case fn.Name() == "pushRequest" && pkgRel(fn.Pkg.Pkg) == relLua:
				fromResolve := false
				backSlice(st.Val, false, func(v ssa.Value) {
					if c, ok := v.(*ssa.Call); ok && c.Call.StaticCallee() == resolve {
						fromResolve = true
					}
				})
				r.Check(fromResolve, ruleWriters, cons, posOf(st), "from resolveClientIPAndScheme", "value does not come from resolveClientIPAndScheme")
			default:
				r.Bad(ruleWriters, cons, posOf(st), "unexpected writer of the authorizer-visible client IP / scheme")
			}
		})
	}

	// 4. abstraction
	checkC32Abstraction(w, r, ruleAbs, ruleContains, isTrusted)
	checkC32NilList(w, r)
	checkSchemeFromTheConnection(w, r)
	checkSettingsLayersKeepLists(w, r)
	checkC32ListUnfiltered(w, r)
	r.NotCovered("CIDR membership arithmetic (net.IPNet.Contains), parsing of X-Forwarded-For lists, IPv4-mapped IPv6 forms (runtime values)")
}

func shortLua(fn *ssa.Function) string {
	s := funcName(fn)
	for _, p := range []string{relLua + ".", relServer + ".", relHTTPMw + "."} {
		s = strings.ReplaceAll(s, p, "")
	}
	return s
}

func checkC32Abstraction(w *World, r *Run, ruleAbs, ruleContains string, isTrusted *types.Func) {
	fn := w.Prog.FuncValue(isTrusted)
	parse := w.SSAFunc(relLua, "parseTrustedProxyCIDRs")
	if fn == nil || parse == nil {
		r.Anchor(ruleAbs, "lua.parseTrustedProxyCIDRs")
		return
	}
	cidrs := fn.Params[1]
	// classify `return true` sites of isTrustedProxy
	kind := "none"
	containsOK := true
	nilPeerFalse := false
	for _, ret := range returnsOf(fn) {
		v := retResult(ret, 0)
		b, isConst := boolConst(v)
		if !isConst {
			containsOK = false
			continue
		}
		facts := factsAt(ret.Block())
		if !b {
			for _, f := range facts {
				if f.Kind == IsNil {
					nilPeerFalse = true
				}
			}
			continue
		}
		underContains := false
		for _, f := range facts {
			if c, _ := callOf(f.Val); c != nil && f.Kind == IsTrue {
				if g := calleeObj(c); g != nil && g.Name() == "Contains" {
					underContains = true
				}
			}
		}
		if underContains {
			continue
		}
		// trust-all branch: which test?
		k := "other"
		for _, f := range facts {
			if f.Kind == IsNil && f.Val == cidrs {
				k = "nil"
			}
			if factSaysEmpty(f, func(x ssa.Value) bool { return x == cidrs }) && k != "nil" {
				k = "len"
			}
		}
		if k == "other" {
			containsOK = false
		}
		kind = k
	}
	r.Check(containsOK && nilPeerFalse, ruleContains, "isTrustedProxy returns", isTrusted.Pos(), "true only under cidr.Contains(ip) or the trust-all test; false for a nil/unparsable peer", "isTrustedProxy has a 'return true' that is neither under cidr.Contains(ip) nor the recognised trust-all test")

	// what can parseTrustedProxyCIDRs return for a non-empty input?
	mayEmptyNonNil := false
	for _, ret := range returnsOf(parse) {
		v := retResult(ret, 0)
		if isNilConst(v) {
			continue
		}
		fromMake := false
		backSlice(v, true, func(x ssa.Value) {
			if _, ok := x.(*ssa.MakeSlice); ok {
				fromMake = true
			}
		})
		if !fromMake {
			continue
		}
		nonEmptyGuard := false
		inSlice := map[ssa.Value]bool{}
		backSlice(v, true, func(x ssa.Value) { inSlice[x] = true })
		ofResult := func(x ssa.Value) bool { return inSlice[x] && types.Identical(x.Type(), v.Type()) }
		for _, f := range factsAt(ret.Block()) {
			if bo, ok := f.Val.(*ssa.BinOp); ok && isLenOf(bo.X, ofResult) {
				if n, isc := intConst(bo.Y); isc && ((bo.Op == token.GTR && n == 0 && f.Kind == IsTrue) || (bo.Op == token.EQL && n == 0 && f.Kind == IsFalse)) {
					nonEmptyGuard = true
				}
			}
			if f.Kind == NeConst && f.Const != nil {
				if n, isc := intConst(f.Const); isc && n == 0 && isLenOf(f.Val, ofResult) {
					nonEmptyGuard = true
				}
			}
		}
		if !nonEmptyGuard {
			mayEmptyNonNil = true
		}
	}
	cons := "parseTrustedProxyCIDRs ∘ isTrustedProxy trust-all branch"
	detail := fmt.Sprintf("trust-all test kind=%s; parse may return empty non-nil=%v", kind, mayEmptyNonNil)
	bad := kind == "len" && mayEmptyNonNil
	r.Check(!bad, ruleAbs, cons, isTrusted.Pos(), detail, "parseTrustedProxyCIDRs returns an empty non-nil slice when every configured entry is malformed, and isTrustedProxy's trust-all branch tests len(..)==0: an unusable list trusts every peer")
}
