#!/usr/bin/env bash
# usage: seedverify.sh <Cnn> [agent-worktree] [agent-outdir]
# Confirms a seeded breaking change independently of the agent that wrote it:
#   1. fresh scratch worktree of /repo HEAD + patch.diff builds and passes the whole existing suite;
#   2. the demonstration fails on the changed tree and passes on the unchanged tree;
#   3. /verif's checks are run against /repo with the patch applied (and /repo is restored).
# Results go to /tmp/seedout/<Cnn>/verify.json; nothing is written under /verif.
set -u
id="$1"; wt="${2:-/tmp/wt/$id}"; out="${3:-/tmp/seedout/$id}"
export PATH=/opt/veriftools/go1.27.0/bin:$PATH GOFLAGS=-mod=mod GOPROXY=off GOSUMDB=off GOTOOLCHAIN=local GOWORK=off
sv=/tmp/sv/$(basename "$(dirname "$out")")-$id
rm -rf "$sv"; git -C /repo worktree prune
git -C /repo worktree add -q --detach "$sv" HEAD || exit 2
res() { printf '%s\n' "$1" >> "$out/verify.log"; }
: > "$out/verify.log"
patch="$out/patch.diff"
[ -s "$patch" ] || { echo "no patch"; exit 2; }
# demo files = untracked files of the agent's worktree
mapfile -t demos < <(git -C "$wt" status --porcelain | awk '/^\?\?/{print $2}')
# --- unchanged tree: demo passes
for d in "${demos[@]}"; do mkdir -p "$sv/$(dirname "$d")"; cp -r "$wt/$d" "$sv/$d"; done
demo_pkgs=$(for d in "${demos[@]}"; do case "$d" in *_test.go) echo "./$(dirname "$d")";; esac; done | sort -u)
clean_demo=skip
if [ -n "$demo_pkgs" ]; then
  if (cd "$sv" && go test -vet=off -count=1 -run 'Seeded|Demo|seeded|demo' $demo_pkgs > "$out/demo_clean.log" 2>&1); then clean_demo=pass; else clean_demo=fail; fi
fi
# --- changed tree
if ! git -C "$sv" apply "$patch" 2> "$out/apply.log"; then echo "patch does not apply"; res "apply=fail"; git -C /repo worktree remove --force "$sv"; exit 1; fi
build=ok; (cd "$sv" && go build ./... > "$out/build.log" 2>&1) || build=fail
seed_demo=skip
if [ -n "$demo_pkgs" ]; then
  if (cd "$sv" && go test -vet=off -count=1 -run 'Seeded|Demo|seeded|demo' $demo_pkgs > "$out/demo_seeded.log" 2>&1); then seed_demo=pass; else seed_demo=fail; fi
fi
# existing suite without the demo files
for d in "${demos[@]}"; do rm -rf "$sv/$d"; done
suite=ok; (cd "$sv" && go test -vet=off -count=1 -timeout 25m ./... > "$out/suite.log" 2>&1) || suite=fail
git -C /repo worktree remove --force "$sv"
# --- /verif checks against /repo + patch (serialised with a lock: /repo is shared)
checks=""
exec 9>/tmp/seedout/.repo.lock; flock 9
if git -C /repo apply --check "$patch" 2>/dev/null && git -C /repo diff --quiet; then
  git -C /repo apply "$patch"
  PVCHECK_OUT=$out/ev /verif/check all quick > "$out/checks.log" 2>&1
  git -C /repo checkout -- .
  checks=$(grep -o '^VIOLATION property=C[0-9]*' "$out/checks.log" | sort -u | sed 's/VIOLATION property=//' | tr '\n' ' ')
else
  checks="(could not apply to /repo)"
fi
printf '{"property":"%s","build":"%s","existing_suite":"%s","demo_on_unchanged_tree":"%s","demo_on_changed_tree":"%s","checks_reporting_violation":"%s"}\n' "$id" "$build" "$suite" "$clean_demo" "$seed_demo" "$checks" > "$out/verify.json"
cat "$out/verify.json"
