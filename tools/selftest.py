#!/usr/bin/env python3
"""Mutation self-test of the static rules.

Each mutant is /verif/selftest/<Cnn>/<name>.patch (a unified diff against /repo that keeps
pithos compiling) with a first-line comment `# expect: <regex>` naming the construct the
check must report. For every mutant: copy /repo's working tree to a scratch directory
outside /repo and /verif, apply the patch, run the rule in a fresh pvcheck process against
the copy (evidence redirected to the scratch directory), require exit 1 and a VIOLATION
report matching the regex, delete the copy.

usage: selftest.py [Cnn ...]   (no argument = all)     exit 0 = every mutant detected
"""
import os, re, subprocess, sys, tempfile, shutil, glob, concurrent.futures

VERIF = os.path.dirname(os.path.dirname(os.path.abspath(__file__)))
REPO = os.environ.get("PVCHECK_REPO", "/repo")
BIN = os.path.join(VERIF, "bin", "pvcheck")

def run_mutant(path):
    pid = os.path.basename(os.path.dirname(path))
    name = os.path.basename(path)[:-6]
    text = open(path).read()
    if not re.match(r"^C\d+$", pid):
        pid = os.path.basename(os.path.dirname(os.path.dirname(path)))  # seeded/<Cnn>/<round>/patch.diff
    if path.endswith("patch.diff"):
        # a seeded change from an independent sub-agent (/verif/seeded/<Cnn>/patch.diff):
        # the check of its own property must report something
        name, expect = "seeded-change", r"\(violated\)|\(undecided\)"
        try:
            import json
            meta = json.load(open(os.path.join(os.path.dirname(path), "meta.json")))
            if meta.get("obsolete_after_fix"):
                return (pid, name, True, "skipped: no longer breaks the property since fix %s in /repo (see meta.json)" % meta["obsolete_after_fix"])
        except Exception:
            pass
    else:
        m = re.match(r"# expect: (.*)\n", text)
        if not m:
            return (pid, name, False, "no '# expect:' header")
        expect = m.group(1).strip()
    scratch = tempfile.mkdtemp(prefix="pvmut.")
    try:
        dst = os.path.join(scratch, "repo")
        subprocess.run(["rsync", "-a", "--exclude", ".git", REPO + "/", dst + "/"], check=True)
        p = subprocess.run(["patch", "-p1", "--no-backup-if-mismatch", "-s", "-i", path], cwd=dst, capture_output=True, text=True)
        if p.returncode != 0:
            return (pid, name, False, "STALE MUTANT: patch does not apply: " + (p.stdout + p.stderr).strip()[:300])
        env = dict(os.environ, PVCHECK_REPO=dst, PVCHECK_VERIF=VERIF, PVCHECK_OUT=os.path.join(scratch, "out"))
        q = subprocess.run([BIN, pid, "quick"], env=env, capture_output=True, text=True)
        out = q.stdout + q.stderr
        if "load failure" in out:
            return (pid, name, False, "mutant does not type-check: " + out[:400])
        if q.returncode != 1 or "VIOLATION property=%s " % pid not in out:
            return (pid, name, False, "NOT DETECTED (exit %d)" % q.returncode)
        hits = [l for l in out.splitlines() if re.search(expect, l) and "KNOWN-FINDING" not in l]
        if not hits:
            return (pid, name, False, "violation reported but none matches /%s/: %s" % (expect, out[:600]))
        return (pid, name, True, hits[0][:200])
    finally:
        shutil.rmtree(scratch, ignore_errors=True)

def main():
    want = [a for a in sys.argv[1:] if re.match(r"^C\d+$", a)]
    paths = sorted(glob.glob(os.path.join(VERIF, "selftest", "C*", "*.patch")) + glob.glob(os.path.join(VERIF, "seeded", "C*", "patch.diff")) + glob.glob(os.path.join(VERIF, "seeded", "C*", "*", "patch.diff")))
    if want:
        paths = [p for p in paths if any(("/" + x + "/") in p for x in want)]
    if not paths:
        print("selftest: no mutants for", want)
        return 0
    bad = 0
    with concurrent.futures.ThreadPoolExecutor(max_workers=4) as ex:
        for pid, name, ok, msg in ex.map(run_mutant, paths):
            print("%s %-4s %-45s %s" % ("ok  " if ok else "FAIL", pid, name, msg))
            bad += 0 if ok else 1
    print("selftest: %d mutants, %d not detected" % (len(paths), bad))
    return 1 if bad else 0

if __name__ == "__main__":
    sys.exit(main())
