package main

import (
	"fmt"
	"go/types"
	"sort"
	"strings"

	"golang.org/x/tools/go/ssa"
)

// C30 — chunked uploads store exactly the decoded payload.
func init() { register("C30", checkC30) }

func checkC30(w *World, r *Run) {
	ruleEOF := r.Rule("decoder-eof-only-after-final-validation", "F1",
		"awsChunkReadCloser.Read returns io.EOF only after the zero-length chunk: every path to that return established skipChunkValidation or validateSignature()==nil, and — when a trailer is declared — validateTrailerChecksum()==nil and, for signed trailers, a successful trailer-signature verify; no error of the underlying reader (which may be io.EOF) is returned unconverted", 6)
	ruleChunk := r.Rule("every-data-chunk-end-is-verified", "F1",
		"when a data chunk has been read completely (chunkBytesRemaining == 0) every path to the return established skipChunkValidation or validateSignature()==nil; the bytes hashed for the chunk signature and the trailer checksum are the bytes handed to the caller", 3)
	ruleModes := r.Rule("streaming-mode-flags-match-declared-constants", "F7",
		"the flags handed to newAwsChunkReadCloser are true exactly for the matching x-amz-content-sha256 constants: skipChunkValidation ⇔ UNSIGNED modes, hasTrailingHeader ⇔ *-TRAILER modes, hasTrailingHeaderWithSignature ⇔ signed *-TRAILER modes; the decoder is seeded with the request signature, timestamp and scope and installed only after the request signature verified and the verifier accepts the mode", 6)
	ruleInstall := r.Rule("decoder-installed-on-every-route", "F6",
		"every path from SetupServer's root handler to the API handlers passes an installation point of the aws-chunked decoder (a function from which newAwsChunkReadCloser is reachable), with authentication enabled or disabled, for credentialed and anonymous requests", 2)

	read := w.SSAFunc(relAuthn, "awsChunkReadCloser.Read")
	if read == nil {
		r.Anchor(ruleEOF, "authentication.awsChunkReadCloser.Read")
		return
	}
	isField := func(v ssa.Value, name string) bool {
		n, _ := fieldLoadName(v)
		return n == name
	}
	callName := func(v ssa.Value) string {
		c, _ := callOf(v)
		if c == nil {
			return ""
		}
		if f := calleeObj(c); f != nil {
			return f.Name()
		}
		return ""
	}
	// sanitizer shape
	san := w.SSAFunc(relAuthn, "unexpectedEOF")
	sanOK := false
	if san != nil {
		for _, ret := range returnsOf(san) {
			v := retResult(ret, 0)
			if ld, ok := v.(*ssa.UnOp); ok {
				if g, ok := ld.X.(*ssa.Global); ok && g.Name() == "ErrUnexpectedEOF" {
					for _, f := range factsAt(ret.Block()) {
						if f.Kind == EqConst && f.Other != nil {
							if l2, ok := f.Other.(*ssa.UnOp); ok {
								if g2, ok := l2.X.(*ssa.Global); ok && g2.Name() == "EOF" {
									sanOK = true
								}
							}
						}
					}
				}
			}
		}
	}
	mayBeRawEOF := func(v ssa.Value) (bool, string) {
		bad := ""
		var visit func(x ssa.Value, depth int)
		seen := map[ssa.Value]bool{}
		visit = func(x ssa.Value, depth int) {
			if x == nil || seen[x] || depth > 8 {
				return
			}
			seen[x] = true
			switch y := x.(type) {
			case *ssa.Phi:
				for _, e := range y.Edges {
					visit(e, depth+1)
				}
			case *ssa.Extract:
				if c, ok := y.Tuple.(*ssa.Call); ok {
					if f := calleeObj(c); f != nil && f.Pkg() != nil {
						p := f.Pkg().Path()
						if p == "bufio" || p == "io" {
							bad = f.Name()
						}
					}
				}
			case *ssa.Call:
				if f := calleeObj(y); f != nil {
					if f.Name() == "unexpectedEOF" && sanOK {
						return
					}
					if f.Pkg() != nil && (f.Pkg().Path() == "bufio" || f.Pkg().Path() == "io") {
						bad = f.Name()
					}
				}
			case *ssa.UnOp:
				for _, st := range storesTo(y.X) {
					visit(st, depth+1)
				}
			}
		}
		visit(v, 0)
		return bad != "", bad
	}
	nEOF := 0
	for i, ret := range returnsOf(read) {
		if ret.Block() == read.Recover {
			continue
		}
		v := retResult(ret, 1)
		cons := fmt.Sprintf("awsChunkReadCloser.Read return #%d", i+1)
		if isNilConst(v) {
			continue
		}
		if ld, ok := stripConv(v).(*ssa.UnOp); ok {
			if g, ok := ld.X.(*ssa.Global); ok && g.Name() == "EOF" {
				nEOF++
				sigOK := everyPathEstablishes(ret.Block(), func(f Fact) bool {
					return (f.Kind == IsTrue && isField(f.Val, "skipChunkValidation")) || (f.Kind == IsNil && callName(f.Val) == "validateSignature")
				})
				trailerOK := everyPathEstablishes(ret.Block(), func(f Fact) bool {
					return (f.Kind == IsFalse && isField(f.Val, "hasTrailingHeader")) || (f.Kind == IsNil && callName(f.Val) == "validateTrailerChecksum")
				})
				trailerSigOK := everyPathEstablishes(ret.Block(), func(f Fact) bool {
					return (f.Kind == IsFalse && (isField(f.Val, "hasTrailingHeader") || isField(f.Val, "hasTrailingHeaderWithSignature"))) || (f.Kind == IsTrue && callName(f.Val) == "verify")
				})
				why := ""
				if !sigOK {
					why += "final chunk signature not verified on some path; "
				}
				if !trailerOK {
					why += "declared trailer checksum not validated on some path; "
				}
				if !trailerSigOK {
					why += "trailer signature not verified on some path; "
				}
				r.Check(why == "", ruleEOF, cons+" (io.EOF)", posOf(ret), "after final-chunk signature, trailer checksum and trailer signature", why)
				continue
			}
		}
		if raw, from := mayBeRawEOF(v); raw {
			r.Bad(ruleEOF, cons+" (error of "+from+")", posOf(ret), "an error of the underlying reader is returned unconverted; when the stream simply ends here it is io.EOF and the truncated body looks like a complete payload (no final chunk, no trailer checksum)")
			continue
		}
		r.OK(ruleEOF, cons, posOf(ret), "cannot be a raw io.EOF")
	}
	if nEOF != 1 {
		r.Bad(ruleEOF, "awsChunkReadCloser.Read io.EOF returns", read.Pos(), fmt.Sprintf("expected exactly one 'return 0, io.EOF', found %d", nEOF))
	}

	// chunk end
	var readFull *ssa.Call
	allInstrs(read, false, func(_ *ssa.Function, ins ssa.Instruction) {
		if c, ok := ins.(*ssa.Call); ok {
			if f := calleeObj(c); f != nil && f.Name() == "ReadFull" {
				readFull = c
			}
		}
	})
	if readFull == nil {
		r.Bad(ruleChunk, "awsChunkReadCloser.Read data path", read.Pos(), "io.ReadFull of the chunk data not found (anchor lost)")
	} else {
		// the If testing chunkBytesRemaining == 0 after the read
		var endIf *ssa.BasicBlock
		endK := 0
		for _, b := range read.Blocks {
			if len(b.Instrs) == 0 || !(readFull.Block() == b || readFull.Block().Dominates(b)) {
				continue
			}
			if iff, ok := b.Instrs[len(b.Instrs)-1].(*ssa.If); ok {
				var fs []Fact
				decompose(iff.Cond, true, iff, &fs)
				for _, f := range fs {
					if f.Kind == EqConst && f.Const != nil && isField(f.Val, "chunkBytesRemaining") {
						if k, isc := intConst(f.Const); isc && k == 0 {
							endIf, endK = b, 0
						}
					}
				}
			}
		}
		if endIf == nil {
			r.Bad(ruleChunk, "awsChunkReadCloser.Read chunk-end test", posOf(readFull), "no chunkBytesRemaining == 0 test after the data read")
		} else {
			ok := true
			for _, ret := range returnsOf(read) {
				if ret.Block() == read.Recover || isFailureReturn(ret) {
					continue
				}
				// return 0, unexpectedEOF(err) under err != nil is a failure return too
				if c, _ := callOf(retResult(ret, 1)); c != nil && calleeObj(c) != nil && calleeObj(c).Name() == "unexpectedEOF" && definitelyNonNilError(c.Call.Args[0], ret.Block()) {
					continue
				}
				if !reachableBlocks(endIf.Succs[endK])[ret.Block()] {
					continue
				}
				if !everyPathFromCrosses(endIf.Succs[endK], ret.Block(), edgeEstablishes(func(f Fact) bool {
					return (f.Kind == IsTrue && isField(f.Val, "skipChunkValidation")) || (f.Kind == IsNil && callName(f.Val) == "validateSignature")
				})) {
					ok = false
				}
			}
			r.Check(ok, ruleChunk, "awsChunkReadCloser.Read verifies the signature at every chunk end", posOf(readFull), "validateSignature on the chunk-end path unless unsigned mode", "a completely read data chunk can be handed on without its signature having been verified")
		}
		// hashed bytes = returned bytes
		buf := readFull.Call.Args[1]
		for _, hn := range []string{"chunkHasher", "trailerHasher"} {
			found := false
			allInstrs(read, false, func(_ *ssa.Function, ins ssa.Instruction) {
				c, ok := ins.(*ssa.Call)
				if !ok || !c.Call.IsInvoke() || c.Call.Method.Name() != "Write" || !isField(c.Call.Value, hn) {
					return
				}
				backSlice(c.Call.Args[0], false, func(x ssa.Value) {
					if sameValue(x, buf) {
						found = true
					}
				})
			})
			r.Check(found, ruleChunk, "awsChunkReadCloser.Read feeds "+hn+" with the bytes just read", posOf(readFull), "Write(p[:n])", hn+" is not fed with the buffer returned to the caller")
		}
	}

	checkC30Modes(w, r, ruleModes)
	checkC30Install(w, r, ruleInstall)
	ruleDown := r.Rule("decoder-errors-reach-the-part-write", "F1", "below the handler the compression middleware keeps the request body chained behind its sample on every path, so the ErrUnexpectedEOF of a truncated aws-chunked body fails the write", 1)
	checkCompressionChainsSource(w, r, ruleDown)
	r.NotCovered("chunk-size arithmetic and buffer boundaries over all chunkings; HMAC chain values; behaviour of clients that omit x-amz-decoded-content-length")
	_ = types.Universe
}

func checkC30Modes(w *World, r *Run, rule string) {
	// the one place that builds the decoder (since the repair of D9: installAwsChunkDecoder,
	// shared by the credentialed and the credential-less path)
	fn := w.SSAFunc(relAuthn, "installAwsChunkDecoder")
	if fn == nil {
		fn = w.SSAFunc(relAuthn, "checkAuthentication")
	}
	newRC := w.Func(relAuthn, "newAwsChunkReadCloser")
	if fn == nil || newRC == nil {
		r.Anchor(rule, "authentication.installAwsChunkDecoder / newAwsChunkReadCloser")
		return
	}
	calls := callsTo(fn, false, func(f *types.Func) bool { return f == newRC })
	if len(calls) != 1 {
		r.Bad(rule, fn.Name()+" → newAwsChunkReadCloser", fn.Pos(), fmt.Sprintf("expected one installation, found %d", len(calls)))
		return
	}
	// nobody else builds a decoder with flags of its own
	for _, other := range w.callers[w.Prog.FuncValue(newRC)] {
		if other.Parent() != fn {
			r.Bad(rule, funcName(other.Parent())+" → newAwsChunkReadCloser", other.Pos(), "a second construction site of the decoder: its mode flags are not the ones this rule examines")
		}
	}
	c := calls[0]
	a := c.Common().Args // ctx, inner, timestamp, scope, previousSignature, verifier, hasTrailing, withSig, skip, trailerName
	constsOf := func(v ssa.Value) []string {
		m := map[string]bool{}
		orChainConsts(v, m, 0)
		return keys(m)
	}
	p := w.Pkg(relAuthn)
	var all []string
	for _, n := range p.Types.Scope().Names() {
		if k, ok := p.Types.Scope().Lookup(n).(*types.Const); ok && strings.HasPrefix(n, "contentSHA256Streaming") {
			all = append(all, strings.Trim(k.Val().ExactString(), "\""))
		}
	}
	sort.Strings(all)
	want := func(pred func(string) bool) []string {
		var out []string
		for _, s := range all {
			if pred(s) {
				out = append(out, s)
			}
		}
		// the non-streaming UNSIGNED-PAYLOAD constant never reaches the decoder
		return out
	}
	eq := func(x, y []string) bool { return strings.Join(x, ",") == strings.Join(y, ",") }
	gotTrail, gotSig, gotSkip := constsOf(a[6]), constsOf(a[7]), constsOf(a[8])
	r.Check(eq(gotTrail, want(func(s string) bool { return strings.HasSuffix(s, "-TRAILER") })), rule, "hasTrailingHeader ⇔ *-TRAILER modes", posOf(c), strings.Join(gotTrail, ","), "flag is derived from "+strings.Join(gotTrail, ",")+": a declared trailer is not validated (or expected where none is sent)")
	r.Check(eq(gotSig, want(func(s string) bool { return strings.HasSuffix(s, "-TRAILER") && !strings.Contains(s, "UNSIGNED") })), rule, "hasTrailingHeaderWithSignature ⇔ signed *-TRAILER modes", posOf(c), strings.Join(gotSig, ","), "flag is derived from "+strings.Join(gotSig, ","))
	r.Check(eq(gotSkip, want(func(s string) bool { return strings.Contains(s, "UNSIGNED") })), rule, "skipChunkValidation ⇔ UNSIGNED streaming modes", posOf(c), strings.Join(gotSkip, ","), "chunk signatures are skipped for "+strings.Join(gotSkip, ",")+": a signed streaming mode would be accepted without verifying chunks")
	// seed + guards
	fieldIs := func(v ssa.Value, field string) bool {
		if n, _ := fieldLoadName(v); n == field {
			return true
		}
		if fl, ok := v.(*ssa.Field); ok && fieldName(fl.X.Type(), fl.Field) == field {
			return true
		}
		return false
	}
	// seeds and guards. Since the repair of D9 the decoder is built by installAwsChunkDecoder
	// from its own parameters; what matters is what its call sites pass and under which guards
	newShape := fn.Name() == "installAwsChunkDecoder"
	if newShape {
		inOrder := true
		for i := 2; i <= 5; i++ {
			if paramIndex(fn, a[i]) != i {
				inOrder = false
			}
		}
		r.Check(inOrder, rule, "installAwsChunkDecoder hands its timestamp, scope, seed signature and verifier to the decoder", posOf(c), "parameters 2–5 in order", "the decoder is not built from the values the caller verified")
		authFn := w.SSAFunc(relAuthn, "checkAuthentication")
		sites := 0
		for _, site := range w.callers[fn] {
			sc, ok := site.(*ssa.Call)
			if !ok {
				continue
			}
			sites++
			sa := sc.Call.Args
			switch site.Parent() {
			case authFn:
				r.Check(fieldIs(sa[2], "timestamp") && fieldIs(sa[3], "value") && fieldIs(sa[4], "signature"), rule, "decoder seeded with request timestamp, scope and signature", posOf(sc), "parameters.timestamp, scope.value, parameters.signature", "the chunk-signature chain is not seeded from the verified request")
				verified, accepts, chunked := false, false, false
				for _, f := range factsAt(sc.Block()) {
					cc, _ := callOf(f.Val)
					if cc == nil || calleeObj(cc) == nil {
						continue
					}
					switch calleeObj(cc).Name() {
					case "verify":
						verified = verified || f.Kind == IsTrue
					case "acceptsStreamingPayload":
						accepts = accepts || f.Kind == IsTrue
					case "hasAwsChunkedContentEncoding":
						chunked = chunked || f.Kind == IsTrue
					}
				}
				r.Check(verified && accepts && chunked, rule, "decoder installed only for aws-chunked bodies of verified requests whose verifier accepts the mode", posOf(sc), "verify ∧ acceptsStreamingPayload ∧ hasAwsChunkedContentEncoding", fmt.Sprintf("guards: verified=%v accepts=%v chunked=%v", verified, accepts, chunked))
			default:
				// a request without credentials: only the unsigned streaming forms can be decoded
				// (no key to verify chunk signatures with) — a chunk-signed form must not be
				// accepted unverified
				unsignedOnly := everyPathEstablishes(sc.Block(), func(f Fact) bool {
					if f.Kind != EqConst || f.Const == nil {
						return false
					}
					sv, ok := constString(f.Const)
					return ok && strings.Contains(sv, "UNSIGNED") && strings.HasPrefix(sv, "STREAMING-")
				})
				chunked := false
				for _, f := range factsAt(sc.Block()) {
					if cc, _ := callOf(f.Val); cc != nil && calleeObj(cc) != nil && calleeObj(cc).Name() == "hasAwsChunkedContentEncoding" && f.Kind == IsTrue {
						chunked = true
					}
				}
				r.Check(unsignedOnly && chunked, rule, funcName(site.Parent())+": credential-less decoding only of unsigned streaming payloads", posOf(sc), "content-sha256 ∈ STREAMING-UNSIGNED-PAYLOAD[-TRAILER] ∧ aws-chunked", "without credentials a chunk-signed payload form reaches the decoder (its chunk signatures cannot be verified), or a body that is not aws-chunked is decoded")
			}
		}
		if sites < 2 {
			r.Bad(rule, "installAwsChunkDecoder call sites", fn.Pos(), fmt.Sprintf("expected the credentialed and the credential-less call site, found %d", sites))
		}
		if authFn == nil {
			return
		}
		fn = authFn // the return rule below is about checkAuthentication
	}
	if !newShape {
		r.Check(fieldIs(a[2], "timestamp") && fieldIs(a[3], "value") && fieldIs(a[4], "signature"), rule, "decoder seeded with request timestamp, scope and signature", posOf(c), "parameters.timestamp, scope.value, parameters.signature", "the chunk-signature chain is not seeded from the verified request")
		verified, accepts, chunked := false, false, false
		for _, f := range factsAt(c.Block()) {
			cc, _ := callOf(f.Val)
			if cc == nil || calleeObj(cc) == nil {
				continue
			}
			switch calleeObj(cc).Name() {
			case "verify":
				verified = verified || f.Kind == IsTrue
			case "acceptsStreamingPayload":
				accepts = accepts || f.Kind == IsTrue
			case "hasAwsChunkedContentEncoding":
				chunked = chunked || f.Kind == IsTrue
			}
		}
		r.Check(verified && accepts && chunked, rule, "decoder installed only for aws-chunked bodies of verified requests whose verifier accepts the mode", posOf(c), "verify ∧ acceptsStreamingPayload ∧ hasAwsChunkedContentEncoding", fmt.Sprintf("guards: verified=%v accepts=%v chunked=%v", verified, accepts, chunked))
	}
	// every successful return with isAwsChunked true passed the installation: the authenticated return is after it
	okAll := true
	for _, ret := range returnsOf(fn) {
		if ret.Block() == fn.Recover {
			continue
		}
		if b, isConst := boolConst(retResult(ret, 1)); isConst && !b {
			continue
		}
		if !everyPathCrosses(ret.Block(), func(d *ssa.BasicBlock, k int) bool {
			for _, f := range edgeFacts(d, k) {
				if cc, _ := callOf(f.Val); cc != nil && calleeObj(cc) != nil && calleeObj(cc).Name() == "hasAwsChunkedContentEncoding" {
					return true
				}
			}
			return false
		}) {
			okAll = false
		}
	}
	r.Check(okAll, rule, "authenticated return only after the aws-chunked decision", fn.Pos(), "ok", "an authenticated return bypasses the aws-chunked test")
}

func checkC30Install(w *World, r *Run, rule string) {
	newRC := w.SSAFunc(relAuthn, "newAwsChunkReadCloser")
	setup := w.SSAFunc(relServer, "SetupServer")
	mk := w.SSAFunc(relAuthn, "MakeSignatureMiddleware")
	if newRC == nil || setup == nil || mk == nil || len(mk.AnonFuncs) != 1 {
		r.Anchor(rule, "newAwsChunkReadCloser / SetupServer / MakeSignatureMiddleware")
		return
	}
	// installers: functions from which newAwsChunkReadCloser is reachable (static calls)
	reaches := map[*ssa.Function]bool{newRC: true}
	changed := true
	for changed {
		changed = false
		for _, fn := range w.allFuncs {
			if reaches[fn] {
				continue
			}
			allInstrs(fn, false, func(_ *ssa.Function, ins ssa.Instruction) {
				if c, ok := ins.(ssa.CallInstruction); ok {
					if sc := c.Common().StaticCallee(); sc != nil && reaches[sc] && !reaches[fn] {
						reaches[fn] = true
						changed = true
					}
				}
			})
		}
	}
	// (1) every path through SetupServer applies a middleware that installs the decoder
	isInstaller := func(ins ssa.Instruction) bool {
		c, ok := ins.(ssa.CallInstruction)
		if !ok {
			return false
		}
		sc := c.Common().StaticCallee()
		if sc == nil {
			return false
		}
		if reaches[sc] {
			return true
		}
		for _, a := range sc.AnonFuncs {
			if reaches[a] {
				return true
			}
		}
		return false
	}
	nInst := 0
	allInstrs(setup, false, func(_ *ssa.Function, ins ssa.Instruction) {
		if isInstaller(ins) {
			nInst++
		}
	})
	escapes := sinksReachable(setup.Blocks[0].Instrs[0], isInstaller, nil, func(i ssa.Instruction) bool {
		_, isRet := i.(*ssa.Return)
		return isRet
	})
	if isInstaller(setup.Blocks[0].Instrs[0]) {
		escapes = nil
	}
	condDesc := ""
	if len(escapes) > 0 {
		var parts []string
		for _, f := range factsAt(escapes[0].Block()) {
			d := describeVal(f.Val)
			if i := paramIndex(setup, f.Val); i >= 0 {
				d = setup.Params[i].Name()
			}
			switch f.Kind {
			case NonNil:
				d += " != nil"
			case IsNil:
				d += " == nil"
			case IsFalse:
				d = "!(" + d + ")"
			}
			parts = append(parts, d)
		}
		sort.Strings(parts)
		condDesc = strings.Join(parts, " && ")
		if condDesc == "" {
			condDesc = "some configuration"
		}
	}
	consInst := "SetupServer: aws-chunked decoder installed on every configuration"
	if len(escapes) > 0 {
		consInst = "SetupServer: no aws-chunked decoder installed where " + condDesc
	}
	r.Check(nInst > 0 && len(escapes) == 0, rule, consInst, setup.Pos(), fmt.Sprintf("%d installer(s), every path to the return applies one", nInst), "a path through SetupServer returns the handler without any middleware that installs the decoder ("+condDesc+"): in that configuration an aws-chunked body is stored with its chunk framing, unverified")
	// (2) inside the signature middleware every forward is preceded by an installer call
	cl := mk.AnonFuncs[0]
	allFwd := true
	for _, c := range callsTo(cl, false, func(f *types.Func) bool { return f.Name() == "ServeHTTP" }) {
		pre := false
		allInstrs(cl, false, func(_ *ssa.Function, ins ssa.Instruction) {
			if cc, ok := ins.(ssa.CallInstruction); ok {
				if sc := cc.Common().StaticCallee(); sc != nil && reaches[sc] && instrDominates(ins, c) {
					pre = true
				}
			}
		})
		if !pre {
			allFwd = false
		}
	}
	r.Check(allFwd, rule, "MakeSignatureMiddleware: anonymous requests pass the aws-chunked decoder", cl.Pos(), "every forward preceded by the installer", "the anonymous path forwards the request without decoding: an unauthenticated aws-chunked upload is stored with its chunk framing")
}

// orChainConsts collects the string constants c of a short-circuit chain x == c1 || x == c2 …
// as lowered by go/ssa (a phi of constant true edges, each coming from the block whose If
// tests one comparison, plus the last comparison itself).
func orChainConsts(v ssa.Value, into map[string]bool, depth int) {
	if depth > 10 || v == nil {
		return
	}
	switch x := v.(type) {
	case *ssa.BinOp:
		if x.Op.String() == "==" {
			if s, ok := constString(x.Y); ok {
				into[s] = true
			}
		}
	case *ssa.Phi:
		for i, e := range x.Edges {
			if b, isConst := boolConst(e); isConst {
				if !b {
					continue
				}
				pred := x.Block().Preds[i]
				if len(pred.Instrs) > 0 {
					if iff, ok := pred.Instrs[len(pred.Instrs)-1].(*ssa.If); ok {
						orChainConsts(iff.Cond, into, depth+1)
					}
				}
				continue
			}
			orChainConsts(e, into, depth+1)
		}
	case *ssa.UnOp:
		for _, st := range storesTo(x.X) {
			orChainConsts(st, into, depth+1)
		}
	}
}
