package main

import (
	"fmt"
	"go/token"
	"go/types"
	"sort"
	"strings"

	"golang.org/x/tools/go/ssa"
)

// C33 — virtual-hosted ≡ path-style; website endpoints never change state.
func init() { register("C33", checkC33) }

const relHTTPMw = "internal/http/middleware"

func checkC33(w *World, r *Run) {
	ruleRewrite := r.Rule("vhost-rewrite-is-pure-prefix", "F9",
		"every value stored to r.URL.Path by the host-based rewriters (virtual-host addressing, website host routing, custom-domain fallback) is \"/\" + <host-derived bucket> + <r.URL.Path unmodified>; the only permitted variation is replacing the bucket-root path \"/\" by \"\"; no string-transforming call may be applied to the path part (it carries the object key)", 3)
	ruleRO := r.Rule("website-handlers-reach-no-mutator", "F6",
		"from every handler registered on the website mux (and therefore from the custom-domain fallback) only storage methods classed 'reads' are reachable through static calls", 4)
	ruleMethods := r.Rule("website-mux-get-head-only", "F6",
		"the mux passed as website handler to MakeHostnameRoutingHandler registers GET and HEAD patterns only, is distinct from the API mux, and the fallback handler forwards to it", 5)
	checkC33Rewrite(w, r, ruleRewrite)
	checkC33Website(w, r, ruleRO, ruleMethods)
	checkC33BucketFromHost(w, r)
	checkAuthorizerPathIsDecodedPath(w, r)
	checkSameEndpointEverywhere(w, r)
	checkC33HostRouting(w, r)
	r.NotCovered("percent-encoding equivalence of the two addressing styles inside net/http's ServeMux (library behaviour); that bucket names valid in a Host header equal those valid in a path")
}

// pathLeafKind classifies a leaf of the concatenation stored to URL.Path.
func checkC33Rewrite(w *World, r *Run, rule string) {
	type target struct{ rel, fn string }
	targets := []target{
		{relHTTPMw, "MakeVirtualHostBucketAddressingMiddleware"},
		{relHTTPMw, "MakeHostnameRoutingHandler"},
		{relServer, "SetupServer"},
	}
	for _, t := range targets {
		top := w.SSAFunc(t.rel, t.fn)
		if top == nil {
			r.Anchor(rule, t.rel+"."+t.fn)
			continue
		}
		n := 0
		allInstrs(top, true, func(fn *ssa.Function, ins ssa.Instruction) {
			st, ok := ins.(*ssa.Store)
			if !ok {
				return
			}
			fa, ok := st.Addr.(*ssa.FieldAddr)
			if !ok || fieldName(fa.X.Type(), fa.Field) != "Path" {
				return
			}
			if nt := recvOfPtr(fa.X.Type()); nt == nil || nt.Obj().Name() != "URL" {
				return
			}
			n++
			cons := fmt.Sprintf("%s: store to r.URL.Path #%d", t.fn, n)
			ok2, why := purePrefixOfPath(st.Val, st)
			r.Check(ok2, rule, cons, posOf(st), "\"/\" + bucket + r.URL.Path", why)
		})
		if n == 0 {
			r.Bad(rule, t.fn+": store to r.URL.Path", top.Pos(), "no rewrite of r.URL.Path found (anchor lost)")
		}
	}
}

func isURLPathLoad(v ssa.Value) bool {
	n, base := fieldLoadName(v)
	if n != "Path" || base == nil {
		return false
	}
	nt := recvOfPtr(base.Type())
	return nt != nil && nt.Obj().Name() == "URL"
}

// purePrefixOfPath: v is a left-nested string concatenation whose last leaf is the path part
// and whose other leaves do not derive from r.URL.Path.
func purePrefixOfPath(v ssa.Value, at ssa.Instruction) (bool, string) {
	var leaves []ssa.Value
	var flatten func(x ssa.Value)
	flatten = func(x ssa.Value) {
		if b, ok := x.(*ssa.BinOp); ok && b.Op == token.ADD {
			flatten(b.X)
			flatten(b.Y)
			return
		}
		leaves = append(leaves, x)
	}
	flatten(v)
	if len(leaves) < 2 {
		return false, "the stored value is not a concatenation prefix + path (a call or other transformation produces it)"
	}
	last := leaves[len(leaves)-1]
	if !pathLeafOK(last) {
		return false, "the last component of the new path is not r.URL.Path itself (or r.URL.Path with only the bucket root \"/\" replaced by \"\"): the object key is altered"
	}
	for _, l := range leaves[:len(leaves)-1] {
		bad := false
		backSlice(l, true, func(x ssa.Value) {
			if isURLPathLoad(x) {
				bad = true
			}
		})
		if bad {
			return false, "a prefix component derives from r.URL.Path"
		}
	}
	if s, ok := constString(leaves[0]); !ok || s != "/" {
		return false, "the new path does not start with the constant \"/\""
	}
	return true, ""
}

func pathLeafOK(v ssa.Value) bool {
	if isURLPathLoad(v) {
		return true
	}
	// local variable cell: every store is the path load, or "" under path == "/"
	if ld, ok := v.(*ssa.UnOp); ok && ld.Op == token.MUL {
		sts := storesTo(ld.X)
		if len(sts) == 0 {
			return false
		}
		for _, s := range sts {
			if !pathLeafOK(s) {
				if c, isStr := constString(s); !isStr || c != "" {
					return false
				}
			}
		}
		return true
	}
	phi, ok := v.(*ssa.Phi)
	if !ok {
		return false
	}
	var load ssa.Value
	for _, e := range phi.Edges {
		if isURLPathLoad(e) {
			load = e
		}
	}
	if load == nil {
		return false
	}
	for i, e := range phi.Edges {
		if e == load {
			continue
		}
		if c, isStr := constString(e); !isStr || c != "" {
			return false
		}
		// the "" edge must come from a block reached only when path == "/"
		pred := phi.Block().Preds[i]
		okEdge := false
		check := func(b *ssa.BasicBlock) {
			for _, f := range factsAt(b) {
				if f.Kind == EqConst && f.Const != nil && sameValue(f.Val, load) {
					if s, isStr := constString(f.Const); isStr && s == "/" {
						okEdge = true
					}
				}
			}
		}
		check(pred)
		// direct edge from the comparing block
		if !okEdge && len(pred.Instrs) > 0 {
			if iff, isIf := pred.Instrs[len(pred.Instrs)-1].(*ssa.If); isIf {
				for k := 0; k < 2; k++ {
					if pred.Succs[k] == phi.Block() {
						var fs []Fact
						decompose(iff.Cond, k == 0, iff, &fs)
						for _, f := range fs {
							if f.Kind == EqConst && f.Const != nil && sameValue(f.Val, load) {
								if s, isStr := constString(f.Const); isStr && s == "/" {
									okEdge = true
								}
							}
						}
					}
				}
			}
		}
		if !okEdge {
			return false
		}
	}
	return true
}

func checkC33Website(w *World, r *Run, ruleRO, ruleMethods string) {
	setup := w.SSAFunc(relServer, "SetupServer")
	if setup == nil {
		r.Anchor(ruleRO, "server.SetupServer")
		return
	}
	hr := callsTo(setup, false, func(f *types.Func) bool { return isFunc(f, relHTTPMw, "MakeHostnameRoutingHandler") })
	if len(hr) != 1 {
		r.Anchor(ruleMethods, "call of MakeHostnameRoutingHandler in SetupServer")
		return
	}
	args := hr[0].Common().Args // apiEndpoint, apiHandler, websiteEndpoint, websiteHandler, fallback
	muxOf := func(v ssa.Value) *ssa.Call {
		var mux *ssa.Call
		backSlice(v, true, func(x ssa.Value) {
			if c, ok := x.(*ssa.Call); ok {
				if f := calleeObj(c); f != nil && f.Pkg() != nil && f.Pkg().Path() == "net/http" && f.Name() == "NewServeMux" && mux == nil {
					mux = c
				}
			}
		})
		return mux
	}
	webMux := muxOf(args[3])
	apiMux := muxOf(args[1])
	if webMux == nil || apiMux == nil {
		r.Bad(ruleMethods, "SetupServer: website/API mux", posOf(hr[0]), "cannot resolve the muxes handed to MakeHostnameRoutingHandler")
		return
	}
	r.Check(webMux != apiMux, ruleMethods, "SetupServer: website mux ≠ API mux", posOf(hr[0]), "distinct http.NewServeMux values", "the website endpoint is served by the API mux: mutating routes are reachable through the website endpoint")
	// fallback forwards to the website mux only
	fbOK := false
	if mc, ok := args[4].(*ssa.MakeInterface); ok {
		_ = mc
	}
	var fbFn *ssa.Function
	backSlice(args[4], true, func(x ssa.Value) {
		if mc, ok := x.(*ssa.MakeClosure); ok && fbFn == nil {
			fbFn, _ = mc.Fn.(*ssa.Function)
			// the captured handler cell must hold the website mux
			serveTargets := 0
			for _, c := range callsTo(fbFn, false, func(f *types.Func) bool { return f.Name() == "ServeHTTP" }) {
				serveTargets++
				if m := muxOf(c.Common().Value); m == webMux {
					fbOK = true
				} else {
					fbOK = false
				}
			}
			if serveTargets != 1 {
				fbOK = false
			}
		}
	})
	r.Check(fbOK, ruleMethods, "SetupServer: custom-domain fallback → website mux", posOf(hr[0]), "fallback closure calls ServeHTTP on the website mux only", "the custom-domain fallback does not forward exactly to the website mux")

	// registrations on the website mux
	var regs []ssa.CallInstruction
	for _, c := range callsTo(setup, false, func(f *types.Func) bool { return f.Name() == "HandleFunc" || f.Name() == "Handle" }) {
		if c.Common().Args[0] == webMux || muxOf(c.Common().Args[0]) == webMux {
			regs = append(regs, c)
		}
	}
	e := newAuthEngine(w)
	for _, c := range regs {
		pat, _ := constString(c.Common().Args[1])
		cons := "website route " + pat
		r.Check(strings.HasPrefix(pat, "GET ") || strings.HasPrefix(pat, "HEAD "), ruleMethods, cons, posOf(c), "read method", "the website mux registers a pattern that is not restricted to GET/HEAD")
		var target *ssa.Function
		switch x := c.Common().Args[2].(type) {
		case *ssa.MakeClosure:
			target, _ = x.Fn.(*ssa.Function)
		case *ssa.Function:
			target = x
		}
		if target == nil {
			r.Bad(ruleRO, cons, posOf(c), "handler not statically known")
			continue
		}
		mut := reachableStorageMethods(w, e, target)
		var bad []string
		var all []string
		for m := range mut {
			all = append(all, m)
			if storageMethods[m] != mRead {
				bad = append(bad, m)
			}
		}
		sort.Strings(all)
		sort.Strings(bad)
		r.Check(len(bad) == 0 && len(all) > 0, ruleRO, cons, posOf(c), "reaches only "+strings.Join(all, ","), "a state-changing storage method is reachable from a website handler: "+strings.Join(bad, ","))
	}
}

// reachableStorageMethods: storage.Storage methods invoked on (*Server).storage in functions
// reachable from fn through static calls and function literals (package server only).
func reachableStorageMethods(w *World, e *authEngine, fn *ssa.Function) map[string]bool {
	out := map[string]bool{}
	seen := map[*ssa.Function]bool{}
	var visit func(f *ssa.Function)
	visit = func(f *ssa.Function) {
		if f == nil || seen[f] {
			return
		}
		seen[f] = true
		// bound-method wrappers: follow to the method
		allInstrs(f, true, func(_ *ssa.Function, ins ssa.Instruction) {
			c, ok := ins.(ssa.CallInstruction)
			if !ok {
				return
			}
			if c.Common().IsInvoke() {
				if n, base := fieldLoadName(c.Common().Value); n == "storage" && base != nil {
					if nt := recvOfPtr(base.Type()); nt != nil && nt == e.server {
						out[c.Common().Method.Name()] = true
					}
				}
				return
			}
			if sc := c.Common().StaticCallee(); sc != nil && sc.Pkg != nil && strings.HasPrefix(sc.Pkg.Pkg.Path(), modPath) {
				visit(sc)
			}
		})
	}
	visit(fn)
	return out
}
