// pvcheck decides structural necessary conditions of the pithos properties C01..C40 by
// static analysis of /repo's current working tree. See /verif/DESIGN.md.
package main

import (
	"fmt"
	"os"
	"runtime/debug"
	"sort"
	"strconv"
	"strings"
)

type propFunc func(w *World, r *Run)

type propDef struct {
	ID    string
	Whole bool // needs SSA of dependencies as well
	Fn    propFunc
}

var registry = map[string]*propDef{}

func register(id string, fn propFunc) { registry[id] = &propDef{ID: id, Fn: fn} }

func main() {
	args := os.Args[1:]
	if len(args) == 0 {
		fmt.Fprintln(os.Stderr, "usage: pvcheck <Cnn|all|list> [quick|thorough] [--explain <replay.json>]")
		os.Exit(2)
	}
	target := args[0]
	tier := os.Getenv("VERIF_TIER")
	explain := ""
	for i := 1; i < len(args); i++ {
		switch {
		case args[i] == "quick" || args[i] == "thorough":
			tier = args[i]
		case args[i] == "--explain" && i+1 < len(args):
			explain = args[i+1]
			i++
		}
	}
	if tier != "thorough" {
		tier = "quick"
	}
	var seed int64
	if s := os.Getenv("VERIF_SEED"); s != "" {
		seed, _ = strconv.ParseInt(s, 10, 64)
	}
	verif := os.Getenv("PVCHECK_VERIF")
	if verif == "" {
		verif = "/verif"
	}
	repo := os.Getenv("PVCHECK_REPO")
	if repo == "" {
		repo = "/repo"
	}
	var ids []string
	switch target {
	case "list":
		for id := range registry {
			ids = append(ids, id)
		}
		sort.Strings(ids)
		fmt.Println(strings.Join(ids, " "))
		return
	case "all":
		for id := range registry {
			ids = append(ids, id)
		}
		sort.Strings(ids)
	default:
		for _, id := range strings.Split(target, ",") {
			if _, ok := registry[id]; !ok {
				fmt.Fprintf(os.Stderr, "unknown property %s\n", id)
				os.Exit(2)
			}
			ids = append(ids, id)
		}
	}
	known, err := loadKnown(verif)
	if err != nil {
		fmt.Fprintln(os.Stderr, err)
		os.Exit(2)
	}
	w, err := loadWorld(repo)
	if err != nil {
		// A tree that cannot be loaded proves nothing: every requested property fails.
		for _, id := range ids {
			fmt.Printf("%s: load failure: %v\n", id, err)
			fmt.Printf("VIOLATION property=%s replay=%s\n", id, writeLoadFailure(verif, id, err))
		}
		os.Exit(1)
	}
	w.buildSSA(false)
	if d := os.Getenv("PVCHECK_DUMP"); d != "" {
		// debugging aid: PVCHECK_DUMP=<pkg rel>:<Type.method|func> prints the SSA form
		if i := strings.LastIndex(d, ":"); i > 0 {
			if fn := w.SSAFunc(d[:i], d[i+1:]); fn != nil {
				fn.WriteTo(os.Stdout)
				for _, a := range fn.AnonFuncs {
					a.WriteTo(os.Stdout)
					for _, b := range a.AnonFuncs {
						b.WriteTo(os.Stdout)
					}
				}
			}
		}
		return
	}
	total := 0
	for _, id := range ids {
		r := newRun(id, tier, w)
		func() {
			defer func() {
				if p := recover(); p != nil {
					r.Rule("analyser-panic", "-", "the analyser must not panic", 0)
					r.add("analyser-panic", fmt.Sprint(p), 0, Violated, string(debug.Stack()))
				}
			}()
			registry[id].Fn(w, r)
		}()
		n := r.finish(verif, known, seed)
		total += n
		if explain != "" {
			for _, o := range r.obs {
				if o.Status == Violated || o.Status == Undecided {
					fmt.Printf("EXPLAIN %s [%s] %s\n    at %s\n    %s\n    rule: %s\n", o.Status, o.Rule, o.Construct, o.Pos, o.Detail, r.ruleIdx[o.Rule].Text)
				}
			}
		}
	}
	if total > 0 {
		os.Exit(1)
	}
}

func writeLoadFailure(verif, id string, err error) string {
	dir := verif + "/evidence/replay"
	if o := os.Getenv("PVCHECK_OUT"); o != "" {
		dir = o + "/replay"
	}
	os.MkdirAll(dir, 0o755)
	p := fmt.Sprintf("%s/%s.load.json", dir, id)
	os.WriteFile(p, []byte(fmt.Sprintf("{\"property\":%q,\"rule\":\"load\",\"detail\":%q}\n", id, err.Error())), 0o644)
	return p
}
