package main

import (
	"fmt"
	"go/ast"
	"go/types"
	"sort"
	"strings"

	"golang.org/x/tools/go/ssa"
)

// C24 — bucket-routed storages are isolated.
func init() { register("C24", checkC24) }

const relCond = "internal/storage/middlewares/conditional"

func checkC24(w *World, r *Run) {
	iface := checkStorageTable(w, r)
	T := w.Named(relCond, "conditionalStorageMiddleware")
	ruleOv := r.Rule("routing-overrides-bucket-methods", "F2",
		"every storage.Storage method with a bucket parameter is implemented by *conditionalStorageMiddleware itself; an inherited method always reaches the default storage, whatever the bucket is mapped to", 36)
	ruleRoute := r.Rule("routing-call-on-looked-up-storage", "F1",
		"every storage call in the package is made on the storage returned by lookupStorage(<bucket argument of that very call>); a second bucket argument is allowed only where lookupStorage of it was compared equal to the receiver; csm.Next and the map's storages are used directly only in lookupStorage, ListBuckets, Start, Stop, WithTransaction", 40)
	ruleLookup := r.Rule("routing-lookup-shape", "F1",
		"lookupStorage returns bucketToStorageMap[bucketName.String()] when present and csm.Next otherwise", 1)
	ruleCopy := r.Rule("cross-storage-copy-forwards-options", "F3",
		"the cross-storage branches of CopyObject/UploadPartCopy read every field of their options struct, and CopyObject hands the destination PutObject a non-nil options value with Tags, Metadata and StorageClass assigned and a content type", 5)
	ruleDedup := r.Rule("listbuckets-deduplicates", "F1",
		"the slice ListBuckets returns passes a de-duplication step (slices.Compact/CompactFunc after sorting): the constructor accepts a map in which several bucket names share one storage", 1)
	if iface == nil || T == nil {
		r.Anchor(ruleOv, relCond+".conditionalStorageMiddleware")
		return
	}
	mat := overrideMatrix(T, iface)
	lookup := w.Func(relCond, "conditionalStorageMiddleware.lookupStorage")
	if lookup == nil {
		r.Anchor(ruleLookup, "conditionalStorageMiddleware.lookupStorage")
		return
	}
	for _, m := range methodsOf(iface) {
		sig := iface.Method(0).Type().(*types.Signature)
		for i := 0; i < iface.NumMethods(); i++ {
			if iface.Method(i).Name() == m {
				sig = iface.Method(i).Type().(*types.Signature)
			}
		}
		hasBucket := false
		for i := 0; i < sig.Params().Len(); i++ {
			if isNamedType(sig.Params().At(i).Type(), "BucketName") {
				hasBucket = true
			}
		}
		if !hasBucket {
			continue
		}
		cons := "(*conditionalStorageMiddleware)." + m
		o := mat[m]
		r.Check(o.Own, ruleOv, cons, T.Obj().Pos(), "own implementation", "inherited from "+o.Via+": calls for a mapped bucket go to the default storage")
	}

	// routing of every storage call in the package
	sp := w.SSA[w.Pkg(relCond).Types]
	storageIface := iface
	directOK := map[string]bool{"lookupStorage": true, "ListBuckets": true, "Start": true, "Stop": true, "WithTransaction": true}
	for _, fn := range w.allFuncs {
		if fn.Pkg != sp {
			continue
		}
		allInstrs(fn, false, func(_ *ssa.Function, ins ssa.Instruction) {
			c, ok := ins.(ssa.CallInstruction)
			if !ok || !c.Common().IsInvoke() {
				return
			}
			if !types.Implements(c.Common().Value.Type(), storageIface) && !types.Identical(c.Common().Value.Type().Underlying(), storageIface) {
				return
			}
			if _, isStorageMethod := storageMethods[c.Common().Method.Name()]; !isStorageMethod {
				return
			}
			cons := funcName(fn) + " → Storage." + c.Common().Method.Name()
			verdict, detail := routeVerdict(w, fn, c, lookup, directOK, 0)
			switch verdict {
			case "ok":
				r.OK(ruleRoute, cons, posOf(ins), detail)
			default:
				r.Bad(ruleRoute, cons, posOf(ins), detail)
			}
		})
	}

	// lookupStorage shape
	lfn := w.Prog.FuncValue(lookup)
	shape := false
	nextRet, mapRet := false, false
	for _, ret := range returnsOf(lfn) {
		v := retResult(ret, 0)
		if n, _ := fieldLoadName(v); n == "Next" {
			nextRet = true
			continue
		}
		backSlice(v, false, func(x ssa.Value) {
			if lk, ok := x.(*ssa.Lookup); ok && derivesFromField(lk.X, "bucketToStorageMap") {
				// key must be bucketName.String()
				if call, ok := lk.Index.(*ssa.Call); ok && len(call.Call.Args) == 1 && call.Call.Args[0] == lfn.Params[1] {
					// returned only on the ok edge
					for _, f := range factsAt(ret.Block()) {
						if f.Kind == IsTrue {
							if e, ok := f.Val.(*ssa.Extract); ok && e.Tuple == lk && e.Index == 1 {
								mapRet = true
							}
						}
					}
				}
			}
		})
	}
	shape = nextRet && mapRet && len(returnsOf(lfn)) == 2
	r.Check(shape, ruleLookup, "(*conditionalStorageMiddleware).lookupStorage", lookup.Pos(), "map hit on the ok edge, csm.Next otherwise", "lookupStorage no longer has the shape {map[bucketName.String()] if present, else csm.Next}")

	checkC24Copy(w, r, ruleCopy, mat)
	checkC24Dedup(w, r, ruleDedup, mat)
	checkC24CrossStorageRedirect(w, r)
	checkTxReuseOnlyForOwnDatabase(w, r)
	checkC24CopyClass(w, r)
	checkCopyDateConditions(w, r)
	r.NotCovered("that two storages configured for different buckets do not share state underneath (configuration); equality of a cross-storage copy's result with a same-storage copy beyond option forwarding (ETag of multipart sources differs by design)")
}

// lookupArg: if v is (a conversion of) a call to lookupStorage, return its bucket argument.
func lookupArg(v ssa.Value, lookup *types.Func) ssa.Value {
	if c, _ := callOf(v); c != nil && calleeObj(c) == lookup && len(c.Call.Args) == 2 {
		return c.Call.Args[1]
	}
	return nil
}

func routeVerdict(w *World, fn *ssa.Function, c ssa.CallInstruction, lookup *types.Func, directOK map[string]bool, depth int) (string, string) {
	recv := c.Common().Value
	var bucketArgs []ssa.Value
	for _, a := range c.Common().Args {
		if isNamedType(a.Type(), "BucketName") {
			bucketArgs = append(bucketArgs, a)
		}
	}
	if b := lookupArg(recv, lookup); b != nil {
		matched := false
		for _, a := range bucketArgs {
			if sameValue(a, b) {
				matched = true
				continue
			}
			// other bucket: need fact lookup(a) == recv
			eq := false
			for _, f := range factsAt(c.Block()) {
				if f.Kind == EqConst && f.Other != nil {
					x, y := f.Val, f.Other
					if (sameValue(x, recv) && lookupArgSame(y, lookup, a)) || (sameValue(y, recv) && lookupArgSame(x, lookup, a)) {
						eq = true
					}
				}
			}
			if !eq {
				return "bad", "the call passes a second bucket whose storage was not compared equal to the receiver: data of a bucket routed elsewhere is touched through this storage"
			}
		}
		if len(bucketArgs) > 0 && !matched {
			return "bad", "the receiver is lookupStorage(X) but X is not among the call's bucket arguments"
		}
		return "ok", "receiver = lookupStorage(<bucket argument>)"
	}
	// receiver is a parameter of a helper: check every caller
	if pi := paramIndex(fn, recv); pi >= 0 && fn.Signature.Recv() == nil {
		var bidx []int
		for _, a := range bucketArgs {
			j := paramIndex(fn, a)
			if j < 0 {
				return "bad", "helper passes a bucket that is not its own parameter"
			}
			bidx = append(bidx, j)
		}
		callers := w.callers[fn]
		if len(callers) == 0 || len(w.escapes[fn]) > 0 || depth > 2 {
			return "bad", "helper with a storage parameter has no resolvable callers"
		}
		for _, cs := range callers {
			ci, ok := cs.(ssa.CallInstruction)
			if !ok {
				return "bad", "helper referenced as a value"
			}
			args := ci.Common().Args
			b := lookupArg(args[pi], lookup)
			if b == nil {
				return "bad", "caller " + funcName(cs.Parent()) + " passes a storage that is not lookupStorage(..)"
			}
			for _, j := range bidx {
				if !sameValue(args[j], b) {
					return "bad", "caller " + funcName(cs.Parent()) + " passes lookupStorage(X) together with a different bucket"
				}
			}
		}
		return "ok", fmt.Sprintf("helper: every caller (%d) passes lookupStorage(b) with the same b", len(callers))
	}
	// direct use of Next or of the map's storages
	direct := false
	if n, _ := fieldLoadName(recv); n == "Next" {
		direct = true
	}
	if derivesFromField(recv, "bucketToStorageMap") {
		direct = true
	}
	if direct {
		top := topFunc(fn)
		if directOK[top.Name()] && len(bucketArgs) == 0 {
			return "ok", "bucket-less fan-out in " + top.Name()
		}
		return "bad", "csm.Next / a mapped storage is used directly in a bucket-scoped call: the routing table is bypassed"
	}
	return "bad", "receiver of the storage call is neither lookupStorage(..), a helper parameter, nor an allowed direct use (undecided)"
}

func lookupArgSame(v ssa.Value, lookup *types.Func, bucket ssa.Value) bool {
	b := lookupArg(v, lookup)
	return b != nil && sameValue(b, bucket)
}

func checkC24Copy(w *World, r *Run, rule string, mat map[string]override) {
	for _, m := range []struct{ method, opts string }{{"CopyObject", "CopyObjectOptions"}, {"UploadPartCopy", "UploadPartCopyOptions"}} {
		o := mat[m.method]
		if !o.Own {
			continue
		}
		fd := w.Decl(o.Func)
		info := w.InfoFor(fd)
		optsT := w.Named("internal/storage", m.opts)
		if fd == nil || optsT == nil {
			r.Anchor(rule, m.method+"/"+m.opts)
			continue
		}
		read := map[*types.Var]bool{}
		ast.Inspect(fd.Body, func(n ast.Node) bool {
			if se, ok := n.(*ast.SelectorExpr); ok {
				if f := selField(info, se); f != nil {
					read[f] = true
				}
			}
			return true
		})
		var missing []string
		for _, f := range structFieldsOf(optsT) {
			if !read[f] {
				missing = append(missing, f.Name())
			}
		}
		cons := "(*conditionalStorageMiddleware)." + m.method + " reads every field of " + m.opts
		r.Check(len(missing) == 0, rule, cons, fd.Pos(), fmt.Sprintf("%d fields", len(structFieldsOf(optsT))), "fields of the options never read on the cross-storage path: "+strings.Join(missing, ", "))
	}
	// PutObject in CopyObject
	o := mat["CopyObject"]
	if !o.Own {
		return
	}
	fn := w.Prog.FuncValue(o.Func)
	puts := callsTo(fn, false, func(f *types.Func) bool { return f.Name() == "PutObject" })
	if len(puts) != 1 {
		r.Bad(rule, "(*conditionalStorageMiddleware).CopyObject → dst.PutObject", fn.Pos(), fmt.Sprintf("expected one destination PutObject on the cross-storage path, found %d", len(puts)))
		return
	}
	args := puts[0].Common().Args // ctx, bucket, key, contentType, data, checksum, opts
	r.Check(!isNilConst(args[3]), rule, "(*conditionalStorageMiddleware).CopyObject → dst.PutObject content type", posOf(puts[0]), "content type forwarded", "destination PutObject receives a nil content type")
	optsArg := args[len(args)-1]
	if isNilConst(optsArg) {
		for _, f := range optionContentFields["PutObjectOptions"] {
			r.Bad(rule, "(*conditionalStorageMiddleware).CopyObject → dst.PutObject options."+f, posOf(puts[0]), "destination PutObject receives nil options: "+f+" of the copy is dropped")
		}
		return
	}
	for _, f := range optionContentFields["PutObjectOptions"] {
		assigned := false
		backSlice(optsArg, false, func(x ssa.Value) {
			if a, ok := x.(*ssa.Alloc); ok {
				for _, ref := range *a.Referrers() {
					if fa, ok := ref.(*ssa.FieldAddr); ok && fieldName(fa.X.Type(), fa.Field) == f && len(storesTo(fa)) > 0 {
						assigned = true
					}
				}
			}
		})
		r.Check(assigned, rule, "(*conditionalStorageMiddleware).CopyObject → dst.PutObject options."+f, posOf(puts[0]), "assigned", "PutObjectOptions."+f+" is never assigned for the destination write")
	}
}

func checkC24Dedup(w *World, r *Run, rule string, mat map[string]override) {
	o := mat["ListBuckets"]
	cons := "(*conditionalStorageMiddleware).ListBuckets"
	if !o.Own {
		r.Bad(rule, cons, 0, "ListBuckets not overridden")
		return
	}
	fn := w.Prog.FuncValue(o.Func)
	ok := false
	var okRets, rets int
	for _, ret := range returnsOf(fn) {
		if isFailureReturn(ret) || len(ret.Results) != 2 {
			continue
		}
		if ret.Block() == fn.Recover {
			continue
		}
		rets++
		dedup := false
		backSlice(retResult(ret, 0), false, func(x ssa.Value) {
			if c, isCall := x.(*ssa.Call); isCall {
				if f := calleeObj(c); f != nil && f.Pkg() != nil && f.Pkg().Path() == "slices" && (f.Name() == "Compact" || f.Name() == "CompactFunc") {
					// must come after a sort of the same slice
					for _, sc := range callsTo(fn, false, func(g *types.Func) bool {
						return g.Pkg() != nil && (g.Pkg().Path() == "slices" || g.Pkg().Path() == "sort") && strings.HasPrefix(g.Name(), "Sort")
					}) {
						if instrDominates(sc, c) {
							dedup = true
						}
					}
				}
			}
		})
		if dedup {
			okRets++
		}
	}
	ok = rets > 0 && okRets == rets
	r.Check(ok, rule, cons, fn.Pos(), "sorted then slices.Compact*", "the returned bucket list is concatenated from per-mapping queries without a de-duplication step: a storage mapped under several bucket names (or equal to the default) reports its buckets repeatedly")
	_ = sort.Strings
}
