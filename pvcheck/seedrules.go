package main

import (
	"fmt"
	"go/token"
	"go/types"
	"strings"

	"golang.org/x/tools/go/ssa"
)

// Rules added after independent seeded changes showed a structural necessary condition of a
// property that no earlier rule examined (DESIGN.md §8.6). Each is called from the check of
// the property it belongs to.

// checkC23SecondaryOptionsGuard: when the replication storage builds the options for its
// secondaries only under a condition, every way around that construction must have shown
// that the option it would have carried is absent.
func checkC23SecondaryOptionsGuard(w *World, r *Run) {
	rule := r.Rule("secondary-options-built-whenever-content-options-exist", "F1",
		"in the replication storage, a path that hands the secondaries nil options instead of the copied tags / metadata / storage class has established, for each of these fields, that the caller's value is absent (opts == nil, field == nil or len == 0)", 3)
	n := 0
	for _, fn := range w.allFuncs {
		if fn.Pkg == nil || pkgRel(fn.Pkg.Pkg) != relRepl || fn.Parent() != nil {
			continue
		}
		for _, b := range fn.Blocks {
			for _, ins := range b.Instrs {
				phi, ok := ins.(*ssa.Phi)
				if !ok || !strings.HasSuffix(structNameOf(phi.Type()), "Options") {
					continue
				}
				var lit *ssa.Alloc
				hasNil := false
				for _, e := range phi.Edges {
					if isNilConst(e) {
						hasNil = true
					}
					if a, ok := e.(*ssa.Alloc); ok {
						lit = a
					}
				}
				if !hasNil || lit == nil {
					continue
				}
				// fields copied from the caller's options
				for _, ref := range *lit.Referrers() {
					fa, ok := ref.(*ssa.FieldAddr)
					if !ok {
						continue
					}
					fname := fieldName(fa.X.Type(), fa.Field)
					fromOpts := false
					for _, v := range storesTo(fa) {
						if n2, base := fieldLoadName(v); n2 == fname {
							if p, isP := unspill(base).(*ssa.Parameter); isP && strings.HasSuffix(structNameOf(p.Type()), "Options") {
								fromOpts = true
							}
						}
					}
					if !fromOpts {
						continue
					}
					n++
					L := lit.Block()
					ok2 := everyPathCrosses(phi.Block(), func(d *ssa.BasicBlock, k int) bool {
						if d.Succs[k] == L {
							return true
						}
						for _, f := range edgeFacts(d, k) {
							if f.Kind == IsNil {
								if _, isP := unspill(f.Val).(*ssa.Parameter); isP {
									return true // opts == nil
								}
								if nm, _ := fieldLoadName(f.Val); nm == fname {
									return true
								}
							}
							if factSaysEmpty(f, func(x ssa.Value) bool { nm, _ := fieldLoadName(x); return nm == fname }) {
								return true
							}
						}
						return false
					})
					r.Check(ok2, rule, fmt.Sprintf("%s: secondaries receive %s whenever the caller supplied it", funcName(fn), fname), posOf(phi), "nil options only where "+fname+" is absent", "the secondaries are written with nil options on a path where the caller's "+fname+" may be present: the primary stores it, the replicas silently do not")
				}
			}
		}
	}
	if n == 0 {
		r.Bad(rule, "replication: conditional secondary options", 0, "no conditionally built secondary options found (anchor lost)")
	}
}

// checkC24CrossStorageRedirect: the cross-storage copy of the conditional middleware treats
// the website redirect location like the same-storage copy does.
func checkC24CrossStorageRedirect(w *World, r *Run) {
	rule := r.Rule("cross-storage-copy-never-carries-the-source-redirect", "F1",
		"where the conditional middleware takes the source object's metadata for a cross-storage copy it clears WebsiteRedirectLocation in the same block, before the metadata is handed on", 1)
	n := 0
	for _, fn := range w.allFuncs {
		if fn.Pkg == nil || pkgRel(fn.Pkg.Pkg) != relCond {
			continue
		}
		for _, b := range fn.Blocks {
			for _, ins := range b.Instrs {
				st, ok := ins.(*ssa.Store)
				if !ok {
					continue
				}
				a, ok := st.Addr.(*ssa.Alloc)
				if !ok || structNameOf(a.Type()) != "ObjectMetadata" {
					continue
				}
				// a whole copy of some object's Metadata field
				if nm, base := fieldLoadName(st.Val); nm != "Metadata" || structNameOf(base.Type()) != "Object" {
					continue
				}
				n++
				cleared := false
				for _, i2 := range b.Instrs {
					if v, ok := isFieldStore(i2, "WebsiteRedirectLocation"); ok && isNilConst(stripConv(v)) {
						if fa := i2.(*ssa.Store).Addr.(*ssa.FieldAddr); fa.X == ssa.Value(a) {
							cleared = true
						}
					}
				}
				r.Check(cleared, rule, fmt.Sprintf("%s: source metadata copy #%d clears the redirect location", funcName(topFunc(fn)), n), posOf(st), "metadata.WebsiteRedirectLocation = nil right after the copy", "a copy across storages carries x-amz-website-redirect-location of the source to the destination, which a copy within one storage never does")
			}
		}
	}
	if n == 0 {
		r.Bad(rule, "conditional: cross-storage metadata copy", 0, "no copy of the source object's metadata found (anchor lost)")
	}
}

// checkC25VersionPaging: every paging loop over ListObjectVersions carries both markers.
func checkC25VersionPaging(w *World, r *Run) {
	rule := r.Rule("version-listing-loops-carry-both-markers", "F3",
		"every ListObjectVersionsOptions that continues from a previous page's NextKeyMarker also continues from its NextVersionIDMarker (all paging loops of the tree)", 3)
	n := 0
	for _, fn := range w.allFuncs {
		if fn.Pkg == nil || !strings.HasPrefix(pkgRel(fn.Pkg.Pkg), "internal/") {
			continue
		}
		lits := map[ssa.Value]map[string]ssa.Value{}
		var order []ssa.Value
		for _, b := range fn.Blocks {
			for _, ins := range b.Instrs {
				st, ok := ins.(*ssa.Store)
				if !ok {
					continue
				}
				fa, ok := st.Addr.(*ssa.FieldAddr)
				if !ok || structNameOf(fa.X.Type()) != "ListObjectVersionsOptions" {
					continue
				}
				if lits[fa.X] == nil {
					lits[fa.X] = map[string]ssa.Value{}
					order = append(order, fa.X)
				}
				lits[fa.X][fieldName(fa.X.Type(), fa.Field)] = st.Val
			}
		}
		for _, l := range order {
			km, hasK := lits[l]["KeyMarker"]
			if !hasK || !derivesFromFieldOf(km, "NextKeyMarker", nil) {
				continue
			}
			n++
			vm, hasV := lits[l]["VersionIDMarker"]
			ok := hasV && derivesFromFieldOf(vm, "NextVersionIDMarker", nil)
			pos := token.NoPos
			if ins, isIns := l.(ssa.Instruction); isIns {
				pos = posOf(ins)
			}
			r.Check(ok, rule, fmt.Sprintf("%s: version paging loop #%d", funcName(topFunc(fn)), n), pos, "KeyMarker ← NextKeyMarker and VersionIDMarker ← NextVersionIDMarker", "the loop resumes from the key marker alone: when a page ends inside a key, the remaining (older) versions of that key are never seen — e.g. a current delete marker then looks like the only version left and is expired")
		}
	}
	if n == 0 {
		r.Bad(rule, "version paging loops", 0, "no paging loop over ListObjectVersions found (anchor lost)")
	}
}

// checkC27ChainLink: the verifier links every entry but the first to its predecessor.
func checkC27ChainLink(w *World, r *Run) {
	rule := r.Rule("every-entry-is-chained-to-its-predecessor", "F1",
		"every path through Validator.ValidateEntry that reports success has compared entry.PreviousHash with the verifier's running hash, except at index 0 where it is compared with the fixed genesis anchor", 1)
	fn := w.SSAFunc(relAuditlog, "Validator.ValidateEntry")
	if fn == nil {
		r.Anchor(rule, "auditlog.Validator.ValidateEntry")
		return
	}
	isPrevCmp := func(f Fact) bool {
		c, ok := f.Val.(*ssa.Call)
		if !ok || f.Kind != IsTrue || !isCallNamed(c, "Equal") || len(c.Call.Args) != 2 {
			return false
		}
		a, _ := fieldLoadName(c.Call.Args[0])
		b, _ := fieldLoadName(c.Call.Args[1])
		return (a == "PreviousHash" && b == "PrevHash") || (a == "PrevHash" && b == "PreviousHash")
	}
	isIndexZero := func(f Fact) bool {
		if f.Kind != EqConst || f.Const == nil {
			return false
		}
		k, isc := intConst(f.Const)
		nm, _ := fieldLoadName(f.Val)
		return isc && k == 0 && nm == "Index"
	}
	good, n := true, 0
	for _, ret := range returnsOf(fn) {
		if isFailureReturn(ret) || ret.Block() == fn.Recover {
			continue
		}
		n++
		if !everyPathCrosses(ret.Block(), func(d *ssa.BasicBlock, k int) bool {
			for _, f := range edgeFacts(d, k) {
				if isPrevCmp(f) || isIndexZero(f) {
					return true
				}
			}
			return false
		}) {
			good = false
		}
	}
	// and at index 0 the anchor is compared
	anchor := false
	for _, b := range fn.Blocks {
		for _, f := range factsAt(b) {
			if isIndexZero(f) {
				for _, ins := range b.Instrs {
					if c, ok := ins.(*ssa.Call); ok && isCallNamed(c, "Equal") {
						if a, _ := fieldLoadName(c.Call.Args[0]); a == "PreviousHash" {
							anchor = true
						}
					}
				}
			}
		}
	}
	r.Check(good && anchor && n > 0, rule, "ValidateEntry links each entry to its predecessor", fn.Pos(), "PreviousHash == running hash on every success path past index 0; genesis anchor only at index 0", "an entry can verify without its PreviousHash having been compared with the hash of the entry before it (e.g. whenever it is of GENESIS type): a signed prefix of the log can be re-inserted later in the log without detection")
	_ = types.Typ
}
