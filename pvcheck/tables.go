package main

import (
	"go/types"
	"sort"
)

// Frozen classification of the storage.Storage interface (39 methods on the pinned tree).
// The checker verifies that this table is exactly the interface's method set as
// type-checked today; a new or removed method fails every rule that quantifies over the
// interface until the table is extended. That is the point.
type methodClass string

const (
	mObject    methodClass = "mutates_object"        // changes the content/metadata/tags/class of an object key
	mUpload    methodClass = "mutates_upload"        // changes multipart staging state only
	mBucket    methodClass = "mutates_bucket_config" // creates/deletes buckets or changes bucket configuration
	mRead      methodClass = "reads"
	mLifecycle methodClass = "lifecycle"
)

var storageMethods = map[string]methodClass{
	"PutObject":                    mObject,
	"CopyObject":                   mObject,
	"AppendObject":                 mObject,
	"DeleteObject":                 mObject,
	"DeleteObjects":                mObject,
	"TransitionObjectStorageClass": mObject,
	"CompleteMultipartUpload":      mObject,
	"PutObjectTagging":             mObject,
	"DeleteObjectTagging":          mObject,

	"CreateMultipartUpload": mUpload,
	"UploadPart":            mUpload,
	"UploadPartCopy":        mUpload,
	"AbortMultipartUpload":  mUpload,

	"CreateBucket":                       mBucket,
	"DeleteBucket":                       mBucket,
	"PutBucketVersioningConfiguration":   mBucket,
	"PutBucketWebsiteConfiguration":      mBucket,
	"DeleteBucketWebsiteConfiguration":   mBucket,
	"PutBucketCORSConfiguration":         mBucket,
	"DeleteBucketCORSConfiguration":      mBucket,
	"PutBucketLifecycleConfiguration":    mBucket,
	"DeleteBucketLifecycleConfiguration": mBucket,
	"PutBucketNotificationConfiguration": mBucket,

	"ListBuckets":                        mRead,
	"HeadBucket":                         mRead,
	"GetBucketVersioningConfiguration":   mRead,
	"GetBucketWebsiteConfiguration":      mRead,
	"GetBucketCORSConfiguration":         mRead,
	"GetBucketLifecycleConfiguration":    mRead,
	"GetBucketNotificationConfiguration": mRead,
	"GetObjectTagging":                   mRead,
	"ListObjects":                        mRead,
	"ListObjectVersions":                 mRead,
	"HeadObject":                         mRead,
	"GetObject":                          mRead,
	"ListMultipartUploads":               mRead,
	"ListParts":                          mRead,

	"Start": mLifecycle,
	"Stop":  mLifecycle,
}

func (c methodClass) mutating() bool { return c == mObject || c == mUpload || c == mBucket }

func methodsOfClass(classes ...methodClass) []string {
	var out []string
	for m, c := range storageMethods {
		for _, want := range classes {
			if c == want {
				out = append(out, m)
			}
		}
	}
	sort.Strings(out)
	return out
}

// checkStorageTable verifies table == interface method set. Returns the interface.
func checkStorageTable(w *World, r *Run) *types.Interface {
	rule := r.Rule("storage-method-table", "F2", "the frozen classification table of storage.Storage is exactly the interface's method set as type-checked today", 39)
	iface := w.Iface("internal/storage", "Storage")
	if iface == nil {
		r.Anchor(rule, "internal/storage.Storage")
		return nil
	}
	tn := w.Named("internal/storage", "Storage").Obj()
	have := map[string]bool{}
	for _, m := range methodsOf(iface) {
		have[m] = true
		if c, ok := storageMethods[m]; ok {
			r.OK(rule, "storage.Storage."+m, iface.Method(0).Pos(), string(c))
		} else {
			r.Bad(rule, "storage.Storage."+m, tn.Pos(), "method is not classified in the frozen table (new interface method): every per-method rule must be re-confirmed")
		}
	}
	for m := range storageMethods {
		if !have[m] {
			r.Bad(rule, "storage.Storage."+m, tn.Pos(), "classified method no longer exists in the interface")
		}
	}
	return iface
}

// ---- override matrix (F2) --------------------------------------------------------------

type override struct {
	Own  bool
	Func *types.Func
	Via  string // embedded type through which an inherited method is promoted
}

// overrideMatrix classifies every method of iface as implemented by T itself (own) or
// promoted from an embedded field (inherited).
func overrideMatrix(T *types.Named, iface *types.Interface) map[string]override {
	out := map[string]override{}
	ms := types.NewMethodSet(types.NewPointer(T))
	for i := 0; i < iface.NumMethods(); i++ {
		name := iface.Method(i).Name()
		sel := ms.Lookup(iface.Method(i).Pkg(), name)
		if sel == nil {
			continue
		}
		f := sel.Obj().(*types.Func)
		o := override{Own: len(sel.Index()) == 1, Func: f}
		if !o.Own {
			if n := recvNamed(f); n != nil {
				o.Via = n.Obj().Name()
			}
		}
		out[name] = o
	}
	return out
}
