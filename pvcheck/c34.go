package main

import (
	"go/types"
	"strings"

	"golang.org/x/tools/go/ssa"
)

// C34 — CORS response headers only by a matching rule.
func init() { register("C34", checkC34) }

func isHTTPHeaderWrite(c ssa.CallInstruction) (key string, ok bool) {
	f := calleeObj(c)
	if f == nil || f.Pkg() == nil || f.Pkg().Path() != "net/http" {
		return "", false
	}
	if n := recvNamed(f); n == nil || n.Obj().Name() != "Header" {
		return "", false
	}
	if f.Name() != "Set" && f.Name() != "Add" {
		return "", false
	}
	if len(c.Common().Args) < 2 {
		return "", false
	}
	s, isStr := constString(c.Common().Args[1])
	if !isStr {
		return "<non-constant>", true
	}
	return s, true
}

func isCORSResponseHeader(k string) bool {
	l := strings.ToLower(k)
	return strings.HasPrefix(l, "access-control-") && !strings.HasPrefix(l, "access-control-request-")
}

func checkC34(w *World, r *Run) {
	ruleDom := r.Rule("cors-header-write-under-matching-rule", "F1",
		"every write of an Access-Control-Allow-*/Expose-Headers/Max-Age response header is dominated by findMatchingRule(..) ok == true", 5)
	ruleWho := r.Rule("cors-headers-single-writer", "F6",
		"Access-Control-* response headers are written nowhere in pithos except inside the CORS middleware closure", 5)
	ruleNext := r.Rule("cors-preflight-never-forwarded-unmatched", "F1",
		"every next.ServeHTTP in the CORS middleware is dominated by origin == \"\" or isPreflightRequest(r) == false (an unmatched preflight ends with 403 and is not forwarded); WriteHeader(200) only under ok == true", 5)
	ruleMatch := r.Rule("findmatchingrule-requires-all-predicates", "F1",
		"findMatchingRule returns ok == true only after matchOrigin(rule.AllowedOrigins, origin), matchMethod(rule.AllowedMethods, method) and — on every path where preflight may be true — matchRequestedHeaders(rule.AllowedHeaders, requestedHeaders) succeeded", 1)
	ruleArgs := r.Rule("cors-match-inputs-from-request", "F9",
		"the origin, method and requested headers handed to findMatchingRule derive from the request's Origin header, r.Method / Access-Control-Request-Method and Access-Control-Request-Headers; Access-Control-Allow-Origin echoes that origin or \"*\" only when the matched pattern is \"*\"", 2)

	mk := w.SSAFunc(relHTTPMw, "MakeCORSMiddlewareWithResolver")
	find := w.Func(relHTTPMw, "findMatchingRule")
	isPre := w.Func(relHTTPMw, "isPreflightRequest")
	if mk == nil || find == nil || isPre == nil || len(mk.AnonFuncs) != 1 {
		r.Anchor(ruleDom, "middleware.MakeCORSMiddlewareWithResolver closure / findMatchingRule / isPreflightRequest")
		return
	}
	cl := mk.AnonFuncs[0]
	matchedOK := func(b *ssa.BasicBlock) *ssa.Call {
		for _, f := range factsAt(b) {
			if f.Kind == IsTrue {
				if c, idx := callOf(f.Val); c != nil && idx == 2 && calleeObj(c) == find {
					return c
				}
			}
		}
		return nil
	}
	// 1 + 2: header writes everywhere
	for _, fn := range w.allFuncs {
		allInstrs(fn, false, func(_ *ssa.Function, ins ssa.Instruction) {
			c, ok := ins.(ssa.CallInstruction)
			if !ok {
				return
			}
			k, isWrite := isHTTPHeaderWrite(c)
			if !isWrite || !isCORSResponseHeader(k) {
				return
			}
			cons := shortLua(fn) + " sets " + k
			if fn != cl {
				r.Bad(ruleWho, cons, posOf(c), "CORS response header written outside the CORS middleware: it is not subject to rule matching")
				return
			}
			r.OK(ruleWho, cons, posOf(c), "inside the CORS middleware")
			r.Check(matchedOK(c.Block()) != nil, ruleDom, cons, posOf(c), "dominated by findMatchingRule ok == true", "header is written on a path where no CORS rule matched the request")
		})
	}
	// 3: forwarding
	for _, c := range callsTo(cl, false, func(f *types.Func) bool { return f.Name() == "ServeHTTP" }) {
		good := false
		for _, f := range factsAt(c.Block()) {
			if f.Kind == EqConst && f.Const != nil {
				if s, isStr := constString(f.Const); isStr && s == "" {
					good = true // origin == ""
				}
			}
			if f.Kind == IsFalse {
				if cc, _ := callOf(f.Val); cc != nil && calleeObj(cc) == isPre {
					good = true
				}
			}
		}
		r.Check(good, ruleNext, "CORS middleware: next.ServeHTTP at "+relPosLine(w, c), posOf(c), "non-CORS or non-preflight request", "a preflight request can be forwarded to the wrapped handler")
	}
	for _, c := range callsTo(cl, false, func(f *types.Func) bool { return f.Name() == "WriteHeader" }) {
		code, isInt := intConst(c.Common().Args[len(c.Common().Args)-1])
		if !isInt || code != 200 {
			continue
		}
		r.Check(matchedOK(c.Block()) != nil, ruleNext, "CORS middleware: WriteHeader(200)", posOf(c), "preflight success only under a matching rule", "a preflight is answered 200 without a matching rule")
	}
	// 4: findMatchingRule
	ffn := w.Prog.FuncValue(find)
	var trueRets []*ssa.Return
	for _, ret := range returnsOf(ffn) {
		if b, isConst := boolConst(retResult(ret, 2)); !isConst || b {
			trueRets = append(trueRets, ret)
		}
	}
	okMatch := len(trueRets) == 1
	why := ""
	if okMatch {
		ret := trueRets[0]
		originOK, methodOK := false, false
		for _, f := range factsAt(ret.Block()) {
			if f.Kind != IsTrue {
				continue
			}
			c, idx := callOf(f.Val)
			if c == nil {
				continue
			}
			g := calleeObj(c)
			if isFunc(g, relHTTPMw, "matchOrigin") && idx == 1 && c.Call.Args[1] == ffn.Params[1] {
				if n, _ := fieldLoadName(c.Call.Args[0]); n == "AllowedOrigins" {
					originOK = true
				}
			}
			if isFunc(g, relHTTPMw, "matchMethod") && c.Call.Args[1] == ffn.Params[2] {
				if n, _ := fieldLoadName(c.Call.Args[0]); n == "AllowedMethods" {
					methodOK = true
				}
			}
		}
		hdrOK := everyPathEstablishes(ret.Block(), func(f Fact) bool {
			if f.Kind == IsFalse && f.Val == ffn.Params[4] {
				return true
			}
			if f.Kind == IsTrue {
				if c, _ := callOf(f.Val); c != nil && isFunc(calleeObj(c), relHTTPMw, "matchRequestedHeaders") && c.Call.Args[1] == ffn.Params[3] {
					if n, _ := fieldLoadName(c.Call.Args[0]); n == "AllowedHeaders" {
						return true
					}
				}
			}
			return false
		})
		if !originOK {
			why += "origin predicate missing; "
		}
		if !methodOK {
			why += "method predicate missing; "
		}
		if !hdrOK {
			why += "requested-headers predicate can be skipped for a preflight; "
		}
		okMatch = originOK && methodOK && hdrOK
	} else {
		why = "expected exactly one 'return rule, pattern, true'"
	}
	r.Check(okMatch, ruleMatch, "findMatchingRule success return", find.Pos(), "origin ∧ method ∧ (¬preflight ∨ headers)", why)

	// 5: inputs
	calls := callsTo(cl, false, func(f *types.Func) bool { return f == find })
	if len(calls) != 1 {
		r.Bad(ruleArgs, "CORS middleware → findMatchingRule", cl.Pos(), "expected exactly one call")
	} else {
		a := calls[0].Common().Args // rules, origin, method, requestedHeaders, preflight
		hdrConst := func(v ssa.Value, want string) bool {
			found := false
			backSlice(v, true, func(x ssa.Value) {
				if s, ok := constString(x); ok && s == want {
					found = true
				}
			})
			return found
		}
		methodFromReq := hdrConst(a[2], "Access-Control-Request-Method")
		direct := false
		backSlice(a[2], true, func(x ssa.Value) {
			if n, _ := fieldLoadName(x); n == "Method" {
				direct = true
			}
		})
		good := hdrConst(a[1], "Origin") && methodFromReq && direct && hdrConst(a[3], "Access-Control-Request-Headers")
		r.Check(good, ruleArgs, "CORS middleware → findMatchingRule inputs", posOf(calls[0]), "Origin, r.Method|ACRM, ACRH", "an input of rule matching does not derive from the corresponding request header")
		// Allow-Origin value
		aoOK := false
		for _, c := range callsTo(cl, false, func(f *types.Func) bool { return f.Name() == "Set" }) {
			if k, ok := isHTTPHeaderWrite(c); ok && strings.EqualFold(k, "Access-Control-Allow-Origin") {
				v := c.Common().Args[2]
				vals := map[string]bool{}
				okShape := true
				var leaves func(x ssa.Value, depth int)
				leaves = func(x ssa.Value, depth int) {
					if depth > 5 {
						okShape = false
						return
					}
					switch y := x.(type) {
					case *ssa.Phi:
						for _, e := range y.Edges {
							leaves(e, depth+1)
						}
					case *ssa.UnOp:
						sts := storesTo(y.X)
						if len(sts) == 0 {
							okShape = false
						}
						for _, s := range sts {
							leaves(s, depth+1)
						}
					case *ssa.Const:
						s, _ := constString(y)
						vals["const:"+s] = true
					default:
						if sameValue(y, a[1]) {
							vals["origin"] = true
						} else {
							okShape = false
						}
					}
				}
				leaves(v, 0)
				aoOK = okShape && vals["origin"] && len(vals) <= 2 && (len(vals) == 1 || vals["const:*"])
			}
		}
		r.Check(aoOK, ruleArgs, "CORS middleware: Access-Control-Allow-Origin value", cl.Pos(), "the request origin, or \"*\"", "Access-Control-Allow-Origin is set to something other than the matched request origin or \"*\"")
	}
	checkC34PerHeaderFlag(w, r)
	checkCorsCacheInvalidatesAlways(w, r)
	checkC34WildcardOverlap(w, r)
	r.NotCovered("wildcardMatch semantics over all patterns/origins (runtime strings); rule normalisation; Vary handling")
}

func relPosLine(w *World, c ssa.CallInstruction) string {
	p := w.Pos(posOf(c))
	if i := strings.LastIndex(p, "/"); i >= 0 {
		p = p[i+1:]
	}
	// keep only the ordinal within the function to stay line-independent
	n := 0
	for _, b := range c.Parent().Blocks {
		for _, ins := range b.Instrs {
			if cc, ok := ins.(ssa.CallInstruction); ok && cc.Common().IsInvoke() && cc.Common().Method.Name() == "ServeHTTP" {
				n++
				if ins == c.(ssa.Instruction) {
					return "#" + string(rune('0'+n))
				}
			}
		}
	}
	return p
}
