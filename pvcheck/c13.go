package main

import (
	"fmt"
	"go/types"
	"sort"
	"strings"

	"golang.org/x/tools/go/ssa"
)

// C13 — an existing version never changes.  (Shares helpers with C02.)
func init() { register("C13", checkC13) }

const relSQLStore = "internal/storage/metadatapart/metadatastore/sql"

// rows that later writes may legitimately rewrite in place
var c13AllowedRowSources = map[string]string{
	"FindNullObjectVersionByBucketNameAndKey": "the null version: the only version later unversioned/suspended writes may replace",
	"FindObjectByBucketNameAndKeyAndUploadId": "a pending multipart upload row: not a version yet, becomes one when completed",
}

type entityOrigin struct {
	kind    string   // insert | replace | copy | row
	sources []string // Find* methods the row derives from
}

func (o entityOrigin) String() string {
	switch o.kind {
	case "insert":
		return "fresh row (insert)"
	case "replace":
		return "fresh literal with Id of row from " + strings.Join(o.sources, "|")
	case "copy":
		return "copy of row from " + strings.Join(o.sources, "|")
	default:
		return "row from " + strings.Join(o.sources, "|")
	}
}

func findSourcesOf(v ssa.Value) []string {
	m := map[string]bool{}
	findSourcesInto(v, m, 0)
	return keys(m)
}

func findSourcesInto(v ssa.Value, m map[string]bool, depth int) {
	backSlice(v, false, func(x ssa.Value) {
		c, ok := x.(*ssa.Call)
		if !ok {
			return
		}
		if c.Call.IsInvoke() && strings.HasPrefix(c.Call.Method.Name(), "Find") {
			if n, _ := fieldLoadName(c.Call.Value); n == "objectRepository" {
				m[c.Call.Method.Name()] = true
			}
			return
		}
		// helper of the same package returning a row (e.g. findObjectForTagging)
		if sc := c.Call.StaticCallee(); sc != nil && depth < 2 && sc.Pkg != nil && pkgRel(sc.Pkg.Pkg) == relSQLStore {
			for _, ret := range returnsOf(sc) {
				for i := range ret.Results {
					findSourcesInto(retResult(ret, i), m, depth+1)
				}
			}
		}
	})
}

// originOfEntity classifies the *object.Entity argument of a repository write.
func originOfEntity(v ssa.Value) entityOrigin {
	v = stripConv(v)
	if a, ok := v.(*ssa.Alloc); ok {
		var whole []ssa.Value
		var idVals []ssa.Value
		for _, ref := range *a.Referrers() {
			switch x := ref.(type) {
			case *ssa.Store:
				if x.Addr == a {
					whole = append(whole, x.Val)
				}
			case *ssa.FieldAddr:
				if fieldName(x.X.Type(), x.Field) == "Id" {
					idVals = append(idVals, storesTo(x)...)
				}
			}
		}
		src := map[string]bool{}
		kind := "insert"
		for _, wv := range whole {
			if ld, isLoad := wv.(*ssa.UnOp); isLoad {
				if b, isAlloc := ld.X.(*ssa.Alloc); isAlloc && b != a {
					o2 := originOfEntity(b)
					if o2.kind != "insert" {
						kind = o2.kind
						for _, s := range o2.sources {
							src[s] = true
						}
					}
					continue
				}
			}
			ss := findSourcesOf(wv)
			if len(ss) > 0 {
				kind = "copy"
				for _, s := range ss {
					src[s] = true
				}
			}
		}
		if kind == "insert" || kind == "replace" {
			for _, iv := range idVals {
				for _, s := range findSourcesOf(iv) {
					kind = "replace"
					src[s] = true
				}
			}
		}
		return entityOrigin{kind, keys(src)}
	}
	return entityOrigin{"row", findSourcesOf(v)}
}

func objectRepoWrites(w *World) []ssa.CallInstruction {
	var out []ssa.CallInstruction
	sp := w.SSA[w.Pkg(relSQLStore).Types]
	for _, fn := range w.allFuncs {
		if fn.Pkg != sp {
			continue
		}
		allInstrs(fn, false, func(_ *ssa.Function, ins ssa.Instruction) {
			c, ok := ins.(ssa.CallInstruction)
			if !ok || !c.Common().IsInvoke() {
				return
			}
			if n, _ := fieldLoadName(c.Common().Value); n != "objectRepository" {
				return
			}
			switch c.Common().Method.Name() {
			case "SaveObject", "UpdateObjectByIdAndOptimisticLockVersion":
				out = append(out, c)
			}
		})
	}
	return out
}

func checkC13(w *World, r *Run) {
	stmts := collectSQL(w)
	checkSQLSiblings(w, r, stmts, map[string]bool{"object": true}, 21)
	ruleLM := r.Rule("last-modified-is-updated-at", "F3",
		"the API field LastModified of objects and versions is populated from the row's updated_at column (so every row UPDATE that assigns updated_at moves Last-Modified)", 3)
	ruleUpd := r.Rule("update-statements-assign-updated-at", "F4",
		"the UPDATE statements behind SaveObject / UpdateObjectByIdAndOptimisticLockVersion assign updated_at from a parameter, and the repository passes time.Now()", 4)
	ruleRow := r.Rule("existing-version-row-not-updated", "F1",
		"every objectRepository.SaveObject / UpdateObjectByIdAndOptimisticLockVersion in the SQL metadata store writes a fresh row, the null version's row or a pending-upload row; an update of any other loaded row changes Last-Modified (and possibly content) of a version whose id was already returned", 19)
	ruleIns := r.Rule("enabled-writes-insert-new-version", "F1",
		"in the versioning-Enabled branch of PutObject and CompleteMultipartUpload the saved entity carries a VersionID from NewRandomUploadId and, for PutObject, never an Id of an existing row (insert)", 2)

	// 1. LastModified mapping
	sp := w.SSA[w.Pkg(relSQLStore).Types]
	nLM := 0
	lmFrom := map[string][]string{}
	for _, fn := range w.allFuncs {
		if fn.Pkg != sp {
			continue
		}
		allInstrs(fn, false, func(_ *ssa.Function, ins ssa.Instruction) {
			st, ok := ins.(*ssa.Store)
			if !ok {
				return
			}
			fa, ok := st.Addr.(*ssa.FieldAddr)
			if !ok || fieldName(fa.X.Type(), fa.Field) != "LastModified" {
				return
			}
			from := ""
			backSlice(st.Val, false, func(x ssa.Value) {
				if f2, ok := x.(*ssa.FieldAddr); ok {
					if n := fieldName(f2.X.Type(), f2.Field); n == "UpdatedAt" || n == "CreatedAt" {
						from = n
					}
				}
				if f2, ok := x.(*ssa.Field); ok {
					if n := fieldName(f2.X.Type(), f2.Field); n == "UpdatedAt" || n == "CreatedAt" {
						from = n
					}
				}
			})
			if from == "" {
				return
			}
			nLM++
			lmFrom[from] = append(lmFrom[from], w.Pos(posOf(st)))
			r.OK(ruleLM, fmt.Sprintf("%s LastModified ← %s #%d", shortSQLFunc(fn), from, nLM), posOf(st), "mapping site")
		})
	}
	// every read path must report the same column: a version whose HEAD and listing disagree
	// on Last-Modified has no stable value at all
	if len(lmFrom) > 1 {
		minor, where := "", ""
		for k, v := range lmFrom {
			if minor == "" || len(v) < len(lmFrom[minor]) {
				minor, where = k, v[0]
			}
		}
		r.Bad(ruleLM, "LastModified is read from one column on every path", 0, "most read paths map LastModified from one column but "+where+" maps it from "+minor+": the same version reports different Last-Modified values depending on the request")
	} else {
		r.OK(ruleLM, "LastModified is read from one column on every path", 0, "all mapping sites agree")
	}
	// 2. update statements
	for _, s := range stmts {
		if s.Entity != "object" || (s.Name != "updateObjectByIdStmt" && s.Name != "updateObjectByIdAndOptimisticLockVersionStmt") {
			continue
		}
		set := sqlClause(s.Toks, "SET")
		has := false
		for _, a := range splitTop(set, ",") {
			if len(a) == 3 && a[0] == "updated_at" && a[1] == "=" && strings.HasPrefix(a[2], "$") {
				has = true
			}
		}
		r.Check(has, ruleUpd, s.Dialect+" object."+s.Name, s.Pos, "SET … updated_at = $n", "statement no longer assigns updated_at from a parameter (rule premise changed; re-confirm)")
	}

	// 3. row updates
	sites := objectRepoWrites(w)
	perFn := map[string]int{}
	for _, c := range sites {
		fn := c.Parent()
		o := originOfEntity(c.Common().Args[2])
		key := shortSQLFunc(fn) + " → " + c.Common().Method.Name() + "(" + o.String() + ")"
		perFn[key]++
		cons := fmt.Sprintf("%s #%d", key, perFn[key])
		switch {
		case o.kind == "insert":
			r.OK(ruleRow, cons, posOf(c), "new row")
		case len(o.sources) == 0:
			r.Unk(ruleRow, cons, posOf(c), "cannot determine where the updated row comes from (undecided)")
		default:
			bad := []string{}
			for _, s := range o.sources {
				if _, ok := c13AllowedRowSources[s]; !ok {
					bad = append(bad, s)
				}
			}
			if len(bad) == 0 {
				r.OK(ruleRow, cons, posOf(c), c13AllowedRowSources[o.sources[0]])
				continue
			}
			if nullVersionGuarded(c) {
				r.OK(ruleRow, cons, posOf(c), "every path to the update established that the loaded row's VersionID is nil or \"null\": only the null version is rewritten")
				continue
			}
			if why, ok := c13RowExempt(c, o); ok {
				r.Exempt(ruleRow, cons, posOf(c), why)
				continue
			}
			r.Bad(ruleRow, cons, posOf(c), "UPDATE of a row that may be an already-returned version (loaded via "+strings.Join(bad, ", ")+"): its updated_at → Last-Modified changes"+map[bool]string{true: " and its content columns are rewritten", false: ""}[o.kind == "replace"])
		}
	}

	// 4. enabled-branch inserts
	for _, name := range []string{"PutObject", "CompleteMultipartUpload"} {
		fn := w.SSAFunc(relSQLStore, "sqlMetadataStore."+name)
		if fn == nil {
			r.Anchor(ruleIns, "sqlMetadataStore."+name)
			continue
		}
		ok, why := enabledBranchInserts(fn, name == "PutObject")
		r.Check(ok, ruleIns, "(*sqlMetadataStore)."+name+" Enabled branch", fn.Pos(), "VersionID := NewRandomUploadId(); insert", why)
	}
	checkC13ReplacedRowIsTheNullVersion(w, r)
	r.NotCovered("content/size/ETag immutability below the metadata store (part rows are keyed by object row id; covered only through the row-update rule); versioning-state changes")
	_ = types.Universe
	_ = sort.Strings
}

// nullVersionGuarded: every path from the function entry to the call crosses an edge that
// establishes row.VersionID == nil or *row.VersionID == "null" for a row loaded through the
// object repository.
func nullVersionGuarded(c ssa.CallInstruction) bool {
	isVersionIDLoad := func(v ssa.Value) bool {
		n, base := fieldLoadName(v)
		return n == "VersionID" && base != nil && len(findSourcesOf(base)) > 0
	}
	return everyPathEstablishes(c.Block(), func(f Fact) bool {
		switch f.Kind {
		case IsNil:
			if isVersionIDLoad(f.Val) {
				return true
			}
			// the row itself is nil on this path: nothing can be updated on it (the update
			// dereferences the row), so the path is vacuous for this rule
			if nt := recvOfPtr(f.Val.Type()); nt != nil && nt.Obj().Name() == "Entity" && len(findSourcesOf(f.Val)) > 0 {
				return true
			}
			return false
		case EqConst:
			if f.Const == nil {
				return false
			}
			if s, ok := constString(f.Const); !ok || s != "null" {
				return false
			}
			if ld, ok := f.Val.(*ssa.UnOp); ok {
				return isVersionIDLoad(ld.X)
			}
		}
		return false
	})
}

// c13RowExempt: the CAS lock of an unversioned delete updates the row only to delete it in
// the same transaction.
func c13RowExempt(c ssa.CallInstruction, o entityOrigin) (string, bool) {
	fn := c.Parent()
	if fn.Name() != "DeleteObject" || c.Common().Method.Name() != "UpdateObjectByIdAndOptimisticLockVersion" {
		return "", false
	}
	notEnabled, notSuspended := false, false
	for _, f := range factsAt(c.Block()) {
		if f.Kind == NeConst && f.Const != nil {
			if s, ok := constString(f.Const); ok {
				if s == "Enabled" {
					notEnabled = true
				}
				if s == "Suspended" {
					notSuspended = true
				}
			}
		}
	}
	if !notEnabled || !notSuspended {
		return "", false
	}
	// every success path afterwards deletes the row
	rets := returnsReachableAvoiding(c, func(ins ssa.Instruction) bool {
		cc, ok := ins.(ssa.CallInstruction)
		return ok && cc.Common().IsInvoke() && cc.Common().Method.Name() == "DeleteObjectByIdAndOptimisticLockVersion"
	})
	for _, ret := range rets {
		if !isFailureReturn(ret) {
			return "", false
		}
	}
	return "unversioned bucket only (versioningStatus ∉ {Enabled, Suspended} on this path) and the locked row is deleted by DeleteObjectByIdAndOptimisticLockVersion on every successful path: no version survives to show the changed Last-Modified", true
}

// enabledBranchInserts checks the versioningEnabled == true branch.
func enabledBranchInserts(fn *ssa.Function, requireNoId bool) (bool, string) {
	// find stores to <entity>.VersionID whose value derives from NewRandomUploadId
	var good []*ssa.Store
	allInstrs(fn, false, func(_ *ssa.Function, ins ssa.Instruction) {
		st, ok := ins.(*ssa.Store)
		if !ok {
			return
		}
		fa, ok := st.Addr.(*ssa.FieldAddr)
		if !ok || fieldName(fa.X.Type(), fa.Field) != "VersionID" {
			return
		}
		fresh := false
		backSlice(st.Val, true, func(x ssa.Value) {
			if c, ok := x.(*ssa.Call); ok {
				if f := calleeObj(c); f != nil && f.Name() == "NewRandomUploadId" {
					fresh = true
				}
			}
		})
		if !fresh {
			return
		}
		// must be on the Enabled edge
		for _, f := range factsAt(st.Block()) {
			if f.Kind == IsTrue {
				en := false
				backSlice(f.Val, false, func(x ssa.Value) {
					if s, ok := constString(x); ok && s == "Enabled" {
						en = true
					}
				})
				if en {
					good = append(good, st)
				}
			}
		}
	})
	if len(good) != 1 {
		return false, fmt.Sprintf("expected exactly one store of a fresh NewRandomUploadId() to VersionID on the Enabled edge, found %d", len(good))
	}
	st := good[0]
	ent := st.Addr.(*ssa.FieldAddr).X
	if !requireNoId {
		return true, ""
	}
	// no store to ent.Id may precede a SaveObject(ent) that the version store reaches
	var saves []ssa.CallInstruction
	allInstrs(fn, false, func(_ *ssa.Function, ins ssa.Instruction) {
		c, ok := ins.(ssa.CallInstruction)
		if ok && c.Common().IsInvoke() && c.Common().Method.Name() == "SaveObject" && sameValue(c.Common().Args[2], ent) && canReach(st, ins) {
			saves = append(saves, c)
		}
	})
	if len(saves) == 0 {
		return false, "no SaveObject of the new version entity after the VersionID assignment"
	}
	bad := false
	allInstrs(fn, false, func(_ *ssa.Function, ins ssa.Instruction) {
		s2, ok := ins.(*ssa.Store)
		if !ok {
			return
		}
		fa, ok := s2.Addr.(*ssa.FieldAddr)
		if !ok || fa.X != ent || fieldName(fa.X.Type(), fa.Field) != "Id" {
			return
		}
		for _, sv := range saves {
			if canReach(ins, sv) {
				bad = true
			}
		}
	})
	if bad {
		return false, "the entity saved on the Enabled branch can carry the Id of an existing row: an existing version would be overwritten instead of a new one inserted"
	}
	return true, ""
}
