package main

import (
	"fmt"
	"go/ast"
	"go/constant"
	"go/types"
	"sort"
	"strings"

	"golang.org/x/tools/go/ssa"
)

// C31 — no request takes effect without the authorizer.
func init() { register("C31", checkC31) }

const relServer = "internal/http/server"
const relAuthz = "internal/http/server/authorization"

// authzOps: for each storage method, the authorizer operation names that cover a call of it.
// HeadObject may also run under GetObject* (reading metadata is a subset of reading the
// object; the website GET path probes index documents with HeadObject).
var authzOps = map[string][]string{
	"ListBuckets":                        {"ListBuckets"},
	"HeadBucket":                         {"HeadBucket"},
	"ListMultipartUploads":               {"ListMultipartUploads"},
	"ListObjects":                        {"ListObjects"},
	"ListObjectVersions":                 {"ListObjectVersions"},
	"CreateBucket":                       {"CreateBucket"},
	"DeleteBucket":                       {"DeleteBucket"},
	"HeadObject":                         {"HeadObject", "HeadObjectVersion", "GetObject", "GetObjectVersion"},
	"GetObject":                          {"GetObject", "GetObjectVersion"},
	"ListParts":                          {"ListParts"},
	"CreateMultipartUpload":              {"CreateMultipartUpload"},
	"CompleteMultipartUpload":            {"CompleteMultipartUpload"},
	"UploadPart":                         {"UploadPart"},
	"UploadPartCopy":                     {"UploadPartCopy"},
	"PutObject":                          {"PutObject"},
	"CopyObject":                         {"CopyObject"},
	"AppendObject":                       {"AppendObject"},
	"AbortMultipartUpload":               {"AbortMultipartUpload"},
	"DeleteObject":                       {"DeleteObject", "DeleteObjectVersion"},
	"DeleteObjects":                      {"DeleteObjects"},
	"GetBucketCORSConfiguration":         {"GetBucketCORS"},
	"PutBucketCORSConfiguration":         {"PutBucketCORS"},
	"DeleteBucketCORSConfiguration":      {"DeleteBucketCORS"},
	"GetBucketWebsiteConfiguration":      {"GetBucketWebsite"},
	"PutBucketWebsiteConfiguration":      {"PutBucketWebsite"},
	"DeleteBucketWebsiteConfiguration":   {"DeleteBucketWebsite"},
	"GetBucketVersioningConfiguration":   {"GetBucketVersioning"},
	"PutBucketVersioningConfiguration":   {"PutBucketVersioning"},
	"GetObjectTagging":                   {"GetObjectTagging", "GetObjectVersionTagging"},
	"PutObjectTagging":                   {"PutObjectTagging", "PutObjectVersionTagging"},
	"DeleteObjectTagging":                {"DeleteObjectTagging", "DeleteObjectVersionTagging"},
	"GetBucketLifecycleConfiguration":    {"GetBucketLifecycle"},
	"PutBucketLifecycleConfiguration":    {"PutBucketLifecycle"},
	"DeleteBucketLifecycleConfiguration": {"DeleteBucketLifecycle"},
	"GetBucketNotificationConfiguration": {"GetBucketNotification"},
	"PutBucketNotificationConfiguration": {"PutBucketNotification"},
	// TransitionObjectStorageClass has no HTTP route; any call site in package server is undecided.
}

// frozen exemptions of the dominance rule: construct -> reason.
var c31Exempt = map[string]string{
	"(*Server).makeExistingObjectTagsResolver$1 → Storage.GetObjectTagging":     "lazy tag resolver handed to the authorizer itself (s3:ExistingObjectTag); it runs inside AuthorizeRequest, its result goes only to the policy, never to the response",
	"(*Server).resolveCORSRulesForRequest → Storage.GetBucketCORSConfiguration": "CORS rule resolver of the CORS middleware: reads bucket CORS rules to decide response headers for any origin-bearing request; by design not subject to the authorizer (C34 governs what it may emit)",
	"(*Server).websitePrepare → Storage.GetBucketWebsiteConfiguration":          "read before authorization only to resolve the index-document key that is then authorized; nothing is written to the response before the authorizer ran (errors are revealed only after the allow edge)",
}

type authEngine struct {
	w        *World
	server   *types.Named
	guardFns map[*types.Func]guardSpec // function -> which result/polarity means "authorized"
	baseOK   map[*types.Func]bool
}

type guardSpec struct {
	result int  // result index (-1: single result)
	want   bool // value meaning "authorized"
}

func newAuthEngine(w *World) *authEngine {
	e := &authEngine{w: w, server: w.Named(relServer, "Server"), guardFns: map[*types.Func]guardSpec{}, baseOK: map[*types.Func]bool{}}
	for _, n := range []string{"authorizeRequest", "authorizeRequestWithRequestTags", "authorizeCopyRequest", "runAuthorization"} {
		if f := w.Func(relServer, "Server."+n); f != nil {
			e.guardFns[f] = guardSpec{-1, false}
		}
	}
	if f := w.Func(relServer, "Server.websitePrepare"); f != nil {
		e.guardFns[f] = guardSpec{3, true}
	}
	return e
}

// isBaseAllow: v is result #0 of an invoke of AuthorizeRequest on the requestAuthorizer field.
func isAuthorizerCall(c *ssa.Call) bool {
	if c == nil || !c.Call.IsInvoke() || c.Call.Method.Name() != "AuthorizeRequest" {
		return false
	}
	n, _ := fieldLoadName(c.Call.Value)
	return n == "requestAuthorizer"
}

// baseFactsAt: the facts at block b establish "AuthorizeRequest returned (true, nil)".
func baseFactsAt(b *ssa.BasicBlock) (*ssa.Call, bool) {
	var allowed, noErr *ssa.Call
	for _, f := range factsAt(b) {
		c, idx := callOf(f.Val)
		if !isAuthorizerCall(c) {
			continue
		}
		if idx == 0 && f.Kind == IsTrue {
			allowed = c
		}
		if idx == 1 && f.Kind == IsNil {
			noErr = c
		}
	}
	if allowed != nil && allowed == noErr {
		return allowed, true
	}
	return nil, false
}

// verifyGuard checks the summary of a guard function: every return whose guarded result may
// equal the "authorized" value is dominated by the base facts, or returns the guarded result
// of another verified guard function unchanged.
func (e *authEngine) verifyGuard(f *types.Func, seen map[*types.Func]bool) (bool, string) {
	if ok, done := e.baseOK[f]; done {
		return ok, ""
	}
	if seen[f] {
		return true, ""
	}
	seen[f] = true
	spec := e.guardFns[f]
	fn := e.w.Prog.FuncValue(f)
	if fn == nil || len(fn.Blocks) == 0 {
		return false, "no body"
	}
	for _, ret := range returnsOf(fn) {
		if ret.Block() == fn.Recover {
			continue
		}
		idx := spec.result
		if idx < 0 {
			idx = 0
		}
		if idx >= len(ret.Results) {
			return false, "result index out of range"
		}
		v := retResult(ret, idx)
		if b, isConst := boolConst(v); isConst {
			if b != spec.want {
				continue // definitely "not authorized"
			}
			if _, ok := baseFactsAt(ret.Block()); !ok {
				return false, fmt.Sprintf("return at %s yields the authorized value without AuthorizeRequest having returned (true, nil)", e.w.Pos(posOf(ret)))
			}
			continue
		}
		// non-constant: must be the guarded result of another guard with the same polarity
		if c, ridx := callOf(v); c != nil {
			if g := calleeObj(c); g != nil {
				if gs, isGuard := e.guardFns[g]; isGuard && gs.want == spec.want && (gs.result == ridx || (gs.result == -1 && ridx == -1)) {
					if ok, why := e.verifyGuard(g, seen); ok {
						continue
					} else {
						return false, why
					}
				}
			}
		}
		// named results assigned earlier (websitePrepare's `ok`): fall back to facts
		if _, ok := baseFactsAt(ret.Block()); ok {
			continue
		}
		// a bare `return` of zero-valued named results: treat loads of a result cell that was
		// never stored a true constant as not-authorized
		if spec.want && isZeroNamedResult(v) {
			continue
		}
		return false, fmt.Sprintf("return at %s: cannot show that the authorized value implies an allow decision", e.w.Pos(posOf(ret)))
	}
	e.baseOK[f] = true
	return true, ""
}

// isZeroNamedResult: v is a load of a named-result cell that is never assigned true.
func isZeroNamedResult(v ssa.Value) bool {
	ld, ok := v.(*ssa.UnOp)
	if !ok {
		return false
	}
	cell, ok := ld.X.(*ssa.Alloc)
	if !ok {
		return false
	}
	for _, st := range storesTo(cell) {
		if b, isConst := boolConst(st); !isConst || b {
			return false
		}
	}
	return true
}

type authHit struct {
	guard *ssa.Call
	fn    *types.Func
}

// guardsAt returns the verified guard calls whose "authorized" outcome dominates block b.
func (e *authEngine) guardsAt(b *ssa.BasicBlock) []authHit {
	var out []authHit
	for _, f := range factsAt(b) {
		c, idx := callOf(f.Val)
		if c == nil {
			continue
		}
		g := calleeObj(c)
		spec, isGuard := e.guardFns[g]
		if !isGuard {
			continue
		}
		if spec.result != idx && !(spec.result == -1 && idx == -1) {
			continue
		}
		if (spec.want && f.Kind == IsTrue) || (!spec.want && f.Kind == IsFalse) {
			out = append(out, authHit{c, g})
		}
	}
	return out
}

// opsOfGuard returns the operation constants a guard call may carry (following phis and the
// enclosing function's parameters through its callers).
func (e *authEngine) opsOfGuard(h authHit) ([]string, bool) {
	if h.fn == nil {
		// direct AuthorizeRequest(ctx, request): the Operation field stored into the request
		var out []string
		ok := false
		backSlice(h.guard.Call.Args[1], false, func(v ssa.Value) {
			a, isAlloc := v.(*ssa.Alloc)
			if !isAlloc {
				return
			}
			for _, ref := range *a.Referrers() {
				if fa, isFA := ref.(*ssa.FieldAddr); isFA && fieldName(fa.X.Type(), fa.Field) == "Operation" {
					for _, st := range storesTo(fa) {
						if s, sok := e.stringValues(st, 0); sok {
							out = append(out, s...)
							ok = true
						}
					}
				}
			}
		})
		return out, ok
	}
	sig := h.fn.Type().(*types.Signature)
	idx := -1
	for i := 0; i < sig.Params().Len(); i++ {
		if sig.Params().At(i).Name() == "operation" {
			idx = i + 1 // receiver first
		}
	}
	if idx < 0 {
		return nil, false
	}
	return e.stringValues(h.guard.Call.Args[idx], 0)
}

func (e *authEngine) stringValues(v ssa.Value, depth int) ([]string, bool) {
	if depth > 4 {
		return nil, false
	}
	switch x := v.(type) {
	case *ssa.Const:
		if s, ok := constString(x); ok {
			return []string{s}, true
		}
	case *ssa.Phi:
		var out []string
		for _, ed := range x.Edges {
			s, ok := e.stringValues(ed, depth+1)
			if !ok {
				return nil, false
			}
			out = append(out, s...)
		}
		return out, true
	case *ssa.Parameter:
		fn := x.Parent()
		pi := paramIndex(fn, x)
		var out []string
		cs := e.w.callers[fn]
		if len(cs) == 0 || len(e.w.escapes[fn]) > 0 {
			return nil, false
		}
		for _, c := range cs {
			ci, ok := c.(ssa.CallInstruction)
			if !ok {
				return nil, false
			}
			s, ok := e.stringValues(ci.Common().Args[pi], depth+1)
			if !ok {
				return nil, false
			}
			out = append(out, s...)
		}
		return out, true
	case *ssa.UnOp:
		var out []string
		sts := storesTo(x.X)
		if len(sts) == 0 {
			return nil, false
		}
		for _, st := range sts {
			s, ok := e.stringValues(st, depth+1)
			if !ok {
				return nil, false
			}
			out = append(out, s...)
		}
		return out, true
	}
	return nil, false
}

// discharge decides whether instruction site is authorized: dominated by a verified guard in
// its own function, or — for helpers and function literals — at every call/creation site.
func (e *authEngine) discharge(site ssa.Instruction, depth int) (hits []authHit, ok bool, why string) {
	fn := site.Parent()
	if hs := e.guardsAt(site.Block()); len(hs) > 0 {
		return hs, true, ""
	}
	if c, ok := baseFactsAt(site.Block()); ok {
		return []authHit{{guard: c}}, true, ""
	}
	if depth > 4 {
		return nil, false, "caller chain too deep"
	}
	if len(e.w.escapes[fn]) > 0 {
		return nil, false, funcName(fn) + " is used as a function value (route/handler entry) and has no dominating authorization"
	}
	cs := e.w.callers[fn]
	if len(cs) == 0 {
		return nil, false, funcName(fn) + " has no dominating authorization and no static callers"
	}
	for _, c := range cs {
		h, ok, why := e.discharge(c, depth+1)
		if !ok {
			return nil, false, "via " + funcName(c.Parent()) + ": " + why
		}
		hits = append(hits, h...)
	}
	return hits, true, ""
}

func shortFunc(fn *ssa.Function) string {
	s := funcName(fn)
	s = strings.ReplaceAll(s, relServer+".", "")
	return s
}

func checkC31(w *World, r *Run) {
	checkStorageTable(w, r)
	ruleGuard := r.Rule("authorizer-summary", "F1",
		"each guard helper (authorizeRequest, authorizeRequestWithRequestTags, authorizeCopyRequest, runAuthorization, websitePrepare) yields its 'authorized' value only on paths dominated by requestAuthorizer.AuthorizeRequest(..) == (true, nil)", 5)
	ruleDom := r.Rule("storage-call-dominated-by-authorization", "F1",
		"every call of a storage.Storage method on (*Server).storage is dominated by the authorized edge of a verified guard — in its own function or, for helpers and function literals, at every call/creation site up to the mux entry points", 43)
	ruleOp := r.Rule("authorized-operation-covers-method", "F7",
		"the operation constant(s) of the dominating guard are among the operations that cover the storage method (frozen table authzOps)", 40)
	ruleRes := r.Rule("authorized-resource-is-acted-on", "F1",
		"the bucket (and key, copy source) handed to the guard derive from the very values passed to the storage call", 40)
	ruleItem := r.Rule("per-item-hook-splits-paths", "F1",
		"after every per-item authorizer call (authorizeListBucket/ListObject/DeleteObjectEntry/ListMultipartUpload/ListPart) the result is branched on and the denied and allowed continuations share no block within the iteration", 7)
	ruleRO := r.Rule("readonly-operations-authorize-no-mutator", "F7",
		"every operation for which isReadOnly returns true covers only non-mutating storage methods; every declared operation constant occurs in the table", 40)
	ruleRoutes := r.Rule("mux-routes-resolve", "F6",
		"every pattern registered on the API and website muxes resolves to a method of *Server (covered by the dominance rule) ", 17)

	e := newAuthEngine(w)
	if e.server == nil || len(e.guardFns) < 5 {
		r.Anchor(ruleGuard, "server.Server guard helpers")
		return
	}
	var gnames []*types.Func
	for f := range e.guardFns {
		gnames = append(gnames, f)
	}
	sort.Slice(gnames, func(i, j int) bool { return gnames[i].Name() < gnames[j].Name() })
	for _, f := range gnames {
		ok, why := e.verifyGuard(f, map[*types.Func]bool{})
		r.Check(ok, ruleGuard, "(*Server)."+f.Name(), f.Pos(), "authorized value ⇒ AuthorizeRequest == (true,nil)", why)
	}

	// storage call sites
	sp := w.SSA[w.Pkg(relServer).Types]
	type siteT struct {
		fn  *ssa.Function
		c   ssa.CallInstruction
		met string
	}
	var sites []siteT
	for _, fn := range w.allFuncs {
		if fn.Pkg != sp {
			continue
		}
		allInstrs(fn, false, func(_ *ssa.Function, ins ssa.Instruction) {
			c, ok := ins.(ssa.CallInstruction)
			if !ok || !c.Common().IsInvoke() {
				return
			}
			if n, base := fieldLoadName(c.Common().Value); n == "storage" && base != nil {
				if nt := recvOfPtr(base.Type()); nt != nil && nt == e.server {
					sites = append(sites, siteT{fn, c, c.Common().Method.Name()})
				}
			}
		})
	}
	for _, s := range sites {
		cons := shortFunc(s.fn) + " → Storage." + s.met
		if why, ex := c31Exempt[cons]; ex {
			r.Exempt(ruleDom, cons, posOf(s.c), why)
			continue
		}
		hits, ok, why := e.discharge(s.c, 0)
		if !ok {
			r.Bad(ruleDom, cons, posOf(s.c), "not dominated by an authorization: "+why)
			continue
		}
		r.OK(ruleDom, cons, posOf(s.c), fmt.Sprintf("guarded by %s at %s", hitName(hits[0]), w.Pos(hits[0].guard.Pos())))
		// operation
		allowed := map[string]bool{}
		for _, o := range authzOps[s.met] {
			allowed[o] = true
		}
		var ops []string
		opOK := len(allowed) > 0
		for _, h := range hits {
			o, ok := e.opsOfGuard(h)
			if !ok {
				opOK = false
				ops = append(ops, "<non-constant>")
				continue
			}
			for _, x := range o {
				ops = append(ops, x)
				if !allowed[x] {
					opOK = false
				}
			}
		}
		ops = uniq(ops)
		if !opOK && cons == "(*Server).serveErrorDocument → Storage.GetObject" && len(ops) == 2 && ops[0] == "GetObject" && ops[1] == "HeadObject" {
			// conditional exemption: under HeadObject (website HEAD route) the error document is
			// read with GetObject but its body must not be written: io.Copy only on r.Method != HEAD
			if headSkipsBody(s.fn) {
				r.Exempt(ruleOp, cons, posOf(s.c), "website HEAD of a missing key reads the error document with GetObject under operation HeadObject; checked: the body copy (io.Copy) is dominated by r.Method != \"HEAD\", so only metadata (type, size) is returned")
				checkC31Resource(w, r, ruleRes, cons, s.c, hits)
				continue
			}
		}
		r.Check(opOK, ruleOp, cons, posOf(s.c), "under "+strings.Join(ops, "|"), fmt.Sprintf("authorized as %v, which does not cover Storage.%s (allowed: %v)", ops, s.met, authzOps[s.met]))
		// resource agreement
		checkC31Resource(w, r, ruleRes, cons, s.c, hits)
	}

	checkC31PerItem(w, r, ruleItem, sp)
	checkC31ReadOnly(w, r, ruleRO)
	checkC31Routes(w, r, ruleRoutes, e)
	checkC31GuardRoles(w, r)
	r.NotCovered("that a deny really leaves storage untouched below the storage interface (C03); that the versioned operation name is chosen exactly when a version id is passed; authorizer programs themselves")
}

// headSkipsBody: every io.Copy in fn is dominated by the edge r.Method != "HEAD".
func headSkipsBody(fn *ssa.Function) bool {
	copies := callsTo(fn, false, func(f *types.Func) bool { return f.Pkg() != nil && f.Pkg().Path() == "io" && f.Name() == "Copy" })
	if len(copies) == 0 {
		return false
	}
	for _, c := range copies {
		ok := false
		for _, f := range factsAt(c.Block()) {
			if f.Kind == NeConst && f.Const != nil {
				if s, isStr := constString(f.Const); isStr && s == "HEAD" {
					if n, _ := fieldLoadName(f.Val); n == "Method" {
						ok = true
					}
				}
			}
		}
		if !ok {
			return false
		}
	}
	return true
}

func hitName(h authHit) string {
	if h.fn == nil {
		return "requestAuthorizer.AuthorizeRequest"
	}
	return h.fn.Name()
}

func uniq(in []string) []string {
	m := map[string]bool{}
	for _, s := range in {
		m[s] = true
	}
	return keys(m)
}

// checkC31Resource: bucket/key values given to the storage call must occur in the backward
// slice (through call arguments) of the guard's bucket/key arguments.
func checkC31Resource(w *World, r *Run, rule, cons string, c ssa.CallInstruction, hits []authHit) {
	var buckets, keysV []ssa.Value
	for _, a := range c.Common().Args {
		if isNamedType(a.Type(), "BucketName") {
			buckets = append(buckets, a)
		}
		if isNamedType(a.Type(), "ObjectKey") {
			keysV = append(keysV, a)
		}
	}
	if len(buckets) == 0 {
		r.OK(rule, cons, posOf(c), "bucket-less call")
		return
	}
	for _, h := range hits {
		// only guards in the same function carry comparable values; guards further up the
		// call chain are compared at the call boundary by parameter position
		if h.guard.Parent() != c.Parent() || h.fn == nil {
			continue
		}
		inSlice := map[ssa.Value]bool{}
		var nilKey bool
		sig := h.fn.Type().(*types.Signature)
		for i := 0; i < sig.Params().Len(); i++ {
			n := strings.ToLower(sig.Params().At(i).Name())
			if strings.Contains(n, "bucket") || strings.Contains(n, "key") {
				arg := h.guard.Call.Args[i+1]
				if isNilConst(arg) && strings.Contains(n, "key") {
					nilKey = true
				}
				backSlice(arg, true, func(v ssa.Value) { inSlice[v] = true })
			}
		}
		has := func(v ssa.Value) bool {
			if inSlice[v] {
				return true
			}
			for x := range inSlice {
				if sameValue(x, v) {
					return true
				}
			}
			return false
		}
		for _, b := range buckets {
			if !has(b) {
				r.Bad(rule, cons, posOf(c), "the bucket passed to the storage call does not derive from the bucket that was authorized by "+h.fn.Name())
				return
			}
		}
		if !nilKey && h.fn.Name() != "websitePrepare" {
			for _, k := range keysV {
				if !has(k) {
					r.Bad(rule, cons, posOf(c), "the key passed to the storage call does not derive from the key that was authorized by "+h.fn.Name())
					return
				}
			}
		}
		r.OK(rule, cons, posOf(c), "bucket/key of the call occur in the guard's arguments")
		return
	}
	r.OK(rule, cons, posOf(c), "guard sits in a caller; resource passed down as parameter")
}

func checkC31PerItem(w *World, r *Run, rule string, sp *ssa.Package) {
	hooks := map[string]bool{"authorizeListBucket": true, "authorizeListObject": true, "authorizeDeleteObjectEntry": true, "authorizeListMultipartUpload": true, "authorizeListPart": true}
	for _, fn := range w.allFuncs {
		if fn.Pkg != sp {
			continue
		}
		n := 0
		allInstrs(fn, false, func(_ *ssa.Function, ins ssa.Instruction) {
			c, ok := ins.(*ssa.Call)
			if !ok {
				return
			}
			f := calleeObj(c)
			if f == nil || !hooks[f.Name()] || recvNamed(f) == nil || recvNamed(f).Obj().Name() != "Server" {
				return
			}
			n++
			cons := fmt.Sprintf("%s: %s #%d", shortFunc(fn), f.Name(), n)
			var allowed ssa.Value
			for _, ref := range *c.Referrers() {
				if ex, ok := ref.(*ssa.Extract); ok && ex.Index == 0 {
					allowed = ex
				}
			}
			if allowed == nil {
				r.Bad(rule, cons, posOf(c), "the per-item decision is discarded")
				return
			}
			// find the If on allowed
			var iff *ssa.If
			truthOnTrueEdge := true
			for _, ref := range *allowed.Referrers() {
				switch u := ref.(type) {
				case *ssa.If:
					iff = u
				case *ssa.UnOp:
					for _, rr := range *u.Referrers() {
						if i2, ok := rr.(*ssa.If); ok {
							iff = i2
							truthOnTrueEdge = false
						}
					}
				}
			}
			if iff == nil {
				r.Bad(rule, cons, posOf(c), "the per-item decision is never branched on")
				return
			}
			b := iff.Block()
			allowedSucc, deniedSucc := b.Succs[0], b.Succs[1]
			if !truthOnTrueEdge {
				allowedSucc, deniedSucc = deniedSucc, allowedSucc
			}
			// loop header: nearest dominator of b (or b) having a predecessor it dominates
			var hdr *ssa.BasicBlock
			for d := b; d != nil && hdr == nil; d = d.Idom() {
				for _, p := range d.Preds {
					if d.Dominates(p) || p == d {
						hdr = d
					}
				}
			}
			reach := func(from *ssa.BasicBlock) map[*ssa.BasicBlock]bool {
				seen := map[*ssa.BasicBlock]bool{}
				var walk func(x *ssa.BasicBlock)
				walk = func(x *ssa.BasicBlock) {
					if seen[x] || x == hdr {
						return
					}
					seen[x] = true
					for _, s := range x.Succs {
						walk(s)
					}
				}
				walk(from)
				return seen
			}
			ra, rd := reach(allowedSucc), reach(deniedSucc)
			shared := 0
			for x := range rd {
				if ra[x] {
					shared++
				}
			}
			if hdr == nil {
				r.Bad(rule, cons, posOf(c), "per-item hook is not inside a loop (undecided)")
				return
			}
			r.Check(shared == 0, rule, cons, posOf(c), "denied items skip the iteration", "denied and allowed items share code within the iteration: a denied item is processed like an allowed one")
		})
	}
}

func checkC31ReadOnly(w *World, r *Run, rule string) {
	fobj := w.Func("internal/http/server/authorization/lua", "isReadOnly")
	fd := w.Decl(fobj)
	if fd == nil {
		r.Anchor(rule, "lua.isReadOnly")
		return
	}
	info := w.InfoFor(fd)
	readOnly := map[string]bool{}
	classified := map[string]bool{}
	ast.Inspect(fd.Body, func(n ast.Node) bool {
		cc, ok := n.(*ast.CaseClause)
		if !ok {
			return true
		}
		val := false
		found := false
		for _, s := range cc.Body {
			if as, ok := s.(*ast.AssignStmt); ok && len(as.Rhs) == 1 {
				if tv := info.Types[as.Rhs[0]]; tv.Value != nil && tv.Value.Kind() == constant.Bool {
					val = constant.BoolVal(tv.Value)
					found = true
				}
			}
			if rs, ok := s.(*ast.ReturnStmt); ok && len(rs.Results) == 1 {
				if tv := info.Types[rs.Results[0]]; tv.Value != nil && tv.Value.Kind() == constant.Bool {
					val = constant.BoolVal(tv.Value)
					found = true
				}
			}
		}
		if !found {
			return true
		}
		for _, e := range cc.List {
			if tv := info.Types[e]; tv.Value != nil && tv.Value.Kind() == constant.String {
				op := constant.StringVal(tv.Value)
				classified[op] = true
				if val {
					readOnly[op] = true
				}
			}
		}
		return true
	})
	// inverse table
	covers := map[string][]string{}
	for m, ops := range authzOps {
		for _, o := range ops {
			covers[o] = append(covers[o], m)
		}
	}
	// declared constants
	p := w.Pkg(relAuthz)
	var declared []string
	for _, n := range p.Types.Scope().Names() {
		if c, ok := p.Types.Scope().Lookup(n).(*types.Const); ok && strings.HasPrefix(n, "Operation") && c.Val().Kind() == constant.String {
			declared = append(declared, constant.StringVal(c.Val()))
		}
	}
	sort.Strings(declared)
	for _, op := range declared {
		cons := "operation " + op
		ms := covers[op]
		sort.Strings(ms)
		if len(ms) == 0 {
			r.Bad(rule, cons, fobj.Pos(), "declared operation constant does not occur in the frozen authzOps table: a route may authorize under it unchecked")
			continue
		}
		if readOnly[op] {
			var mut []string
			for _, m := range ms {
				if storageMethods[m].mutating() {
					mut = append(mut, m)
				}
			}
			r.Check(len(mut) == 0, rule, cons, fobj.Pos(), "read-only; covers "+strings.Join(ms, ","), "isReadOnly reports true but the operation authorizes mutating method(s) "+strings.Join(mut, ","))
		} else {
			note := "mutating or unclassified (isReadOnly false): conservative"
			r.OK(rule, cons, fobj.Pos(), note+"; covers "+strings.Join(ms, ","))
		}
	}
	for op := range readOnly {
		if len(covers[op]) == 0 {
			r.Bad(rule, "operation "+op, fobj.Pos(), "isReadOnly classifies an operation that is not in the table")
		}
	}
}

func checkC31Routes(w *World, r *Run, rule string, e *authEngine) {
	setup := w.SSAFunc(relServer, "SetupServer")
	if setup == nil {
		r.Anchor(rule, "server.SetupServer")
		return
	}
	for _, c := range callsTo(setup, false, func(f *types.Func) bool {
		return f.Name() == "HandleFunc" && f.Pkg() != nil && f.Pkg().Path() == "net/http"
	}) {
		args := c.Common().Args // mux, pattern, handler
		pat, _ := constString(args[1])
		cons := "route " + pat
		h := args[2]
		var target *ssa.Function
		switch x := h.(type) {
		case *ssa.MakeClosure:
			target, _ = x.Fn.(*ssa.Function)
		case *ssa.Function:
			target = x
		}
		if target == nil {
			r.Bad(rule, cons, posOf(c), "handler is not a statically known function")
			continue
		}
		// bound method wrapper: (*Server).h$bound
		name := target.Name()
		r.Check(strings.Contains(target.String(), "Server"), rule, cons, posOf(c), "→ "+name, "handler is not a method of *Server; its storage effects are outside the dominance rule")
	}
}
