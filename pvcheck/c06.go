package main

import (
	"fmt"
	"go/ast"
	"go/token"
	"go/types"
	"strings"

	"golang.org/x/tools/go/ssa"
)

// C06 — listings are complete, ordered, duplicate-free and prefix-exact.
func init() { register("C06", checkC06) }

func checkC06(w *World, r *Run) {
	stmts := collectSQL(w)
	checkSQLSiblings(w, r, stmts, nil, 100)

	rulePrefix := r.Rule("prefix-filter-byte-exact", "F4",
		"every statement executed by a repository method with a `prefix` parameter filters the key with a metacharacter-free exact predicate — substr(key, 1, length($n)) = $n (or starts_with(key, $n)) — and contains no LIKE/ILIKE/GLOB on the key (LIKE treats % and _ in the prefix as wildcards and is ASCII case-insensitive on SQLite)", 16)
	rulePage := r.Rule("keyset-pagination-matches-order-by", "F4",
		"in every paginated statement the marker predicate compares exactly the ORDER BY expressions, in order, with > for ASC and < for DESC; a tie-breaking second column is compared under equality of the first, using the same expression on the column and on the marker parameter", 12)
	ruleLimit := r.Rule("limit-queries-fetch-one-extra-row", "F1",
		"every call of a *WithLimit repository query from the SQL metadata store passes <page size> + 1, so truncation is detectable", 3)

	for _, s := range stmts {
		if s.Entity != "object" {
			continue
		}
		hasPrefixParam := false
		for _, f := range s.UsedBy {
			sig := f.Type().(*types.Signature)
			for i := 0; i < sig.Params().Len(); i++ {
				if strings.EqualFold(sig.Params().At(i).Name(), "prefix") {
					hasPrefixParam = true
				}
			}
		}
		toks := s.Toks
		if s.Dialect == "pgx" {
			toks = normalizeDialect(toks)
		}
		where := sqlClause(toks, "WHERE")
		cons := s.Dialect + " object." + s.Name
		if hasPrefixParam {
			exact, pattern := false, ""
			for _, c := range splitTop(where, "AND") {
				j := joinToks(c)
				if containsTok(c, "LIKE") || containsTok(c, "ILIKE") || containsTok(c, "GLOB") {
					if containsTok(c, "key") {
						pattern = j
					}
				}
				if m := exactPrefixParam(c); m != "" {
					exact = true
				}
			}
			switch {
			case pattern != "":
				r.Bad(rulePrefix, cons, s.Pos, "prefix filter uses a pattern operator: "+pattern)
			case !exact:
				r.Bad(rulePrefix, cons, s.Pos, "no recognised exact prefix predicate on key (undecided)")
			default:
				r.OK(rulePrefix, cons, s.Pos, "substr(key,1,length($n)) = $n")
			}
		} else if containsTok(where, "LIKE") || containsTok(where, "ILIKE") || containsTok(where, "GLOB") {
			r.Bad(rulePrefix, cons, s.Pos, "pattern operator in a statement without prefix parameter")
		}
		// pagination
		order := sqlClause(toks, "ORDER", "BY")
		if len(order) == 0 || stmtVerb(s) != "SELECT" {
			continue
		}
		ok, detail, paginated := checkKeyset(where, order)
		if !paginated {
			continue
		}
		r.Check(ok, rulePage, cons, s.Pos, detail, detail)
	}

	// count statements share the WHERE clause of the listing they size
	ruleCount := r.Rule("count-query-shares-where-with-listing", "F4",
		"every countObjects… statement (used to decide IsTruncated) has exactly the WHERE clause of the find… statements it sizes", 4)
	for _, s := range stmts {
		if s.Entity != "object" || !strings.HasPrefix(s.Name, "count") {
			continue
		}
		rest := strings.TrimSuffix(strings.TrimPrefix(s.Name, "count"), "Stmt")
		wc := joinToks(sqlClause(normalizeDialect(s.Toks), "WHERE"))
		n := 0
		for _, f := range stmts {
			if f.Entity == "object" && f.Dialect == s.Dialect && strings.HasPrefix(f.Name, "find"+rest+"OrderBy") {
				n++
				wf := joinToks(sqlClause(normalizeDialect(f.Toks), "WHERE"))
				r.Check(wc == wf, ruleCount, s.Dialect+" object."+s.Name+" ~ "+f.Name, s.Pos, "same WHERE", "count and listing select different row sets: count WHERE ["+wc+"] vs listing WHERE ["+wf+"]")
			}
		}
		if n == 0 {
			r.Bad(ruleCount, s.Dialect+" object."+s.Name, s.Pos, "no listing statement found for this count statement (undecided)")
		}
	}

	// limit + 1
	sp := w.SSA[w.Pkg("internal/storage/metadatapart/metadatastore/sql").Types]
	for _, fn := range w.allFuncs {
		if fn.Pkg != sp {
			continue
		}
		allInstrs(fn, false, func(_ *ssa.Function, ins ssa.Instruction) {
			c, ok := ins.(ssa.CallInstruction)
			if !ok || !c.Common().IsInvoke() || !strings.HasSuffix(c.Common().Method.Name(), "WithLimit") {
				return
			}
			args := c.Common().Args
			last := args[len(args)-1]
			plusOne := false
			backSlice(last, false, func(v ssa.Value) {
				if b, ok := v.(*ssa.BinOp); ok && b.Op == token.ADD {
					if n, isc := intConst(b.Y); isc && n == 1 {
						plusOne = true
					}
				}
			})
			r.Check(plusOne, ruleLimit, shortSQLFunc(fn)+" → "+c.Common().Method.Name(), posOf(c), "limit = page size + 1", "the LIMIT passed is not <page size>+1: a full page cannot be told from a truncated one")
		})
	}
	checkC06Markers(w, r)
	checkC06EarlyStop(w, r)
	checkC06ContinuationWins(w, r)
	r.NotCovered("behaviour of the paging loops over all key sets and page sizes; collation of key comparison in the database (binary vs locale); common-prefix roll-up arithmetic")
}

func shortSQLFunc(fn *ssa.Function) string {
	return strings.ReplaceAll(funcName(fn), "internal/storage/metadatapart/metadatastore/sql.", "")
}

// exactPrefixParam recognises `substr ( key , 1 , length ( $n ) ) = $n` and
// `starts_with ( key , $n )`; returns the parameter.
func exactPrefixParam(c []string) string {
	j := joinToks(c)
	for n := 1; n <= 9; n++ {
		p := fmt.Sprintf("$%d", n)
		if j == "substr ( key , 1 , length ( "+p+" ) ) = "+p || j == "starts_with ( key , "+p+" )" {
			return p
		}
	}
	return ""
}

// checkKeyset verifies the marker predicate against the ORDER BY list.
func checkKeyset(where, order []string) (ok bool, detail string, paginated bool) {
	type item struct {
		expr []string
		desc bool
	}
	var items []item
	for _, it := range splitTop(order, ",") {
		desc := false
		if n := len(it); n > 0 && (it[n-1] == "ASC" || it[n-1] == "DESC") {
			desc = it[n-1] == "DESC"
			it = it[:n-1]
		}
		items = append(items, item{it, desc})
	}
	if len(items) == 0 {
		return false, "", false
	}
	opFor := func(desc bool) string {
		if desc {
			return "<"
		}
		return ">"
	}
	e1 := joinToks(items[0].expr)
	// find the conjunct that compares e1 with a parameter
	var marker []string
	for _, c := range splitTop(where, "AND") {
		j := joinToks(c)
		if strings.Contains(j, e1+" > $") || strings.Contains(j, e1+" < $") || strings.Contains(j, e1+" >= $") || strings.Contains(j, e1+" <= $") {
			marker = c
		}
	}
	if marker == nil {
		return false, "", false // not a paginated statement (e.g. ORDER BY … LIMIT 1 selection)
	}
	mj := joinToks(marker)
	if len(items) == 1 {
		want := e1 + " " + opFor(items[0].desc) + " $"
		if strings.HasPrefix(mj, want) && len(marker) == len(items[0].expr)+2 {
			return true, "marker: " + mj + " | order: " + joinToks(order), true
		}
		return false, "marker predicate [" + mj + "] does not match ORDER BY [" + joinToks(order) + "]", true
	}
	if len(items) == 2 {
		e2 := joinToks(items[1].expr)
		// ( e1 op $a OR ( [$b <> '' AND] e1 = $a AND e2 op2 X ) )
		if len(marker) < 3 || marker[0] != "(" || marker[len(marker)-1] != ")" {
			return false, "two-column marker predicate is not parenthesised: " + mj, true
		}
		inner := marker[1 : len(marker)-1]
		alts := splitTop(inner, "OR")
		if len(alts) != 2 {
			return false, "two-column marker predicate is not of the form (a OR (b)): " + mj, true
		}
		a0 := joinToks(alts[0])
		if !strings.HasPrefix(a0, e1+" "+opFor(items[0].desc)+" $") || len(alts[0]) != len(items[0].expr)+2 {
			return false, "first alternative [" + a0 + "] does not compare " + e1 + " in ORDER BY direction", true
		}
		pa := alts[0][len(alts[0])-1]
		second := alts[1]
		if len(second) >= 2 && second[0] == "(" && second[len(second)-1] == ")" {
			second = second[1 : len(second)-1]
		}
		eqOK, tieOK := false, false
		for _, c := range splitTop(second, "AND") {
			j := joinToks(c)
			if j == e1+" = "+pa {
				eqOK = true
			}
			if strings.HasPrefix(j, e2+" "+opFor(items[1].desc)+" ") {
				rhs := c[len(items[1].expr)+1:]
				// rhs must be e2 with the column replaced by a parameter
				col := ""
				for _, t := range items[1].expr {
					if !sqlKeywords[t] && t != "(" && t != ")" && t != "," && !strings.HasPrefix(t, "'") {
						col = t
					}
				}
				if len(rhs) == len(items[1].expr) {
					same := true
					for i := range rhs {
						if items[1].expr[i] == col {
							if !strings.HasPrefix(rhs[i], "$") {
								same = false
							}
						} else if rhs[i] != items[1].expr[i] {
							same = false
						}
					}
					tieOK = same
				}
			}
		}
		if eqOK && tieOK {
			return true, "marker: " + mj + " | order: " + joinToks(order), true
		}
		return false, fmt.Sprintf("tie-break of marker predicate [%s] does not mirror ORDER BY [%s] (eq=%v tie=%v)", mj, joinToks(order), eqOK, tieOK), true
	}
	return false, "ORDER BY with more than two columns (undecided)", true
}

// checkSQLSiblings: dialect sibling agreement for the given entities (nil = all).
func checkSQLSiblings(w *World, r *Run, stmts []*sqlStmt, entities map[string]bool, min int) {
	ruleSib := r.Rule("sql-dialect-siblings-agree", "F4",
		"for every SQL constant of the sqlite repositories a pgx constant of the same name exists (and vice versa) and the two statements are token-identical modulo the frozen dialect table (TRUE/FALSE↔1/0, ::type casts, trailing FOR UPDATE [SKIP LOCKED], INSERT OR REPLACE/IGNORE ↔ ON CONFLICT DO UPDATE/NOTHING)", min)
	sib := sqlSiblings(stmts)
	var keysS []string
	for k := range sib {
		keysS = append(keysS, k)
	}
	sortStrings(keysS)
	for _, k := range keysS {
		if entities != nil && !entities[k[:strings.Index(k, ".")]] {
			continue
		}
		p := sib[k]
		switch {
		case p[0] == nil:
			r.Bad(ruleSib, k, p[1].Pos, "statement exists only in the pgx repository")
		case p[1] == nil:
			r.Bad(ruleSib, k, p[0].Pos, "statement exists only in the sqlite repository")
		default:
			ta, ka := normalizeUpsert(p[0].Toks)
			tb, kb := normalizeUpsert(normalizeDialect(p[1].Toks))
			a, b := joinToks(ta)+" #"+ka, joinToks(tb)+" #"+kb
			if a == b {
				r.OK(ruleSib, k, p[0].Pos, "identical modulo dialect table")
			} else if why, ok := sqlDialectExceptions[k]; ok {
				r.Exempt(ruleSib, k, p[0].Pos, why)
			} else {
				r.Bad(ruleSib, k, p[0].Pos, "sqlite and pgx statements differ beyond the dialect table: sqlite=["+firstDiff(a, b)+"]")
			}
		}
	}
}

var sqlDialectExceptions = map[string]string{
	"partoutboxentry.findLastPartOutboxEntryGroupedByPartIdStmt": "pgx: SELECT DISTINCT ON (part_id) … WHERE outbox_id = $1 ORDER BY part_id, id DESC; sqlite: self-join on MAX(id) per part_id with outbox_id = $1 on both sides; both select the newest entry per part id of one outbox (confirmed by reading, not token-comparable)",
}

func firstDiff(a, b string) string {
	i := 0
	for i < len(a) && i < len(b) && a[i] == b[i] {
		i++
	}
	s := i - 30
	if s < 0 {
		s = 0
	}
	ea, eb := i+60, i+60
	if ea > len(a) {
		ea = len(a)
	}
	if eb > len(b) {
		eb = len(b)
	}
	return "…" + a[s:ea] + "… vs pgx …" + b[s:eb] + "…"
}

// checkC06Markers: a listing that continues from a composite position (key marker + version
// id marker) must move both components together; a page that advances only the key re-reads
// the remaining versions of that key on the next page.
func checkC06Markers(w *World, r *Run) {
	rule := r.Rule("composite-continuation-markers-advance-together", "F3",
		"in ListObjectVersions every assignment to the variable that becomes NextKeyMarker is accompanied, in the same block, by an assignment to the variable that becomes NextVersionIDMarker (and vice versa)", 3)
	f := w.Func(relSQLStore, "sqlMetadataStore.ListObjectVersions")
	fd := w.Decl(f)
	if fd == nil {
		r.Anchor(rule, "sqlMetadataStore.ListObjectVersions")
		return
	}
	info := w.InfoFor(fd)
	// variables feeding the two result fields (one hop through next…Marker locals)
	feeds := func(field string) map[types.Object]bool {
		out := map[types.Object]bool{}
		var viaLocal []types.Object
		ast.Inspect(fd.Body, func(n ast.Node) bool {
			if kv, ok := n.(*ast.KeyValueExpr); ok {
				if id, ok := kv.Key.(*ast.Ident); ok && id.Name == field {
					if v, ok := kv.Value.(*ast.Ident); ok {
						viaLocal = append(viaLocal, info.ObjectOf(v))
					}
				}
			}
			return true
		})
		for _, l := range viaLocal {
			out[l] = true
		}
		ast.Inspect(fd.Body, func(n ast.Node) bool {
			if as, ok := n.(*ast.AssignStmt); ok && len(as.Lhs) == 1 && len(as.Rhs) == 1 {
				if l, ok := as.Lhs[0].(*ast.Ident); ok && out[info.ObjectOf(l)] {
					if rv, ok := as.Rhs[0].(*ast.Ident); ok && info.ObjectOf(rv) != nil {
						if _, isVar := info.ObjectOf(rv).(*types.Var); isVar {
							out[info.ObjectOf(rv)] = true
						}
					}
				}
			}
			return true
		})
		return out
	}
	keyVars, verVars := feeds("NextKeyMarker"), feeds("NextVersionIDMarker")
	if len(keyVars) == 0 || len(verVars) == 0 {
		r.Anchor(rule, "ListObjectVersions NextKeyMarker / NextVersionIDMarker")
		return
	}
	// per block: which marker families are assigned
	n := 0
	var visit func(b *ast.BlockStmt)
	visit = func(b *ast.BlockStmt) {
		k, v := false, false
		var pos token.Pos
		for _, st := range b.List {
			if as, ok := st.(*ast.AssignStmt); ok {
				for _, l := range as.Lhs {
					if id, ok := l.(*ast.Ident); ok {
						if keyVars[info.ObjectOf(id)] {
							k, pos = true, as.Pos()
						}
						if verVars[info.ObjectOf(id)] {
							v, pos = true, as.Pos()
						}
					}
				}
			}
		}
		if k || v {
			n++
			r.Check(k && v, rule, fmt.Sprintf("ListObjectVersions marker update #%d", n), pos, "key marker and version-id marker assigned together", "only one component of the continuation position is advanced in this block: the next page resumes at (new key, stale version id) or (stale key, new version id) and repeats or skips versions / common prefixes")
		}
		ast.Inspect(b, func(m ast.Node) bool {
			if inner, ok := m.(*ast.BlockStmt); ok && inner != b {
				visit(inner)
				return false
			}
			return true
		})
	}
	visit(fd.Body)
}
