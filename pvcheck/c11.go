package main

import (
	"go/constant"
	"sort"
	"strings"

	"golang.org/x/tools/go/ssa"
)

// C11 — metadata, tags and storage class follow S3 write semantics.
func init() { register("C11", checkC11) }

// fieldStoresIn: for stores into fields of a struct named `structName` in fn (deep),
// field → list of (value, store instruction).
type fieldStore struct {
	val ssa.Value
	ins *ssa.Store
}

func fieldStoresIn(fn *ssa.Function, deep bool, structName string) map[string][]fieldStore {
	out := map[string][]fieldStore{}
	allInstrs(fn, deep, func(_ *ssa.Function, ins ssa.Instruction) {
		st, ok := ins.(*ssa.Store)
		if !ok {
			return
		}
		fa, ok := st.Addr.(*ssa.FieldAddr)
		if !ok || structNameOf(fa.X.Type()) != structName {
			return
		}
		n := fieldName(fa.X.Type(), fa.Field)
		out[n] = append(out[n], fieldStore{st.Val, st})
	})
	return out
}

// loadsField: v is (a deref of) a load of field `name`; returns the base.
func loadsField(v ssa.Value, name string) (ssa.Value, bool) {
	n, b := fieldLoadName(stripConv(v))
	if n == name {
		return b, true
	}
	if ld, ok := stripConv(v).(*ssa.UnOp); ok {
		if n, b = fieldLoadName(ld.X); n == name {
			return b, true
		}
	}
	return nil, false
}

func checkC11(w *World, r *Run) {
	ruleFields := r.Rule("metadata-field-set-agreement", "F3",
		"every field of ObjectMetadata is parsed from a request header, written to / read from the object row (system fields) by applySystemMetadataToEntity / systemMetadataFromEntity under the same name, and emitted under the header it was parsed from", 26)
	rulePut := r.Rule("put-replaces-metadata-and-tags", "F1",
		"sqlMetadataStore.PutObject applies the supplied system metadata, content type and storage class to the row it saves and, before every success return, replaces the row's tags and user metadata with the supplied sets (delete-then-insert); CreateMultipartUpload persists the supplied values on the pending row that CompleteMultipartUpload reuses, and completing over a null version removes that version's tags and user metadata with it", 9)
	ruleKeep := r.Rule("append-preserves-metadata-tags-and-class", "F3",
		"the object metadataPartStorage.AppendObject hands to the metadata store carries ContentType, Metadata, Tags and StorageClass of the object it read; the in-place SQL append copies content type, class and system metadata from the old row and touches neither tags nor user metadata", 6)
	ruleCopy := r.Rule("copy-follows-the-directives", "F1",
		"CopyObject takes content type and metadata from the request under ReplaceMetadata and from the source otherwise, tags from the request under ReplaceTags and from the source otherwise, and on the COPY branch clears WebsiteRedirectLocation after copying the source metadata (only the request can set it)", 4)

	mdT := w.Named(relMDStore, "ObjectMetadata")
	if mdT == nil {
		r.Anchor(ruleFields, "metadatastore.ObjectMetadata")
		return
	}
	fields := structFieldsOf(mdT)

	// ---- 1. field agreement
	if fn := w.SSAFunc(relSQLStore, "applySystemMetadataToEntity"); fn == nil {
		r.Anchor(ruleFields, "sql.applySystemMetadataToEntity")
	} else {
		st := fieldStoresIn(fn, false, "Entity")
		for _, f := range fields {
			if f.Name() == "UserMetadata" {
				continue
			}
			ok := false
			for _, s := range st[f.Name()] {
				if _, same := loadsField(s.val, f.Name()); same {
					ok = true
				}
				if fv, isF := s.val.(*ssa.Field); isF && fieldName(fv.X.Type(), fv.Field) == f.Name() {
					ok = true
				}
			}
			r.Check(ok, ruleFields, "applySystemMetadataToEntity writes "+f.Name(), fn.Pos(), "entity."+f.Name()+" = metadata."+f.Name(), "the "+f.Name()+" supplied on a write never reaches the object row (or lands in another column)")
		}
	}
	if fn := w.SSAFunc(relSQLStore, "systemMetadataFromEntity"); fn == nil {
		r.Anchor(ruleFields, "sql.systemMetadataFromEntity")
	} else {
		st := fieldStoresIn(fn, false, "ObjectMetadata")
		for _, f := range fields {
			if f.Name() == "UserMetadata" {
				continue
			}
			ok := false
			for _, s := range st[f.Name()] {
				if _, same := loadsField(s.val, f.Name()); same {
					ok = true
				}
			}
			r.Check(ok, ruleFields, "systemMetadataFromEntity reads "+f.Name(), fn.Pos(), "metadata."+f.Name()+" = entity."+f.Name(), "the stored "+f.Name()+" is not returned (or another column is returned in its place)")
		}
	}
	// header constants: parse and emit
	parsed := map[string]string{}
	if fn := w.SSAFunc(relServer, "parseObjectMetadataHeaders"); fn == nil {
		r.Anchor(ruleFields, "server.parseObjectMetadataHeaders")
	} else {
		for name, sts := range fieldStoresIn(fn, false, "ObjectMetadata") {
			for _, s := range sts {
				if c, _ := extractOf(s.val); c != nil && isCallNamed(c, "getHeaderAsPtr") && len(c.Call.Args) == 2 {
					if h, ok := constString(c.Call.Args[1]); ok {
						parsed[name] = strings.ToLower(h)
					}
				} else if name == "UserMetadata" {
					parsed[name] = "x-amz-meta-"
				}
			}
		}
		for _, f := range fields {
			_, ok := parsed[f.Name()]
			r.Check(ok, ruleFields, "parseObjectMetadataHeaders fills "+f.Name(), fn.Pos(), "from header "+parsed[f.Name()], "the request header for "+f.Name()+" is never parsed: the value supplied by the client is dropped")
		}
	}
	if fn := w.SSAFunc(relServer, "setMetadataHeadersFromObject"); fn == nil {
		r.Anchor(ruleFields, "server.setMetadataHeadersFromObject")
	} else {
		emitted := map[string]string{}
		allInstrs(fn, false, func(_ *ssa.Function, ins ssa.Instruction) {
			c, ok := ins.(*ssa.Call)
			if !ok || !isCallNamed(c, "Set") || len(c.Call.Args) != 3 {
				return
			}
			var hdr string
			if h, ok := constString(c.Call.Args[1]); ok {
				hdr = strings.ToLower(h)
			} else {
				// prefix + key
				backSlice(c.Call.Args[1], false, func(x ssa.Value) {
					if k, ok := x.(*ssa.Const); ok && k.Value != nil && k.Value.Kind() == constant.String {
						hdr = strings.ToLower(constant.StringVal(k.Value))
					}
				})
			}
			backSlice(c.Call.Args[2], false, func(x ssa.Value) {
				switch y := x.(type) {
				case *ssa.FieldAddr:
					if structNameOf(y.X.Type()) == "ObjectMetadata" {
						emitted[fieldName(y.X.Type(), y.Field)] = hdr
					}
				case *ssa.Field:
					if structNameOf(y.X.Type()) == "ObjectMetadata" {
						emitted[fieldName(y.X.Type(), y.Field)] = hdr
					}
				}
			})
		})
		for _, f := range fields {
			h, ok := emitted[f.Name()]
			r.Check(ok && h == parsed[f.Name()], ruleFields, "setMetadataHeadersFromObject emits "+f.Name()+" under the header it was parsed from", fn.Pos(), "header "+h, "the stored "+f.Name()+" is returned under '"+h+"' but was accepted from '"+parsed[f.Name()]+"' (or is not returned at all)")
		}
	}

	// ---- 2. PutObject
	if fn := w.SSAFunc(relSQLStore, "sqlMetadataStore.PutObject"); fn == nil {
		r.Anchor(rulePut, "sqlMetadataStore.PutObject")
	} else {
		var objParam *ssa.Parameter
		for _, p := range fn.Params {
			if structNameOf(p.Type()) == "Object" {
				objParam = p
			}
		}
		if objParam == nil {
			r.Anchor(rulePut, "sqlMetadataStore.PutObject(obj *Object)")
			return
		}
		fromObj := func(v ssa.Value, field string) bool {
			b, ok := loadsField(v, field)
			return ok && sliceContains(b, false, func(x ssa.Value) bool { return x == ssa.Value(objParam) })
		}
		var tagsCall, umCall, sysCall *ssa.Call
		allInstrs(fn, false, func(_ *ssa.Function, ins ssa.Instruction) {
			c, ok := ins.(*ssa.Call)
			if !ok {
				return
			}
			switch {
			case isCallNamed(c, "replaceObjectTags"):
				tagsCall = c
			case isCallNamed(c, "replaceObjectUserMetadata"):
				umCall = c
			case isCallNamed(c, "applySystemMetadataToEntity"):
				sysCall = c
			}
		})
		succOK := func(c *ssa.Call) bool {
			if c == nil {
				return false
			}
			for _, ret := range returnsOf(fn) {
				if isFailureReturn(ret) || ret.Block() == fn.Recover {
					continue
				}
				if !instrDominates(c, ret) {
					return false
				}
			}
			return true
		}
		r.Check(succOK(tagsCall) && fromObj(tagsCall.Call.Args[len(tagsCall.Call.Args)-1], "Tags"), rulePut, "PutObject replaces the tag set with obj.Tags on every success path", posOrFn(tagsCall, fn), "replaceObjectTags(objectId, obj.Tags) dominates every success return", "an overwrite keeps tags of the previous object (or drops the supplied ones)")
		umOK := false
		if umCall != nil {
			if b, ok := loadsField(umCall.Call.Args[len(umCall.Call.Args)-1], "UserMetadata"); ok {
				umOK = sliceContains(b, false, func(x ssa.Value) bool { return x == ssa.Value(objParam) })
			}
		}
		r.Check(succOK(umCall) && umOK, rulePut, "PutObject replaces the user metadata with obj.Metadata.UserMetadata on every success path", posOrFn(umCall, fn), "replaceObjectUserMetadata(objectId, obj.Metadata.UserMetadata) dominates every success return", "an overwrite keeps x-amz-meta-* pairs of the previous object (or drops the supplied ones)")
		// system metadata before every save of the new row
		saved := true
		var ent ssa.Value
		if sysCall != nil {
			ent = sysCall.Call.Args[0]
		}
		allInstrs(fn, false, func(_ *ssa.Function, ins ssa.Instruction) {
			c, ok := ins.(*ssa.Call)
			if !ok || !isCallNamed(c, "SaveObject") || ent == nil {
				return
			}
			if stripConv(c.Call.Args[len(c.Call.Args)-1]) == stripConv(ent) && !instrDominates(sysCall, c) {
				saved = false
			}
		})
		sysFrom := sysCall != nil && fromObj(sysCall.Call.Args[1], "Metadata")
		r.Check(sysCall != nil && saved && sysFrom, rulePut, "PutObject applies obj.Metadata to the row before saving it", posOrFn(sysCall, fn), "applySystemMetadataToEntity(&objectEntity, obj.Metadata) dominates SaveObject(&objectEntity)", "the row is saved without the supplied system metadata")
		ent2 := fieldStoresIn(fn, false, "Entity")
		for _, f := range []string{"ContentType", "StorageClass"} {
			ok := false
			for _, s := range ent2[f] {
				if fromObj(s.val, f) {
					ok = true
				}
			}
			r.Check(ok, rulePut, "PutObject stores obj."+f+" on the new row", fn.Pos(), "Entity."+f+" = obj."+f, "the supplied "+f+" is not recorded (cleared when absent)")
		}
	}
	for _, h := range []struct{ fn, del, save string }{{"replaceObjectTags", "DeleteTagsByObjectId", "SaveTag"}, {"replaceObjectUserMetadata", "DeleteUserMetadataByObjectId", "SaveUserMetadata"}} {
		fn := w.SSAFunc(relSQLStore, "sqlMetadataStore."+h.fn)
		if fn == nil {
			r.Anchor(rulePut, "sqlMetadataStore."+h.fn)
			continue
		}
		var del, save *ssa.Call
		allInstrs(fn, false, func(_ *ssa.Function, ins ssa.Instruction) {
			if c, ok := ins.(*ssa.Call); ok {
				if isCallNamed(c, h.del) {
					del = c
				}
				if isCallNamed(c, h.save) {
					save = c
				}
			}
		})
		ok := del != nil && save != nil && instrDominates(del, save) && del.Block() == fn.Blocks[0]
		r.Check(ok, rulePut, h.fn+" deletes the old set unconditionally before inserting", fn.Pos(), h.del+" at entry, then "+h.save+" per pair", "the previous set is not removed first: replacing with fewer (or no) pairs leaves old ones behind")
	}
	if fn := w.SSAFunc(relSQLStore, "sqlMetadataStore.CreateMultipartUpload"); fn == nil {
		r.Anchor(rulePut, "sqlMetadataStore.CreateMultipartUpload")
	} else {
		has := map[string]bool{}
		allInstrs(fn, false, func(_ *ssa.Function, ins ssa.Instruction) {
			if c, ok := ins.(*ssa.Call); ok {
				for _, n := range []string{"replaceObjectTags", "replaceObjectUserMetadata", "applySystemMetadataToEntity"} {
					if isCallNamed(c, n) {
						has[n] = true
					}
				}
			}
		})
		st := fieldStoresIn(fn, false, "Entity")
		r.Check(has["replaceObjectTags"] && has["replaceObjectUserMetadata"] && has["applySystemMetadataToEntity"] && len(st["StorageClass"]) > 0 && len(st["ContentType"]) > 0, rulePut, "CreateMultipartUpload persists content type, class, metadata and tags on the pending row", fn.Pos(), "all five kinds of attributes are stored", "an attribute supplied at CreateMultipartUpload is not stored on the row the completed object reuses")
	}
	if fn := w.SSAFunc(relSQLStore, "sqlMetadataStore.CompleteMultipartUpload"); fn == nil {
		r.Anchor(rulePut, "sqlMetadataStore.CompleteMultipartUpload")
	} else {
		var dels []*ssa.Call
		var delTags, delUM *ssa.Call
		allInstrs(fn, false, func(_ *ssa.Function, ins ssa.Instruction) {
			if c, ok := ins.(*ssa.Call); ok {
				if isCallNamed(c, "DeleteObjectById", "DeleteObjectByIdAndOptimisticLockVersion") {
					dels = append(dels, c)
				}
				if isCallNamed(c, "DeleteTagsByObjectId") {
					delTags = c
				}
				if isCallNamed(c, "DeleteUserMetadataByObjectId") {
					delUM = c
				}
			}
		})
		ok := len(dels) > 0 && delTags != nil && delUM != nil
		for _, d := range dels {
			if delTags == nil || delUM == nil || !instrDominates(delTags, d) || !instrDominates(delUM, d) {
				ok = false
			}
		}
		r.Check(ok, rulePut, "CompleteMultipartUpload removes the replaced null version's tags and user metadata", fn.Pos(), "DeleteTagsByObjectId and DeleteUserMetadataByObjectId dominate the row delete", "the replaced version's tags or x-amz-meta-* rows survive it")
	}

	// ---- 3. append preserves
	if top := w.SSAFunc(relMP, "metadataPartStorage.AppendObject"); top == nil {
		r.Anchor(ruleKeep, "metadataPartStorage.AppendObject")
	} else {
		st := fieldStoresIn(top, true, "Object")
		for _, f := range []string{"ContentType", "Metadata", "Tags", "StorageClass"} {
			ok := false
			for _, s := range st[f] {
				if b, same := loadsField(s.val, f); same && sliceContains(b, false, func(x ssa.Value) bool { return isCallNamed(x, "HeadObject") }) {
					ok = true
				}
				if sliceContains(s.val, false, func(x ssa.Value) bool {
					n, b := fieldLoadName(x)
					return n == f && sliceContains(b, false, func(y ssa.Value) bool { return isCallNamed(y, "HeadObject") })
				}) {
					ok = true
				}
			}
			r.Check(ok, ruleKeep, "AppendObject carries "+f+" of the object it read", top.Pos(), "updatedObject."+f+" = existingObject."+f, "an append that is stored as a new version (versioned bucket) loses the object's "+f+": the metadata store replaces it with the empty value on the object handed in")
		}
	}
	if fn := w.SSAFunc(relSQLStore, "sqlMetadataStore.AppendObject"); fn == nil {
		r.Anchor(ruleKeep, "sqlMetadataStore.AppendObject")
	} else {
		var cas *ssa.Call
		allInstrs(fn, false, func(_ *ssa.Function, ins ssa.Instruction) {
			if c, ok := ins.(*ssa.Call); ok && isCallNamed(c, "UpdateObjectByIdAndOptimisticLockVersion") {
				cas = c
			}
		})
		keep := cas != nil
		if cas != nil {
			// the updated entity: ContentType / StorageClass from the row read, system metadata round trip
			st := fieldStoresIn(fn, false, "Entity")
			for _, f := range []string{"ContentType", "StorageClass"} {
				ok := false
				for _, s := range st[f] {
					if b, same := loadsField(s.val, f); same && sliceContains(b, false, func(x ssa.Value) bool { return isCallNamed(x, "FindObjectByBucketNameAndKey") }) && instrDominates(s.ins, cas) {
						ok = true
					}
				}
				if !ok {
					keep = false
				}
			}
			rt := false
			allInstrs(fn, false, func(_ *ssa.Function, ins ssa.Instruction) {
				if c, ok := ins.(*ssa.Call); ok && isCallNamed(c, "applySystemMetadataToEntity") && instrDominates(c, cas) {
					if sliceContains(c.Call.Args[1], false, func(x ssa.Value) bool { return isCallNamed(x, "systemMetadataFromEntity") }) {
						rt = true
					}
				}
			})
			if !rt {
				keep = false
			}
		}
		r.Check(keep, ruleKeep, "in-place append keeps content type, class and system metadata of the old row", posOrFn(cas, fn), "copied from oldObjectEntity before the CAS", "the in-place append rewrites the row without the previous content type, storage class or system metadata")
		touched := ""
		if cas != nil {
			for _, s := range sinksReachable(cas, nil, nil, func(i ssa.Instruction) bool {
				c, ok := i.(*ssa.Call)
				return ok && isCallNamed(c, "replaceObjectTags", "replaceObjectUserMetadata", "DeleteTagsByObjectId", "DeleteUserMetadataByObjectId")
			}) {
				touched = w.Pos(posOf(s))
			}
		}
		r.Check(touched == "", ruleKeep, "in-place append leaves tags and user metadata alone", posOrFn(cas, fn), "no tag / user-metadata mutation after the CAS", "the in-place append modifies tags or user metadata at "+touched)
	}

	// ---- 4. copy
	if top := w.SSAFunc(relMP, "metadataPartStorage.CopyObject"); top == nil {
		r.Anchor(ruleCopy, "metadataPartStorage.CopyObject")
	} else {
		isSrc := func(x ssa.Value) bool { return isCallNamed(x, "HeadObject", "HeadObjectVersion") }
		var lit *ssa.Function
		allInstrs(top, true, func(fn *ssa.Function, ins ssa.Instruction) {
			if c, m := mdStoreInvoke(ins); c != nil && m == "PutObject" {
				lit = fn
			}
		})
		if lit == nil {
			r.Bad(ruleCopy, "CopyObject → metadataStore.PutObject", top.Pos(), "no metadata write found")
		} else {
			st := fieldStoresIn(lit, false, "Object")
			underFlag := func(b *ssa.BasicBlock, flag string) bool {
				for _, f := range factsAt(b) {
					if n, _ := fieldLoadName(f.Val); n == flag && f.Kind == IsTrue {
						return true
					}
				}
				return false
			}
			for _, fd := range []struct{ field, flag string }{{"ContentType", "ReplaceMetadata"}, {"Metadata", "ReplaceMetadata"}, {"Tags", "ReplaceTags"}} {
				fromReq, fromSrc, bad := false, false, ""
				for _, s := range st[fd.field] {
					src := sliceContains(s.val, false, isSrc)
					req := sliceContains(s.val, false, func(x ssa.Value) bool { return isOptsParam(x, top) })
					flag := underFlag(s.ins.Block(), fd.flag)
					switch {
					case src && !req:
						fromSrc = true
						off := everyPathEstablishes(s.ins.Block(), func(f Fact) bool {
							if n, _ := fieldLoadName(f.Val); n == fd.flag && f.Kind == IsFalse {
								return true
							}
							return f.Kind == IsNil && sliceContains(f.Val, false, func(x ssa.Value) bool { return isOptsParam(x, top) })
						})
						if flag || !off {
							bad = "the source's " + fd.field + " is copied on a path where " + fd.flag + " may be set"
						}
					case req && !src:
						fromReq = true
						if !flag {
							bad = "the request's " + fd.field + " is applied although " + fd.flag + " is not set"
						}
					}
				}
				r.Check(fromReq && fromSrc && bad == "", ruleCopy, "CopyObject: "+fd.field+" follows "+fd.flag, lit.Pos(), "request value under the directive, source value otherwise", bad+" (or one of the two branches is missing)")
			}
			// WebsiteRedirectLocation cleared after copying the source metadata
			var copyStore *ssa.Store
			for _, s := range st["Metadata"] {
				if sliceContains(s.val, false, isSrc) {
					copyStore = s.ins
				}
			}
			cleared, later := false, ""
			allInstrs(lit, false, func(_ *ssa.Function, ins ssa.Instruction) {
				v, ok := isFieldStore(ins, "WebsiteRedirectLocation")
				if !ok || copyStore == nil {
					return
				}
				if isNilConst(stripConv(v)) && instrDominates(copyStore, ins) {
					cleared = true
					return
				}
				if sliceContains(v, false, isSrc) && !sliceContains(v, false, func(x ssa.Value) bool { return isOptsParam(x, top) }) {
					later = w.Pos(posOf(ins))
				}
			})
			// and the clearing store reaches the write on every COPY path: it sits in the same block as the copy
			sameBlock := false
			if copyStore != nil {
				for _, ins := range copyStore.Block().Instrs {
					if v, ok := isFieldStore(ins, "WebsiteRedirectLocation"); ok && isNilConst(stripConv(v)) {
						sameBlock = true
					}
				}
			}
			r.Check(cleared && sameBlock && later == "", ruleCopy, "CopyObject: the source's website redirect location is never copied", lit.Pos(), "Metadata.WebsiteRedirectLocation = nil right after copying the source metadata", "the COPY branch carries x-amz-website-redirect-location of the source over to the destination")
		}
	}
	var names []string
	for _, f := range fields {
		names = append(names, f.Name())
	}
	sort.Strings(names)
	r.Note("ObjectMetadata fields: %s", strings.Join(names, ", "))
	checkC11EmptyMetadata(w, r)
	checkC11AppendCarriesOver(w, r)
	r.NotCovered("header value edge cases (combining repeated x-amz-meta-* headers, size limits), the tagging header/XML parsers, directive parsing in the copy handler; storage class on CopyObject is decided under C14 (routing-class-comes-from-the-right-source); transitions under C14 (transition-changes-only-the-storage-class)")
}
