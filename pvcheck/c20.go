package main

import (
	"go/types"

	"golang.org/x/tools/go/ssa"
)

// C20 — object-cache middleware is transparent.
//
// Structural necessary conditions decided here:
//  1. every storage.Storage method classed mutates_object is implemented by
//     *objectCacheStorageMiddleware itself (not promoted from the embedded delegator);
//  2. in each of them, every path from the inner call m.Next.<M>(..) to a return that may
//     report success passes an invalidation of both cache keys of the destination
//     (invalidateObjectCaches(ctx, <dst bucket>, <dst key>)), or the refresh idiom of
//     PutObject (body streamed into cache.Set(objectCacheKey(bucket,key)) and the head key
//     rewritten or removed on every success path), or the per-entry idiom of DeleteObjects
//     (invalidate inside the loop over the inner result's entries);
//  3. versioned and ranged reads are forwarded before any cache access;
//  4. invalidateObjectCaches removes both keys; both key functions are built from bucket
//     and key.
func init() { register("C20", checkC20) }

const relObjCache = "internal/storage/middlewares/objectcache"

func checkC20(w *World, r *Run) {
	iface := checkStorageTable(w, r)
	T := w.Named(relObjCache, "objectCacheStorageMiddleware")
	if iface == nil || T == nil {
		r.Rule("c20-anchor", "F2", "anchors resolve", 0)
		r.Anchor("c20-anchor", relObjCache+".objectCacheStorageMiddleware")
		return
	}
	ruleOv := r.Rule("cache-overrides-mutators", "F2",
		"every mutates_object method of storage.Storage is implemented by *objectCacheStorageMiddleware itself; an inherited method forwards to the inner storage without touching the cache, so cached heads/bodies go stale", 9)
	ruleInv := r.Rule("cache-invalidate-after-inner", "F1",
		"in every overriding mutator, each path from the inner call to a possibly-successful return passes invalidateObjectCaches(ctx,<dst bucket>,<dst key>) (or the PutObject refresh idiom / the DeleteObjects per-entry idiom)", 8)
	mat := overrideMatrix(T, iface)
	invalidate := w.Func(relObjCache, "objectCacheStorageMiddleware.invalidateObjectCaches")
	if invalidate == nil {
		r.Anchor(ruleInv, "objectCacheStorageMiddleware.invalidateObjectCaches")
		return
	}
	for _, m := range methodsOfClass(mObject) {
		o, ok := mat[m]
		cons := "(*objectCacheStorageMiddleware)." + m
		if !ok {
			r.Bad(ruleOv, cons, T.Obj().Pos(), "method missing from method set")
			continue
		}
		if !o.Own {
			r.Bad(ruleOv, cons, T.Obj().Pos(), "inherited from embedded "+o.Via+": the mutation bypasses the cache, a cached head/body of the key stays visible")
			continue
		}
		r.OK(ruleOv, cons, o.Func.Pos(), "own implementation")
		fn := w.Prog.FuncValue(o.Func)
		checkC20Invalidate(w, r, ruleInv, cons, m, fn, invalidate)
	}

	// 3. bypass of versioned / ranged reads
	ruleBy := r.Rule("cache-bypass-versioned-ranged", "F1",
		"HeadObject/GetObject consult the cache only when no VersionID (and, for GetObject, no range) was requested: every cache read is dominated by the edge on which opts.VersionID is nil / len(ranges)==0", 2)
	for _, m := range []string{"HeadObject", "GetObject"} {
		o := mat[m]
		cons := "(*objectCacheStorageMiddleware)." + m
		if !o.Own {
			r.Bad(ruleBy, cons, T.Obj().Pos(), "read method not overridden (cache unused) — rule anchor lost")
			continue
		}
		fn := w.Prog.FuncValue(o.Func)
		checkC20Bypass(w, r, ruleBy, cons, m, fn)
	}

	// 4. invalidate removes both keys
	ruleBoth := r.Rule("cache-invalidate-both-keys", "F3",
		"invalidateObjectCaches calls cache.Remove with objectCacheKey(bucket,key) and with headCacheKey(bucket,key)", 2)
	ifn := w.Prog.FuncValue(invalidate)
	for _, keyFn := range []string{"objectCacheKey", "headCacheKey"} {
		found := false
		for _, c := range callsTo(ifn, false, func(f *types.Func) bool { return f.Name() == "Remove" }) {
			if len(c.Common().Args) == 0 {
				continue
			}
			backSlice(c.Common().Args[0], false, func(v ssa.Value) {
				if call, ok := v.(*ssa.Call); ok {
					if f := calleeObj(call); f != nil && isFunc(f, relObjCache, keyFn) {
						if len(call.Call.Args) == 2 && paramIndex(ifn, call.Call.Args[0]) == 2 && paramIndex(ifn, call.Call.Args[1]) == 3 {
							found = true
						}
					}
				}
			})
		}
		r.Check(found, ruleBoth, "invalidateObjectCaches removes "+keyFn+"(bucket,key)", invalidate.Pos(), "cache.Remove("+keyFn+"(bucketName,key))", "no cache.Remove of "+keyFn+"(bucketName,key): that entry survives a mutation")
	}
	r.NotCovered("races between a concurrent cache fill and an invalidation (schedules)")
	r.NotCovered("that the cached bytes equal the stored bytes (runtime values)")
}

// dstArgIdx gives, for each mutator, the positions of destination bucket and key among the
// call arguments (ctx is argument 0).
func dstArgIdx(method string) (int, int) {
	if method == "CopyObject" {
		return 3, 4
	}
	return 1, 2
}

func checkC20Invalidate(w *World, r *Run, rule, cons, method string, fn *ssa.Function, invalidate *types.Func) {
	var inner []ssa.CallInstruction
	for _, c := range callsTo(fn, false, func(f *types.Func) bool { return f.Name() == method }) {
		if c.Common().IsInvoke() {
			if name, _ := fieldLoadName(c.Common().Value); name == "Next" {
				inner = append(inner, c)
			}
		}
	}
	if len(inner) == 0 {
		r.Bad(rule, cons, fn.Pos(), "no call m.Next."+method+" found: the override does not forward the mutation")
		return
	}
	bi, ki := dstArgIdx(method)
	for _, ic := range inner {
		args := ic.Common().Args
		dstB, dstK := args[bi], args[ki]
		isInv := func(ins ssa.Instruction) bool {
			c, ok := ins.(ssa.CallInstruction)
			if !ok {
				return false
			}
			f := calleeObj(c)
			if f != invalidate {
				return false
			}
			a := c.Common().Args // recv, ctx, bucket, key
			return len(a) == 4 && sameValue(a[2], dstB) && sameValue(a[3], dstK)
		}
		// refresh idiom (PutObject): head key rewritten or removed
		isHeadRefresh := func(ins ssa.Instruction) bool {
			c, ok := ins.(ssa.CallInstruction)
			if !ok {
				return false
			}
			f := calleeObj(c)
			if f == nil {
				return false
			}
			var keyArg ssa.Value
			switch {
			case isFunc(f, relObjCache, "objectCacheStorageMiddleware.writeHeadToCache"):
				keyArg = c.Common().Args[2]
			case f.Name() == "Remove" && c.Common().IsInvoke():
				if n, _ := fieldLoadName(c.Common().Value); n != "cache" {
					return false
				}
				keyArg = c.Common().Args[0]
			default:
				return false
			}
			return keyDerivedFrom(keyArg, "headCacheKey", dstB, dstK)
		}
		bodySet := false
		allInstrs(fn, true, func(_ *ssa.Function, ins ssa.Instruction) {
			if c, ok := ins.(ssa.CallInstruction); ok {
				if f := calleeObj(c); f != nil && f.Name() == "Set" && c.Common().IsInvoke() && len(c.Common().Args) > 0 {
					if keyDerivedFrom(c.Common().Args[0], "objectCacheKey", dstB, dstK) {
						bodySet = true
					}
				}
			}
		})
		barrier := func(ins ssa.Instruction) bool {
			return isInv(ins) || (bodySet && isHeadRefresh(ins))
		}
		var offending []*ssa.Return
		for _, ret := range returnsReachableAvoiding(ic, barrier) {
			if !isFailureReturn(ret) {
				offending = append(offending, ret)
			}
		}
		if len(offending) == 0 {
			idiom := "invalidate on every possibly-successful path"
			if bodySet {
				idiom = "refresh idiom: body streamed into cache.Set(objectCacheKey), head rewritten/removed or invalidated on every path"
			}
			r.OK(rule, cons, ic.Pos(), idiom)
			continue
		}
		// per-entry idiom: an invalidation whose key derives from the inner call's result
		perEntry := false
		for _, c := range callsTo(fn, false, func(f *types.Func) bool { return f == invalidate }) {
			a := c.Common().Args
			if len(a) == 4 && sameValue(a[2], dstB) {
				backSlice(a[3], false, func(v ssa.Value) {
					if v == ic.Value() {
						perEntry = true
					}
				})
			}
		}
		if perEntry && method == "DeleteObjects" {
			r.OK(rule, cons, ic.Pos(), "per-entry idiom: invalidateObjectCaches(bucket, entry.Key) for the entries of the inner result")
			continue
		}
		r.Bad(rule, cons, posOf(offending[0]), "a path from the inner call reaches this return (not a certain failure) without invalidating the destination's cache keys")
	}
}

// keyDerivedFrom reports whether v's backward slice contains a call keyFn(b,k) with exactly
// these bucket/key values.
func keyDerivedFrom(v ssa.Value, keyFn string, b, k ssa.Value) bool {
	found := false
	backSlice(v, false, func(x ssa.Value) {
		if call, ok := x.(*ssa.Call); ok {
			if f := calleeObj(call); f != nil && isFunc(f, relObjCache, keyFn) && len(call.Call.Args) == 2 {
				if sameValue(call.Call.Args[0], b) && sameValue(call.Call.Args[1], k) {
					found = true
				}
			}
		}
	})
	return found
}

func checkC20Bypass(w *World, r *Run, rule, cons, method string, fn *ssa.Function) {
	// every cache access (m.cache.*, readHeadFromCache, readObjectFromCache, readGroup.Do)
	// in the method (deep) must be dominated by facts: opts == nil or opts.VersionID == nil,
	// and for GetObject len(ranges) == 0  (i.e. the forwarding early-returns come first).
	type need struct{ version, ranges bool }
	var sites []ssa.Instruction
	allInstrs(fn, false, func(_ *ssa.Function, ins ssa.Instruction) {
		c, ok := ins.(ssa.CallInstruction)
		if !ok {
			return
		}
		f := calleeObj(c)
		if f == nil {
			return
		}
		if isFunc(f, relObjCache, "objectCacheStorageMiddleware.readHeadFromCache") || isFunc(f, relObjCache, "objectCacheStorageMiddleware.readObjectFromCache") {
			sites = append(sites, ins)
			return
		}
		if c.Common().IsInvoke() {
			if n, _ := fieldLoadName(c.Common().Value); n == "cache" {
				sites = append(sites, ins)
			}
		}
	})
	if len(sites) == 0 {
		r.Bad(rule, cons, fn.Pos(), "no cache access found in the read method (anchor lost)")
		return
	}
	optsIdx, rangesIdx := -1, -1
	for i, p := range fn.Params {
		switch p.Name() {
		case "opts":
			optsIdx = i
		case "ranges":
			rangesIdx = i
		}
	}
	if optsIdx < 0 || (method == "GetObject" && rangesIdx < 0) {
		r.Bad(rule, cons, fn.Pos(), "parameters opts/ranges not found (anchor lost)")
		return
	}
	opts := fn.Params[optsIdx]
	noVersion := func(f Fact) bool {
		if f.Kind != IsNil {
			return false
		}
		if f.Val == opts {
			return true
		}
		if n, base := fieldLoadName(f.Val); n == "VersionID" && base == opts {
			return true
		}
		return false
	}
	for _, s := range sites {
		if !everyPathEstablishes(s.Block(), noVersion) {
			r.Bad(rule, cons, posOf(s), "a path reaches this cache access with opts.VersionID possibly set: a versioned read could be answered from the cache of the current version")
			return
		}
		if method == "GetObject" {
			ranges := fn.Params[rangesIdx]
			if !everyPathEstablishes(s.Block(), func(f Fact) bool { return factSaysEmpty(f, func(v ssa.Value) bool { return v == ranges }) }) {
				r.Bad(rule, cons, posOf(s), "a path reaches this cache access with len(ranges) possibly > 0: a ranged read could be answered with the whole cached body")
				return
			}
		}
	}
	r.OK(rule, cons, fn.Pos(), "every cache access is reached only with opts==nil/opts.VersionID==nil"+map[bool]string{true: " and len(ranges)==0", false: ""}[method == "GetObject"])
}

