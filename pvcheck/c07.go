package main

import (
	"fmt"
	"go/types"
	"os"
	"path/filepath"
	"regexp"
	"sort"
	"strconv"
	"strings"

	"golang.org/x/tools/go/ssa"
)

// C07 — conditional writes are atomic.
func init() { register("C07", checkC07) }

func checkC07(w *World, r *Run) {
	stmts := collectSQL(w)
	checkSQLSiblings(w, r, stmts, map[string]bool{"object": true}, 21)
	ruleCAS := r.Rule("conditional-write-locks-the-row-it-read", "F1",
		"in sql PutObject / CompleteMultipartUpload every row mutation is reachable only through the CAS UpdateObjectByIdAndOptimisticLockVersion(row, row.OptimisticLockVersion) (whose false result returns ErrPreconditionFailed) unless the path established: no options, neither If-Match nor If-None-Match:* given, or no current row; the conditional unversioned DeleteObject locks and deletes with the version it read", 3)
	ruleUnique := r.Rule("if-none-match-insert-maps-unique-violation", "F1",
		"every insert of the new row in PutObject/CompleteMultipartUpload/AppendObject maps isUniqueConstraintViolation(err) under IfNoneMatchStar to ErrPreconditionFailed (two concurrent creators: the loser is told so)", 4)
	ruleSQL := r.Rule("cas-statements-and-unique-index", "F4",
		"the CAS UPDATE/DELETE statements are conditioned on optimistic_lock_version = $n and the UPDATE increments it; after all up-migrations both databases keep a unique index on objects(bucket_name, key, upload_status, is_latest) for completed latest rows", 8)
	ruleFwd := r.Rule("conditions-forwarded-or-forced-synchronous", "F3",
		"the S3 client backend reads every conditional field of PutObjectOptions, CompleteMultipartUploadOptions and DeleteObjectOptions; the storage outbox forces puts and deletes carrying a condition onto the synchronous path", 7)

	// ---- 1. CAS coverage
	for _, name := range []string{"PutObject", "CompleteMultipartUpload"} {
		fn := w.SSAFunc(relSQLStore, "sqlMetadataStore."+name)
		cons := "(*sqlMetadataStore)." + name
		if fn == nil {
			r.Anchor(ruleCAS, cons)
			continue
		}
		var cas *ssa.Call
		allInstrs(fn, false, func(_ *ssa.Function, ins ssa.Instruction) {
			if c, ok := ins.(*ssa.Call); ok && c.Call.IsInvoke() && c.Call.Method.Name() == "UpdateObjectByIdAndOptimisticLockVersion" {
				cas = c
			}
		})
		if cas == nil {
			r.Bad(ruleCAS, cons, fn.Pos(), "no CAS (UpdateObjectByIdAndOptimisticLockVersion) found: a conditional writer that observed an older row silently overwrites a newer one")
			continue
		}
		// version argument = OptimisticLockVersion of a loaded row R
		var row ssa.Value
		if n, base := fieldLoadName(cas.Call.Args[3]); n == "OptimisticLockVersion" {
			row = base
		}
		if row == nil {
			r.Bad(ruleCAS, cons, posOf(cas), "the CAS is not keyed with the OptimisticLockVersion of the row that was read")
			continue
		}
		// failure → ErrPreconditionFailed
		failOK := false
		for _, ret := range returnsOf(fn) {
			ei := errorResultIndex(fn)
			v := retResult(ret, ei)
			if ld, ok := stripConv(v).(*ssa.UnOp); ok {
				if g, ok := ld.X.(*ssa.Global); ok && g.Name() == "ErrPreconditionFailed" {
					for _, f := range factsAt(ret.Block()) {
						if f.Kind == IsFalse {
							inner := false
							backSlice(f.Val, false, func(x ssa.Value) {
								if x == ssa.Value(cas) {
									inner = true
								}
							})
							if inner {
								failOK = true
							}
						}
					}
				}
			}
		}
		// every later mutation passes the CAS or an acceptable bypass
		acceptable := func(f Fact) bool {
			switch f.Kind {
			case IsNil:
				if p, ok := f.Val.(*ssa.Parameter); ok && p.Name() == "opts" {
					return true
				}
				if sameValue(f.Val, row) {
					return true
				}
			case IsFalse:
				if n, _ := fieldLoadName(f.Val); n == "IfNoneMatchStar" {
					return true
				}
			}
			return false
		}
		casBlock := cas.Block()
		edgeOK := func(d *ssa.BasicBlock, k int) bool {
			if d.Succs[k] == casBlock {
				return true
			}
			for _, f := range edgeFacts(d, k) {
				if !acceptable(f) {
					continue
				}
				if f.Kind == IsFalse {
					// "no If-None-Match:*" only bypasses the CAS when "no If-Match" was
					// established before reaching this test
					noIfMatch := false
					for _, g := range factsAt(d) {
						if n, _ := fieldLoadName(g.Val); n == "IfMatchETag" && g.Kind == IsNil {
							noIfMatch = true
						}
					}
					if !noIfMatch {
						continue
					}
				}
				return true
			}
			return false
		}
		uncovered := ""
		lostCAS := ""
		nMut := 0
		allInstrs(fn, false, func(_ *ssa.Function, ins ssa.Instruction) {
			c, ok := ins.(ssa.CallInstruction)
			if !ok || ins == ssa.Instruction(cas) {
				return
			}
			m := ""
			if c.Common().IsInvoke() {
				m = c.Common().Method.Name()
			} else if sc := c.Common().StaticCallee(); sc != nil {
				m = sc.Name()
			}
			if m != "SaveObject" && !strings.HasPrefix(m, "DeleteObjectById") && !strings.HasPrefix(m, "removePartRows") && m != "savePartRows" {
				return
			}
			nMut++
			if !everyPathCrosses(c.Block(), edgeOK) {
				uncovered = m + " at " + w.Pos(posOf(c))
			}
			// after the CAS, a mutation may only run when the CAS reported success
			if reachableBlocks(casBlock)[c.Block()] && c.Block() != casBlock {
				if !everyPathFromCrosses(casBlock, c.Block(), edgeEstablishes(func(f Fact) bool {
					if f.Kind != IsTrue {
						return false
					}
					hit := false
					backSlice(f.Val, false, func(x ssa.Value) {
						if x == ssa.Value(cas) {
							hit = true
						}
					})
					return hit
				})) {
					lostCAS = m + " at " + w.Pos(posOf(c))
				}
			}
		})
		why := ""
		if !failOK {
			why += "a failed CAS does not return ErrPreconditionFailed; "
		}
		if lostCAS != "" {
			why += "mutation " + lostCAS + " can run after the CAS reported a lost race (locked == false); "
		}
		if uncovered != "" {
			why += "mutation " + uncovered + " is reachable for a conditional write with a current row without passing the CAS; "
		}
		r.Check(why == "" && nMut > 0, ruleCAS, cons, posOf(cas), fmt.Sprintf("%d mutations behind the CAS or an unconditional path", nMut), why)
	}
	// conditional unversioned delete: CAS with read version, then delete by the locked version
	if del := w.SSAFunc(relSQLStore, "sqlMetadataStore.DeleteObject"); del != nil {
		var cas, delCAS *ssa.Call
		allInstrs(del, false, func(_ *ssa.Function, ins ssa.Instruction) {
			if c, ok := ins.(*ssa.Call); ok && c.Call.IsInvoke() {
				switch c.Call.Method.Name() {
				case "UpdateObjectByIdAndOptimisticLockVersion":
					cas = c
				case "DeleteObjectByIdAndOptimisticLockVersion":
					delCAS = c
				}
			}
		})
		good := cas != nil && delCAS != nil && instrDominates(cas, delCAS)
		if good {
			n, _ := fieldLoadName(cas.Call.Args[3])
			n2, _ := fieldLoadName(delCAS.Call.Args[3])
			condOK := false
			for _, f := range factsAt(cas.Block()) {
				if nm, _ := fieldLoadName(f.Val); nm == "IfMatchETag" && f.Kind == NonNil {
					condOK = true
				}
			}
			good = n == "OptimisticLockVersion" && n2 == "OptimisticLockVersion" && condOK
		}
		r.Check(good, ruleCAS, "(*sqlMetadataStore).DeleteObject conditional unversioned delete", del.Pos(), "CAS lock then DeleteObjectByIdAndOptimisticLockVersion under IfMatchETag != nil", "the conditional delete does not lock and delete with the optimistic lock version it read")
	} else {
		r.Anchor(ruleCAS, "sqlMetadataStore.DeleteObject")
	}
	// conditional deletes in versioned buckets create a marker after an ETag check inside the tx: not a CAS (noted)
	r.Note("conditional key-only deletes in versioning-enabled/suspended buckets compare the ETag inside the write transaction and then insert a delete marker; their atomicity rests on the database's write serialisation (SQLite immediate transactions / row locks on pgx via FOR UPDATE), not on the optimistic lock — not decided here")

	// ---- 2. unique violation mapping
	isUV := w.Func(relSQLStore, "isUniqueConstraintViolation")
	for _, name := range []string{"PutObject", "CompleteMultipartUpload"} {
		fn := w.SSAFunc(relSQLStore, "sqlMetadataStore."+name)
		if fn == nil || isUV == nil {
			r.Anchor(ruleUnique, "sqlMetadataStore."+name)
			continue
		}
		n := 0
		for _, c := range objectRepoWrites(w) {
			if c.Parent() != fn || c.Common().Method.Name() != "SaveObject" {
				continue
			}
			o := originOfEntity(c.Common().Args[2])
			// the new row: insert, null-version replacement or the pending upload row being completed
			isNew := o.kind == "insert" || o.kind == "replace"
			if o.kind == "row" && len(o.sources) == 1 && o.sources[0] == "FindObjectByBucketNameAndKeyAndUploadId" {
				isNew = true
			}
			if !isNew {
				continue
			}
			n++
			errV := errResultOf(c)
			mapped := false
			for _, ret := range returnsOf(fn) {
				v := retResult(ret, errorResultIndex(fn))
				ld, ok := stripConv(v).(*ssa.UnOp)
				if !ok {
					continue
				}
				g, ok := ld.X.(*ssa.Global)
				if !ok || g.Name() != "ErrPreconditionFailed" {
					continue
				}
				uv, star, failed := false, false, false
				for _, f := range factsAt(ret.Block()) {
					if cc, _ := callOf(f.Val); cc != nil && f.Kind == IsTrue && calleeObj(cc) == isUV && sameValue(cc.Call.Args[0], errV) {
						uv = true
					}
					if nm, _ := fieldLoadName(f.Val); nm == "IfNoneMatchStar" && f.Kind == IsTrue {
						star = true
					}
					if f.Kind == NonNil && sameValue(f.Val, errV) {
						failed = true
					}
				}
				if uv && star && failed {
					mapped = true
				}
			}
			r.Check(mapped, ruleUnique, fmt.Sprintf("(*sqlMetadataStore).%s new-row SaveObject #%d", name, n), posOf(c), "unique violation under If-None-Match:* → ErrPreconditionFailed", "a unique-constraint violation of the new row is not mapped to ErrPreconditionFailed: the losing creator gets an internal error (or worse, success)")
		}
		if n == 0 {
			r.Bad(ruleUnique, "(*sqlMetadataStore)."+name+" new-row SaveObject", fn.Pos(), "no insert of the new row found (anchor lost)")
		}
	}

	// ---- 3. SQL + migrations
	for _, s := range stmts {
		if s.Entity != "object" {
			continue
		}
		toks := normalizeDialect(s.Toks)
		where := joinToks(sqlClause(toks, "WHERE"))
		switch s.Name {
		case "updateObjectByIdAndOptimisticLockVersionStmt":
			set := joinToks(sqlClause(toks, "SET"))
			ok := regexp.MustCompile(`optimistic_lock_version = \$\d+`).MatchString(where) && strings.Contains(set, "optimistic_lock_version = optimistic_lock_version + 1")
			r.Check(ok, ruleSQL, s.Dialect+" object."+s.Name, s.Pos, "WHERE … optimistic_lock_version = $n; SET … + 1", "the CAS update is not conditioned on the lock version or does not increment it")
		case "deleteObjectByIdAndOptimisticLockVersionStmt":
			ok := regexp.MustCompile(`optimistic_lock_version = \$\d+`).MatchString(where)
			r.Check(ok, ruleSQL, s.Dialect+" object."+s.Name, s.Pos, "WHERE … optimistic_lock_version = $n", "the CAS delete is not conditioned on the lock version")
		case "updateObjectByIdStmt":
			set := joinToks(sqlClause(toks, "SET"))
			r.Check(strings.Contains(set, "optimistic_lock_version = optimistic_lock_version + 1"), ruleSQL, s.Dialect+" object."+s.Name, s.Pos, "increments the lock version", "an unconditional update does not advance the lock version: a concurrent CAS holder does not notice it")
		}
	}
	for _, d := range []string{"sqlite", "pgx"} {
		idx, err := finalUniqueIndexes(filepath.Join(w.Repo, "internal/storage/database", d, "migrations"))
		cons := d + " migrations: unique index objects(bucket_name,key,upload_status,is_latest)"
		if err != nil {
			r.Bad(ruleSQL, cons, 0, "cannot read migrations: "+err.Error())
			continue
		}
		found := ""
		for name, def := range idx {
			if strings.Contains(def, "objects ( bucket_name , key , upload_status , is_latest )") {
				found = name
			}
		}
		r.Check(found != "", ruleSQL, cons, 0, "index "+found, "after all up-migrations no unique index covers (bucket_name, key, upload_status, is_latest): two concurrent If-None-Match:* creators can both insert a latest row")
	}

	// ---- 4. forwarding
	T := w.Named(relS3Client, "s3ClientStorage")
	iface := w.Iface("internal/storage", "Storage")
	if T != nil && iface != nil {
		mat := overrideMatrix(T, iface)
		for _, mf := range []struct {
			method, opts string
			fields       []string
		}{
			{"PutObject", "PutObjectOptions", []string{"IfMatchETag", "IfNoneMatchStar"}},
			{"CompleteMultipartUpload", "CompleteMultipartUploadOptions", []string{"IfMatchETag", "IfNoneMatchStar"}},
			{"DeleteObject", "DeleteObjectOptions", []string{"IfMatchETag"}},
		} {
			fd := w.Decl(mat[mf.method].Func)
			if fd == nil {
				r.Anchor(ruleFwd, "s3ClientStorage."+mf.method)
				continue
			}
			read := map[string]bool{}
			for f := range fieldsSelectedIn(w.InfoFor(fd), fd.Body) {
				if ownerStructName(w, f) == mf.opts {
					read[f.Name()] = true
				}
			}
			for _, fl := range mf.fields {
				r.Check(read[fl], ruleFwd, "(*s3ClientStorage)."+mf.method+" forwards "+mf.opts+"."+fl, fd.Pos(), "read", "the condition is not forwarded to the S3 backend: the write is unconditional there")
			}
		}
	}
	// outbox: sync predicate
	for _, mf := range []struct {
		method, varName string
		fields          []string
	}{
		{"PutObject", "putMustBeSynchronous", []string{"IfMatchETag", "IfNoneMatchStar"}},
		{"DeleteObject", "deleteMustBeSynchronous", []string{"IfMatchETag"}},
	} {
		fobj := w.Func(relOutbox, "outboxStorage."+mf.method)
		fd := w.Decl(fobj)
		if fd == nil {
			r.Anchor(ruleFwd, "outboxStorage."+mf.method)
			continue
		}
		info := w.InfoFor(fd)
		got := map[string]bool{}
		for _, f := range assignedFrom(info, fd, mf.varName) {
			got[f.Name()] = true
		}
		for _, fl := range mf.fields {
			r.Check(got[fl], ruleFwd, "(*outboxStorage)."+mf.method+" synchronous when "+fl+" is set", fd.Pos(), "part of "+mf.varName, "a write carrying "+fl+" can be queued: its precondition would be evaluated (or dropped) at replay time")
		}
	}
	// a condition is evaluated by the inner storage: it must see every write that was
	// acknowledged before, i.e. the forward is preceded by a drain of the key's queue
	ruleDrained := r.Rule("conditions-are-evaluated-on-drained-state", "F1",
		"the outbox forwards PutObject, DeleteObject, CompleteMultipartUpload, CopyObject and AppendObject to the inner storage only after an error-checked drain covering the key's queued entries and the bucket-global ones", 5)
	checkOutboxDrain(w, r, ruleDrained, map[string]bool{"PutObject": true, "DeleteObject": true, "CompleteMultipartUpload": true, "CopyObject": true, "AppendObject": true})
	checkC07DeleteCondition(w, r)
	checkCopyDateConditions(w, r)
	r.NotCovered("interleavings of concurrent writers (the rules decide that the CAS and the unique index are on every conditional path, not the outcome of races); transaction isolation of the databases")
	_ = types.Universe
	_ = sort.Strings
}

// finalUniqueIndexes replays CREATE UNIQUE INDEX / DROP INDEX / DROP TABLE of all *.up.sql in numeric order.
func finalUniqueIndexes(dir string) (map[string]string, error) {
	files, err := filepath.Glob(filepath.Join(dir, "*.up.sql"))
	if err != nil || len(files) == 0 {
		return nil, fmt.Errorf("no up migrations in %s", dir)
	}
	num := func(p string) int {
		b := filepath.Base(p)
		n, _ := strconv.Atoi(b[:strings.Index(b, "_")])
		return n
	}
	sort.Slice(files, func(i, j int) bool { return num(files[i]) < num(files[j]) })
	idx := map[string]string{}
	for _, f := range files {
		b, err := os.ReadFile(f)
		if err != nil {
			return nil, err
		}
		for _, stmt := range strings.Split(string(b), ";") {
			toks := sqlTokens(stmt)
			j := joinToks(toks)
			up := strings.ToUpper(j)
			switch {
			case strings.HasPrefix(up, "CREATE UNIQUE INDEX"):
				name := toks[3]
				if strings.EqualFold(name, "IF") { // IF NOT EXISTS
					name = toks[6]
				}
				idx[name] = j[strings.Index(strings.ToUpper(j), " ON ")+4:]
			case strings.HasPrefix(up, "DROP INDEX"):
				name := toks[len(toks)-1]
				delete(idx, name)
			case strings.HasPrefix(up, "DROP TABLE"):
				tbl := toks[len(toks)-1]
				for n, def := range idx {
					if strings.HasPrefix(def, tbl+" ") {
						delete(idx, n)
					}
				}
			case strings.HasPrefix(up, "ALTER TABLE") && strings.Contains(up, "RENAME TO"):
				// indexes follow the table on rename in both databases; definitions keep the old
				// name in our map: rewrite
				old, nw := toks[2], toks[len(toks)-1]
				for n, def := range idx {
					if strings.HasPrefix(def, old+" ") {
						idx[n] = nw + def[len(old):]
					}
				}
			}
		}
	}
	return idx, nil
}
