package main

import (
	"fmt"
	"go/ast"
	"go/token"
	"go/types"
	"os"
	"path/filepath"
	"sort"
	"strings"

	"golang.org/x/tools/go/packages"
	"golang.org/x/tools/go/ssa"
	"golang.org/x/tools/go/ssa/ssautil"
)

const modPath = "github.com/jdillenkofer/pithos"

// World is the type-checked program loaded from the repository's current working tree.
type World struct {
	Repo     string
	Fset     *token.FileSet
	All      []*packages.Package          // pithos packages (sorted by path)
	ByPath   map[string]*packages.Package // every package incl. deps
	Prog     *ssa.Program
	SSA      map[*types.Package]*ssa.Package
	NumDeps  int
	declOf   map[*types.Func]*ast.FuncDecl
	fileOf   map[*ast.FuncDecl]*packages.Package
	callers  map[*ssa.Function][]ssa.Instruction // static call sites + MakeClosure sites
	escapes  map[*ssa.Function][]ssa.Instruction // function used as a value (not called)
	allFuncs []*ssa.Function                     // every pithos function incl. anonymous
}

func loadWorld(repo string) (*World, error) {
	cfg := &packages.Config{
		Mode:  packages.LoadAllSyntax,
		Dir:   repo,
		Tests: false,
		Env:   append(os.Environ(), "GOOS=linux", "GOARCH=amd64", "CGO_ENABLED=1"),
	}
	pkgs, err := packages.Load(cfg, "./...")
	if err != nil {
		return nil, fmt.Errorf("packages.Load: %w", err)
	}
	w := &World{Repo: repo, ByPath: map[string]*packages.Package{}, SSA: map[*types.Package]*ssa.Package{},
		declOf: map[*types.Func]*ast.FuncDecl{}, fileOf: map[*ast.FuncDecl]*packages.Package{}}
	var errs []string
	packages.Visit(pkgs, nil, func(p *packages.Package) {
		w.ByPath[p.PkgPath] = p
		for _, e := range p.Errors {
			errs = append(errs, e.Error())
		}
	})
	if len(errs) > 0 {
		sort.Strings(errs)
		if len(errs) > 10 {
			errs = errs[:10]
		}
		return nil, fmt.Errorf("tree does not type-check (%d errors): %s", len(errs), strings.Join(errs, "; "))
	}
	for _, p := range pkgs {
		if strings.HasPrefix(p.PkgPath, modPath) {
			w.All = append(w.All, p)
		}
	}
	sort.Slice(w.All, func(i, j int) bool { return w.All[i].PkgPath < w.All[j].PkgPath })
	if len(w.All) < 100 {
		return nil, fmt.Errorf("only %d pithos packages loaded (expected >= 100)", len(w.All))
	}
	w.NumDeps = len(w.ByPath) - len(w.All)
	if len(w.All) > 0 {
		w.Fset = w.All[0].Fset
	}
	for _, p := range w.All {
		for _, f := range p.Syntax {
			for _, d := range f.Decls {
				if fd, ok := d.(*ast.FuncDecl); ok {
					if obj, ok := p.TypesInfo.Defs[fd.Name].(*types.Func); ok {
						w.declOf[obj] = fd
						w.fileOf[fd] = p
					}
				}
			}
		}
	}
	return w, nil
}

// buildSSA builds SSA form for the pithos packages (dependencies are created from their
// syntax too but only built on demand by callers that need whole-program graphs).
func (w *World) buildSSA(whole bool) {
	if w.Prog != nil {
		return
	}
	var roots []*packages.Package
	for _, p := range w.All {
		roots = append(roots, p)
	}
	prog, _ := ssautil.AllPackages(roots, ssa.BuilderMode(0))
	w.Prog = prog
	for _, sp := range prog.AllPackages() {
		w.SSA[sp.Pkg] = sp
	}
	if whole {
		prog.Build()
	} else {
		for _, p := range w.All {
			if sp := w.SSA[p.Types]; sp != nil {
				sp.Build()
			}
		}
	}
	w.indexFuncs()
}

func (w *World) indexFuncs() {
	w.callers = map[*ssa.Function][]ssa.Instruction{}
	w.escapes = map[*ssa.Function][]ssa.Instruction{}
	seen := map[*ssa.Function]bool{}
	var add func(fn *ssa.Function)
	add = func(fn *ssa.Function) {
		if fn == nil || seen[fn] {
			return
		}
		seen[fn] = true
		w.allFuncs = append(w.allFuncs, fn)
		for _, a := range fn.AnonFuncs {
			add(a)
		}
	}
	for _, p := range w.All {
		sp := w.SSA[p.Types]
		if sp == nil {
			continue
		}
		for _, m := range sp.Members {
			switch m := m.(type) {
			case *ssa.Function:
				add(m)
			case *ssa.Type:
				for _, T := range []types.Type{m.Type(), types.NewPointer(m.Type())} {
					ms := w.Prog.MethodSets.MethodSet(T)
					for i := 0; i < ms.Len(); i++ {
						if f := w.Prog.MethodValue(ms.At(i)); f != nil && f.Synthetic == "" {
							add(f)
						}
					}
				}
			}
		}
	}
	sort.Slice(w.allFuncs, func(i, j int) bool { return w.allFuncs[i].String() < w.allFuncs[j].String() })
	for _, fn := range w.allFuncs {
		for _, b := range fn.Blocks {
			for _, ins := range b.Instrs {
				var calleeVal ssa.Value
				if c, ok := ins.(ssa.CallInstruction); ok {
					calleeVal = c.Common().Value
					if sc := c.Common().StaticCallee(); sc != nil {
						w.callers[sc] = append(w.callers[sc], ins)
					}
				}
				if mc, ok := ins.(*ssa.MakeClosure); ok {
					if f, ok := mc.Fn.(*ssa.Function); ok {
						w.callers[f] = append(w.callers[f], ins)
					}
					continue
				}
				for _, op := range ins.Operands(nil) {
					if op == nil || *op == nil {
						continue
					}
					if f, ok := (*op).(*ssa.Function); ok && *op != calleeVal {
						w.escapes[f] = append(w.escapes[f], ins)
					}
				}
			}
		}
	}
}

// Pkg returns the pithos package whose import path ends in suffix (exact after module path).
func (w *World) Pkg(rel string) *packages.Package {
	return w.ByPath[modPath+"/"+rel]
}

func (w *World) lookup(rel, name string) types.Object {
	p := w.Pkg(rel)
	if p == nil {
		return nil
	}
	return p.Types.Scope().Lookup(name)
}

// Named returns the named type rel.name, or nil.
func (w *World) Named(rel, name string) *types.Named {
	o := w.lookup(rel, name)
	if o == nil {
		return nil
	}
	n, _ := types.Unalias(o.Type()).(*types.Named)
	return n
}

func (w *World) Iface(rel, name string) *types.Interface {
	n := w.Named(rel, name)
	if n == nil {
		return nil
	}
	i, _ := n.Underlying().(*types.Interface)
	return i
}

// Func returns the package-level function or the method "T.m" / "(*T).m" of package rel.
func (w *World) Func(rel, name string) *types.Func {
	if strings.Contains(name, ".") {
		recv, m, _ := strings.Cut(name, ".")
		recv = strings.Trim(recv, "(*)")
		n := w.Named(rel, recv)
		if n == nil {
			return nil
		}
		for i := 0; i < n.NumMethods(); i++ {
			if n.Method(i).Name() == m {
				return n.Method(i)
			}
		}
		return nil
	}
	f, _ := w.lookup(rel, name).(*types.Func)
	return f
}

func (w *World) SSAFunc(rel, name string) *ssa.Function {
	f := w.Func(rel, name)
	if f == nil {
		return nil
	}
	return w.Prog.FuncValue(f)
}

func (w *World) Decl(f *types.Func) *ast.FuncDecl { return w.declOf[f] }

func (w *World) InfoFor(fd *ast.FuncDecl) *types.Info {
	if p := w.fileOf[fd]; p != nil {
		return p.TypesInfo
	}
	return nil
}

func (w *World) Pos(p token.Pos) string {
	if !p.IsValid() {
		return "-"
	}
	pos := w.Fset.Position(p)
	rel, err := filepath.Rel(w.Repo, pos.Filename)
	if err != nil || strings.HasPrefix(rel, "..") {
		rel = pos.Filename
	}
	return fmt.Sprintf("%s:%d", rel, pos.Line)
}

// funcName gives a stable printable name for an SSA function relative to the module.
func funcName(fn *ssa.Function) string {
	if fn == nil {
		return "<nil>"
	}
	s := fn.String()
	s = strings.ReplaceAll(s, modPath+"/", "")
	return s
}

func objName(f *types.Func) string {
	if f == nil {
		return "<nil>"
	}
	s := f.FullName()
	return strings.ReplaceAll(s, modPath+"/", "")
}

// methodsOf lists the method names of an interface, sorted.
func methodsOf(i *types.Interface) []string {
	var out []string
	for k := 0; k < i.NumMethods(); k++ {
		out = append(out, i.Method(k).Name())
	}
	sort.Strings(out)
	return out
}

func pkgRel(p *types.Package) string {
	if p == nil {
		return ""
	}
	return strings.TrimPrefix(strings.TrimPrefix(p.Path(), modPath), "/")
}

// SSAFuncInit returns the synthesized package initializer (global variable initialisers).
func (w *World) SSAFuncInit(rel string) *ssa.Function {
	p := w.Pkg(rel)
	if p == nil {
		return nil
	}
	sp := w.Prog.Package(p.Types)
	if sp == nil {
		return nil
	}
	return sp.Func("init")
}
