package main

import (
	"fmt"
	"go/constant"
	"go/token"
	"math"
	"strings"

	"golang.org/x/tools/go/ssa"
)

// C05 — range reads return exactly the requested slice.
func init() { register("C05", checkC05) }

func isMaxInt64(v ssa.Value) bool {
	k, ok := v.(*ssa.Const)
	if !ok || k.Value == nil || k.Value.Kind() != constant.Int {
		return false
	}
	i, exact := constant.Int64Val(k.Value)
	return exact && i == math.MaxInt64
}

func checkC05(w *World, r *Run) {
	ruleOvf := r.Rule("parsed-positions-cannot-overflow", "F9",
		"in the HTTP server every + or * on a value parsed with strconv.ParseInt(_, 10, 64) is dominated by a comparison of that value with math.MaxInt64 (the inclusive→exclusive conversion of a last-byte-pos must saturate, not wrap)", 1)
	ruleNorm := r.Rule("readers-are-built-from-normalised-ranges", "F9",
		"every ByteRange handed to createRangeReader is an element of the slice normalizeAndValidateRanges returned for the Size of the same object (suffix ranges resolved, ends clamped)", 3)
	rule416 := r.Rule("416-only-for-unsatisfiable-ranges", "F1",
		"the server writes 416 only where the Range header failed to parse or the storage answered ErrInvalidRange; normalizeAndValidateRanges answers ErrInvalidRange for a request only when none of its ranges is satisfiable", 3)
	ruleSib := r.Rule("range-arithmetic-siblings-agree", "F7",
		"the three places that turn a parsed range into offsets (storage normalisation, the handler's Content-Length computation, generateContentRangeValue) clamp an explicit end with min(end, size) and resolve a suffix with min(n, size) counted from the end", 5)

	// ---- 1. overflow
	n := 0
	for _, fn := range w.allFuncs {
		if fn.Pkg == nil || pkgRel(fn.Pkg.Pkg) != relServer {
			continue
		}
		for _, b := range fn.Blocks {
			for _, ins := range b.Instrs {
				bo, ok := ins.(*ssa.BinOp)
				if !ok || (bo.Op != token.ADD && bo.Op != token.MUL) {
					continue
				}
				var parsed ssa.Value
				for _, opnd := range []ssa.Value{bo.X, bo.Y} {
					if sliceContains(opnd, false, func(x ssa.Value) bool {
						e, ok := x.(*ssa.Extract)
						if !ok || e.Index != 0 {
							return false
						}
						c, ok := e.Tuple.(*ssa.Call)
						if !ok || !isCallNamed(c, "ParseInt") || len(c.Call.Args) != 3 {
							return false
						}
						bits, isc := intConst(c.Call.Args[2])
						return isc && bits == 64
					}) {
						// only direct uses (loads/derefs), not values that went through other arithmetic
						if _, isBin := stripConv(opnd).(*ssa.BinOp); !isBin {
							parsed = opnd
						}
					}
				}
				if parsed == nil {
					continue
				}
				n++
				cons := fmt.Sprintf("%s: %s on a parsed 64-bit value #%d", funcName(topFunc(fn)), bo.Op, n)
				guarded := false
				for _, f := range factsAt(b) {
					cmp, ok := f.Val.(*ssa.BinOp)
					if !ok {
						if f.Kind == NeConst && f.Const != nil && isMaxInt64(f.Const) && samePartValue(f.Val, parsed) {
							guarded = true
						}
						continue
					}
					if f.Kind == IsTrue && cmp.Op == token.LSS && isMaxInt64(cmp.Y) && samePartValue(cmp.X, parsed) {
						guarded = true
					}
					if f.Kind == IsFalse && (cmp.Op == token.GEQ || cmp.Op == token.EQL) && isMaxInt64(cmp.Y) && samePartValue(cmp.X, parsed) {
						guarded = true
					}
				}
				r.Check(guarded, ruleOvf, cons, posOf(ins), "dominated by value < math.MaxInt64", "arithmetic on a client-supplied 64-bit position without an overflow guard: bytes=0-9223372036854775807 wraps to a negative end and a satisfiable range is answered 416")
			}
		}
	}

	// ---- 2. normalised ranges
	crr := w.SSAFunc(relMP, "metadataPartStorage.createRangeReader")
	if crr == nil {
		r.Anchor(ruleNorm, "metadataPartStorage.createRangeReader")
	} else {
		ord := map[string]int{}
		for _, ci := range w.callers[crr] {
			c, ok := ci.(*ssa.Call)
			if !ok {
				continue
			}
			top := funcName(topFunc(c.Parent()))
			ord[top]++
			cons := fmt.Sprintf("%s → createRangeReader #%d", top, ord[top])
			br := c.Call.Args[len(c.Call.Args)-1]
			obj := c.Call.Args[len(c.Call.Args)-2]
			var norm *ssa.Call
			backSlice(br, false, func(x ssa.Value) {
				if cc, ok := x.(*ssa.Call); ok && isCallNamed(cc, "normalizeAndValidateRanges") {
					norm = cc
				}
			})
			if norm == nil {
				r.Bad(ruleNorm, cons, posOf(c), "the range does not come from normalizeAndValidateRanges: a suffix range (Start=nil) is read as a prefix and an end beyond the object is not clamped")
				continue
			}
			sn, sb := fieldLoadName(norm.Call.Args[1])
			sameObj := sn == "Size" && (sameValue(sb, obj) || samePartValue(sb, obj))
			r.Check(sameObj, ruleNorm, cons, posOf(c), "normalised against the Size of the same object", "the ranges were normalised against a size that is not the Size of the object the reader is built over")
		}
	}

	// ---- 3. 416
	n416 := 0
	for _, fn := range w.allFuncs {
		if fn.Pkg == nil || pkgRel(fn.Pkg.Pkg) != relServer {
			continue
		}
		for _, b := range fn.Blocks {
			for _, ins := range b.Instrs {
				var is416 bool
				switch x := ins.(type) {
				case ssa.CallInstruction:
					if x.Common().IsInvoke() && x.Common().Method.Name() == "WriteHeader" {
						if k, isc := intConst(x.Common().Args[0]); isc && k == 416 {
							is416 = true
						}
					}
				}
				if !is416 {
					continue
				}
				n416++
				good := false
				for _, f := range factsAt(b) {
					if f.Kind == NonNil && sliceContains(f.Val, false, func(y ssa.Value) bool { return isCallNamed(y, "parseRangeHeader") }) {
						good = true
					}
				}
				r.Check(good, rule416, fmt.Sprintf("%s: WriteHeader(416) #%d", funcName(topFunc(fn)), n416), posOf(ins), "only where parseRangeHeader failed", "416 is written on a path that is not a Range parse failure")
			}
		}
	}
	if he := w.SSAFunc(relServer, "handleError"); he == nil {
		r.Anchor(rule416, "server.handleError")
	} else {
		good, cnt := true, 0
		allInstrs(he, false, func(_ *ssa.Function, ins ssa.Instruction) {
			// phi edges / stores carrying the constant 416
			check := func(v ssa.Value, from *ssa.BasicBlock) {
				if k, isc := intConst(v); !isc || k != 416 {
					return
				}
				cnt++
				ok := false
				for _, f := range factsAt(from) {
					if f.Kind == EqConst && f.Other != nil && (globalErrLoaded(f.Other, "ErrInvalidRange") || globalErrLoaded(f.Val, "ErrInvalidRange")) {
						ok = true
					}
				}
				if !ok {
					good = false
				}
			}
			switch x := ins.(type) {
			case *ssa.Phi:
				for i, e := range x.Edges {
					check(e, x.Block().Preds[i])
				}
			case *ssa.Store:
				check(x.Val, x.Block())
			}
		})
		r.Check(good && cnt > 0, rule416, "handleError: 416 only for ErrInvalidRange", he.Pos(), "statusCode = 416 under err == ErrInvalidRange", "an error other than ErrInvalidRange is answered 416 (or ErrInvalidRange no longer is)")
	}
	// per-range failure
	if nf := w.SSAFunc(relMP, "normalizeAndValidateRanges"); nf == nil {
		r.Anchor(rule416, "metadatapart.normalizeAndValidateRanges")
	} else {
		inLoopFail := ""
		for _, ret := range returnsOf(nf) {
			if !returnsErr(ret, "ErrInvalidRange") {
				continue
			}
			// inside the range loop and not conditioned on the number of ranges / satisfiable count
			loop := false
			for d := ret.Block(); d != nil; d = d.Idom() {
				if strings.Contains(d.Comment, "rangeindex.body") || strings.Contains(d.Comment, "range.body") {
					loop = true
				}
			}
			counted := false
			for _, f := range factsAt(ret.Block()) {
				if f.If != nil && isLoopTest(f.If) {
					continue
				}
				if bo, ok := f.Val.(*ssa.BinOp); ok && (isLenOf(bo.X, func(ssa.Value) bool { return true }) || isLenOf(bo.Y, func(ssa.Value) bool { return true })) {
					counted = true
				}
				if f.Const != nil && isLenOf(f.Val, func(ssa.Value) bool { return true }) {
					counted = true
				}
			}
			if loop && !counted {
				inLoopFail = w.Pos(posOf(ret))
			}
		}
		r.Check(inLoopFail == "", rule416, "normalizeAndValidateRanges: one unsatisfiable range does not fail a multi-range request", nf.Pos(), "ErrInvalidRange only when no range is satisfiable", "ErrInvalidRange is returned from inside the per-range loop ("+inLoopFail+") regardless of the other ranges: bytes=0-1,100-200 on a 10 byte object is answered 416 although bytes=0-1 is satisfiable")
	}

	// ---- 4. siblings
	minOver := func(fn *ssa.Function) (endClamp, suffix int) {
		allInstrs(fn, true, func(_ *ssa.Function, ins ssa.Instruction) {
			c, ok := ins.(*ssa.Call)
			if !ok || !isBuiltinCall(c, "min") || len(c.Call.Args) != 2 {
				return
			}
			endSide, sizeSide := false, false
			for _, a := range c.Call.Args {
				if derivesFromFieldOf(a, "End", nil) {
					endSide = true
				} else if derivesFromFieldOf(a, "Size", nil) {
					sizeSide = true
				} else if p, ok := unspill(stripConv(a)).(*ssa.Parameter); ok && strings.Contains(strings.ToLower(p.Name()), "size") {
					sizeSide = true
				}
			}
			if !endSide || !sizeSide {
				return
			}
			// suffix: under Start == nil
			suf := false
			for _, f := range factsAt(c.Block()) {
				if nm, _ := fieldLoadName(f.Val); nm == "Start" && f.Kind == IsNil {
					suf = true
				}
			}
			if suf {
				suffix++
			} else {
				endClamp++
			}
		})
		return
	}
	if nf := w.SSAFunc(relMP, "normalizeAndValidateRanges"); nf != nil {
		_, suf := minOver(nf)
		// explicit clamp: a store of the size into End under *End > size
		clamp := false
		allInstrs(nf, false, func(_ *ssa.Function, ins ssa.Instruction) {
			v, ok := isFieldStore(ins, "End")
			if !ok {
				return
			}
			for _, f := range factsAt(ins.Block()) {
				if bo, ok := f.Val.(*ssa.BinOp); ok && f.Kind == IsTrue && bo.Op == token.GTR && derivesFromFieldOf(bo.X, "End", nil) {
					if sliceContains(v, false, func(x ssa.Value) bool {
						p, ok := x.(*ssa.Parameter)
						return ok && strings.Contains(strings.ToLower(p.Name()), "size")
					}) {
						clamp = true
					}
				}
			}
		})
		r.Check(suf >= 1, ruleSib, "normalizeAndValidateRanges resolves a suffix with min(n, size)", nf.Pos(), "suffixLength = min(*End, objectSize); start = size − suffixLength", "the suffix length is not capped at the object size: bytes=-N with N larger than the object starts before byte 0")
		r.Check(clamp, ruleSib, "normalizeAndValidateRanges clamps an end beyond the object", nf.Pos(), "*End > objectSize → End = objectSize", "an end beyond the object is not clamped to its size (RFC 7233 requires the remainder to be served)")
	} else {
		r.Anchor(ruleSib, "metadatapart.normalizeAndValidateRanges")
	}
	for _, name := range []string{"generateContentRangeValue", "Server.getObjectHandler"} {
		fn := w.SSAFunc(relServer, name)
		if fn == nil {
			r.Anchor(ruleSib, "server."+name)
			continue
		}
		ec, suf := minOver(fn)
		r.Check(ec >= 1 && suf >= 1, ruleSib, name+" clamps ends and suffixes like the storage layer", fn.Pos(), fmt.Sprintf("%d end clamp(s), %d suffix cap(s) with min(…, size)", ec, suf), "the declared Content-Length / Content-Range is computed without the clamping the storage layer applies: header and body disagree for ranges reaching beyond the object")
	}
	// suffix start counted from the end
	if nf := w.SSAFunc(relMP, "normalizeAndValidateRanges"); nf != nil {
		fromEnd := false
		allInstrs(nf, false, func(_ *ssa.Function, ins ssa.Instruction) {
			if bo, ok := ins.(*ssa.BinOp); ok && bo.Op == token.SUB {
				if p, ok := unspill(stripConv(bo.X)).(*ssa.Parameter); ok && strings.Contains(strings.ToLower(p.Name()), "size") && isBuiltinCall(bo.Y, "min") {
					fromEnd = true
				}
			}
		})
		r.Check(fromEnd, ruleSib, "normalizeAndValidateRanges counts a suffix from the end", nf.Pos(), "start = objectSize − min(n, objectSize)", "the suffix start is not size − suffix length")
	}
	checkRangeOverlapTests(w, r)
	checkSkipIsRelative(w, r)
	checkS3ClientForwardsSuffixRanges(w, r)
	checkSeekableReadersTrackOffset(w, r)
	r.NotCovered("the bytes delivered (the per-part skip/limit arithmetic of createRangeReader and the seekable decryption offsets are value-level); Content-Range text formatting; syntactically invalid Range headers (answered 416 where RFC 7233 suggests ignoring the header)")
}
