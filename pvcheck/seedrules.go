package main

import (
	"fmt"
	"go/token"
	"go/types"
	"sort"
	"strconv"
	"strings"

	"golang.org/x/tools/go/ssa"
)

// Rules added after independent seeded changes showed a structural necessary condition of a
// property that no earlier rule examined (DESIGN.md §8.6). Each is called from the check of
// the property it belongs to.

// checkC23SecondaryOptionsGuard: when the replication storage builds the options for its
// secondaries only under a condition, every way around that construction must have shown
// that the option it would have carried is absent.
func checkC23SecondaryOptionsGuard(w *World, r *Run) {
	rule := r.Rule("secondary-options-built-whenever-content-options-exist", "F1",
		"in the replication storage, a path that hands the secondaries nil options instead of the copied tags / metadata / storage class has established, for each of these fields, that the caller's value is absent (opts == nil, field == nil or len == 0)", 3)
	n := 0
	for _, fn := range w.allFuncs {
		if fn.Pkg == nil || pkgRel(fn.Pkg.Pkg) != relRepl || fn.Parent() != nil {
			continue
		}
		for _, b := range fn.Blocks {
			for _, ins := range b.Instrs {
				phi, ok := ins.(*ssa.Phi)
				if !ok || !strings.HasSuffix(structNameOf(phi.Type()), "Options") {
					continue
				}
				var lit *ssa.Alloc
				hasNil := false
				for _, e := range phi.Edges {
					if isNilConst(e) {
						hasNil = true
					}
					if a, ok := e.(*ssa.Alloc); ok {
						lit = a
					}
				}
				if !hasNil || lit == nil {
					continue
				}
				// fields copied from the caller's options
				for _, ref := range *lit.Referrers() {
					fa, ok := ref.(*ssa.FieldAddr)
					if !ok {
						continue
					}
					fname := fieldName(fa.X.Type(), fa.Field)
					fromOpts := false
					for _, v := range storesTo(fa) {
						if n2, base := fieldLoadName(v); n2 == fname {
							if p, isP := unspill(base).(*ssa.Parameter); isP && strings.HasSuffix(structNameOf(p.Type()), "Options") {
								fromOpts = true
							}
						}
					}
					if !fromOpts {
						continue
					}
					n++
					L := lit.Block()
					ok2 := everyPathCrosses(phi.Block(), func(d *ssa.BasicBlock, k int) bool {
						if d.Succs[k] == L {
							return true
						}
						for _, f := range edgeFacts(d, k) {
							if f.Kind == IsNil {
								if _, isP := unspill(f.Val).(*ssa.Parameter); isP {
									return true // opts == nil
								}
								if nm, _ := fieldLoadName(f.Val); nm == fname {
									return true
								}
							}
							if factSaysEmpty(f, func(x ssa.Value) bool { nm, _ := fieldLoadName(x); return nm == fname }) {
								return true
							}
						}
						return false
					})
					r.Check(ok2, rule, fmt.Sprintf("%s: secondaries receive %s whenever the caller supplied it", funcName(fn), fname), posOf(phi), "nil options only where "+fname+" is absent", "the secondaries are written with nil options on a path where the caller's "+fname+" may be present: the primary stores it, the replicas silently do not")
				}
			}
		}
	}
	if n == 0 {
		r.Bad(rule, "replication: conditional secondary options", 0, "no conditionally built secondary options found (anchor lost)")
	}
}

// checkC24CrossStorageRedirect: the cross-storage copy of the conditional middleware treats
// the website redirect location like the same-storage copy does.
func checkC24CrossStorageRedirect(w *World, r *Run) {
	rule := r.Rule("cross-storage-copy-never-carries-the-source-redirect", "F1",
		"where the conditional middleware takes the source object's metadata for a cross-storage copy it clears WebsiteRedirectLocation in the same block, before the metadata is handed on", 1)
	n := 0
	for _, fn := range w.allFuncs {
		if fn.Pkg == nil || pkgRel(fn.Pkg.Pkg) != relCond {
			continue
		}
		for _, b := range fn.Blocks {
			for _, ins := range b.Instrs {
				st, ok := ins.(*ssa.Store)
				if !ok {
					continue
				}
				a, ok := st.Addr.(*ssa.Alloc)
				if !ok || structNameOf(a.Type()) != "ObjectMetadata" {
					continue
				}
				// a whole copy of some object's Metadata field
				if nm, base := fieldLoadName(st.Val); nm != "Metadata" || structNameOf(base.Type()) != "Object" {
					continue
				}
				n++
				cleared := false
				for _, i2 := range b.Instrs {
					if v, ok := isFieldStore(i2, "WebsiteRedirectLocation"); ok && isNilConst(stripConv(v)) {
						if fa := i2.(*ssa.Store).Addr.(*ssa.FieldAddr); fa.X == ssa.Value(a) {
							cleared = true
						}
					}
				}
				r.Check(cleared, rule, fmt.Sprintf("%s: source metadata copy #%d clears the redirect location", funcName(topFunc(fn)), n), posOf(st), "metadata.WebsiteRedirectLocation = nil right after the copy", "a copy across storages carries x-amz-website-redirect-location of the source to the destination, which a copy within one storage never does")
			}
		}
	}
	if n == 0 {
		r.Bad(rule, "conditional: cross-storage metadata copy", 0, "no copy of the source object's metadata found (anchor lost)")
	}
}

// checkC25VersionPaging: every paging loop over ListObjectVersions carries both markers.
func checkC25VersionPaging(w *World, r *Run) {
	rule := r.Rule("version-listing-loops-carry-both-markers", "F3",
		"every ListObjectVersionsOptions that continues from a previous page's NextKeyMarker also continues from its NextVersionIDMarker (all paging loops of the tree)", 3)
	n := 0
	for _, fn := range w.allFuncs {
		if fn.Pkg == nil || !strings.HasPrefix(pkgRel(fn.Pkg.Pkg), "internal/") {
			continue
		}
		lits := map[ssa.Value]map[string]ssa.Value{}
		var order []ssa.Value
		for _, b := range fn.Blocks {
			for _, ins := range b.Instrs {
				st, ok := ins.(*ssa.Store)
				if !ok {
					continue
				}
				fa, ok := st.Addr.(*ssa.FieldAddr)
				if !ok || structNameOf(fa.X.Type()) != "ListObjectVersionsOptions" {
					continue
				}
				if lits[fa.X] == nil {
					lits[fa.X] = map[string]ssa.Value{}
					order = append(order, fa.X)
				}
				lits[fa.X][fieldName(fa.X.Type(), fa.Field)] = st.Val
			}
		}
		for _, l := range order {
			km, hasK := lits[l]["KeyMarker"]
			if !hasK || !derivesFromFieldOf(km, "NextKeyMarker", nil) {
				continue
			}
			n++
			vm, hasV := lits[l]["VersionIDMarker"]
			ok := hasV && derivesFromFieldOf(vm, "NextVersionIDMarker", nil)
			pos := token.NoPos
			if ins, isIns := l.(ssa.Instruction); isIns {
				pos = posOf(ins)
			}
			r.Check(ok, rule, fmt.Sprintf("%s: version paging loop #%d", funcName(topFunc(fn)), n), pos, "KeyMarker ← NextKeyMarker and VersionIDMarker ← NextVersionIDMarker", "the loop resumes from the key marker alone: when a page ends inside a key, the remaining (older) versions of that key are never seen — e.g. a current delete marker then looks like the only version left and is expired")
		}
	}
	if n == 0 {
		r.Bad(rule, "version paging loops", 0, "no paging loop over ListObjectVersions found (anchor lost)")
	}
}

// checkC27ChainLink: the verifier links every entry but the first to its predecessor.
func checkC27ChainLink(w *World, r *Run) {
	rule := r.Rule("every-entry-is-chained-to-its-predecessor", "F1",
		"every path through Validator.ValidateEntry that reports success has compared entry.PreviousHash with the verifier's running hash, except at index 0 where it is compared with the fixed genesis anchor", 1)
	fn := w.SSAFunc(relAuditlog, "Validator.ValidateEntry")
	if fn == nil {
		r.Anchor(rule, "auditlog.Validator.ValidateEntry")
		return
	}
	isPrevCmp := func(f Fact) bool {
		c, ok := f.Val.(*ssa.Call)
		if !ok || f.Kind != IsTrue || !isCallNamed(c, "Equal") || len(c.Call.Args) != 2 {
			return false
		}
		a, _ := fieldLoadName(c.Call.Args[0])
		b, _ := fieldLoadName(c.Call.Args[1])
		return (a == "PreviousHash" && b == "PrevHash") || (a == "PrevHash" && b == "PreviousHash")
	}
	isIndexZero := func(f Fact) bool {
		if f.Kind != EqConst || f.Const == nil {
			return false
		}
		k, isc := intConst(f.Const)
		nm, _ := fieldLoadName(f.Val)
		return isc && k == 0 && nm == "Index"
	}
	good, n := true, 0
	for _, ret := range returnsOf(fn) {
		if isFailureReturn(ret) || ret.Block() == fn.Recover {
			continue
		}
		n++
		if !everyPathCrosses(ret.Block(), func(d *ssa.BasicBlock, k int) bool {
			for _, f := range edgeFacts(d, k) {
				if isPrevCmp(f) || isIndexZero(f) {
					return true
				}
			}
			return false
		}) {
			good = false
		}
	}
	// and at index 0 the anchor is compared
	anchor := false
	for _, b := range fn.Blocks {
		for _, f := range factsAt(b) {
			if isIndexZero(f) {
				for _, ins := range b.Instrs {
					if c, ok := ins.(*ssa.Call); ok && isCallNamed(c, "Equal") {
						if a, _ := fieldLoadName(c.Call.Args[0]); a == "PreviousHash" {
							anchor = true
						}
					}
				}
			}
		}
	}
	r.Check(good && anchor && n > 0, rule, "ValidateEntry links each entry to its predecessor", fn.Pos(), "PreviousHash == running hash on every success path past index 0; genesis anchor only at index 0", "an entry can verify without its PreviousHash having been compared with the hash of the entry before it (e.g. whenever it is of GENESIS type): a signed prefix of the log can be re-inserted later in the log without detection")
	_ = types.Typ
}

// checkC28PayloadHash: the payload hash that is compared with the signed value is computed
// over the request body on every path, or is the hash of nothing only where the request is
// known to carry no body (a chunked request has ContentLength −1 and does carry one).
func checkC28PayloadHash(w *World, r *Run) {
	rule := r.Rule("payload-hash-covers-the-body", "F9",
		"every non-nil result of generateHashedPayload is the hex digest of a SHA-256 the request body was copied into; a constant digest may be returned only where the body is nil / http.NoBody / of declared length exactly 0", 1)
	fn := w.SSAFunc("internal/http/server/authentication", "generateHashedPayload")
	if fn == nil {
		r.Anchor(rule, "authentication.generateHashedPayload")
		return
	}
	good, n, why := true, 0, ""
	for _, ret := range returnsOf(fn) {
		if isFailureReturn(ret) || ret.Block() == fn.Recover {
			continue
		}
		n++
		v := retResult(ret, 0)
		// digest of a hash that received the body
		fromBody := sliceContains(v, true, func(x ssa.Value) bool {
			c, ok := x.(*ssa.Call)
			if !ok || !isCallNamed(c, "Sum") {
				return false
			}
			recv := c.Call.Value
			if !c.Call.IsInvoke() && len(c.Call.Args) > 0 {
				recv = c.Call.Args[0]
			}
			// some Copy(hash, reader-from-body) precedes
			fed := false
			allInstrs(fn, false, func(_ *ssa.Function, ins ssa.Instruction) {
				cp, ok := ins.(*ssa.Call)
				if !ok || !isCallNamed(cp, "Copy") || len(cp.Call.Args) < 2 {
					return
				}
				if sameValue(stripConv(cp.Call.Args[0]), stripConv(recv)) || sliceContains(cp.Call.Args[0], false, func(y ssa.Value) bool { return y == stripConv(recv) }) {
					if sliceContains(cp.Call.Args[1], true, func(y ssa.Value) bool { nm, _ := fieldLoadName(y); return nm == "Body" }) {
						fed = true
					}
				}
			})
			return fed
		})
		if fromBody {
			continue
		}
		// otherwise: constant digest, allowed only without a body
		noBody := everyPathEstablishes(ret.Block(), func(f Fact) bool {
			nm, _ := fieldLoadName(f.Val)
			if nm == "Body" && (f.Kind == IsNil || (f.Kind == EqConst && f.Other != nil)) {
				return true
			}
			if f.Other != nil {
				if n2, _ := fieldLoadName(f.Other); n2 == "Body" && f.Kind == EqConst {
					return true
				}
			}
			if nm == "ContentLength" && f.Kind == EqConst && f.Const != nil {
				if k, isc := intConst(f.Const); isc && k == 0 {
					return true
				}
			}
			return false
		})
		if !noBody {
			good, why = false, "a result at "+w.Pos(posOf(ret))+" is not derived from hashing the body and is not confined to body-less requests"
		}
	}
	r.Check(good && n > 0, rule, "generateHashedPayload hashes the body it lets through", fn.Pos(), "sha256 over r.Body on every path that returns a digest", why+": a request signed for an empty payload can carry an arbitrary (e.g. chunked, ContentLength −1) body past the signature check")
}

// checkC29EscapeBound: the test that recognises an existing %XX escape looks exactly as far
// as it reads.
func checkC29EscapeBound(w *World, r *Run) {
	rule := r.Rule("escape-test-reaches-the-end-of-the-path", "F7",
		"in generateCanonicalURI the bound that guards the %XX test is idx + k < len(path) with k the largest offset the test reads (an escape in the last three bytes of the path is recognised)", 1)
	fn := w.SSAFunc("internal/http/server/authentication", "generateCanonicalURI")
	if fn == nil {
		r.Anchor(rule, "authentication.generateCanonicalURI")
		return
	}
	maxOff, bound := int64(-1), int64(-1)
	allInstrs(fn, false, func(_ *ssa.Function, ins ssa.Instruction) {
		switch x := ins.(type) {
		case *ssa.Lookup: // string indexing s[i] (older lowering)
			if bo, ok := x.Index.(*ssa.BinOp); ok && bo.Op == token.ADD {
				if k, isc := intConst(bo.Y); isc && k > maxOff {
					maxOff = k
				}
			}
		case *ssa.Index: // string indexing s[i]
			if bo, ok := x.Index.(*ssa.BinOp); ok && bo.Op == token.ADD {
				if k, isc := intConst(bo.Y); isc && k > maxOff {
					maxOff = k
				}
			}
		case *ssa.BinOp:
			if x.Op == token.LSS {
				if bo, ok := x.X.(*ssa.BinOp); ok && bo.Op == token.ADD && isLenOf(x.Y, func(ssa.Value) bool { return true }) {
					if k, isc := intConst(bo.Y); isc {
						bound = k
					}
				}
			}
		}
	})
	r.Check(maxOff >= 1 && bound == maxOff, rule, "generateCanonicalURI: %XX lookahead bound", fn.Pos(), fmt.Sprintf("idx+%d < len(path), reads up to idx+%d", bound, maxOff), fmt.Sprintf("the escape test reads up to idx+%d but requires idx+%d < len(path): a percent-escape at the very end of the path is re-encoded (%%25…) and every correctly signed request for such a key is rejected", maxOff, bound))
}

// checkC32NilList: isTrustedProxy reads a nil list as "no list configured" (trust all), so
// the parser may hand back nil only for an empty configuration.
func checkC32NilList(w *World, r *Run) {
	rule := r.Rule("configured-list-never-parses-to-nil", "F1",
		"parseTrustedProxyCIDRs returns a possibly-nil slice only where len(configured strings) == 0", 1)
	fn := w.SSAFunc(relLua, "parseTrustedProxyCIDRs")
	if fn == nil {
		r.Anchor(rule, "lua.parseTrustedProxyCIDRs")
		return
	}
	var mayNil func(v ssa.Value, depth int) bool
	mayNil = func(v ssa.Value, depth int) bool {
		if depth > 8 {
			return true
		}
		switch x := v.(type) {
		case *ssa.Const:
			return x.Value == nil
		case *ssa.Phi:
			for _, e := range x.Edges {
				if e != ssa.Value(x) && mayNil(e, depth+1) {
					return true
				}
			}
			return false
		case *ssa.MakeSlice, *ssa.Slice:
			return false
		case *ssa.Call:
			if isBuiltinCall(x, "append") {
				// append(nil-able, …) on some iterations only: the loop may not run
				return false
			}
			return true
		}
		return true
	}
	good := true
	for _, ret := range returnsOf(fn) {
		v := retResult(ret, 0)
		if !mayNil(v, 0) {
			continue
		}
		empty := false
		for _, f := range factsAt(ret.Block()) {
			if factSaysEmpty(f, func(x ssa.Value) bool { _, isP := unspill(x).(*ssa.Parameter); return isP }) {
				empty = true
			}
		}
		if !empty {
			good = false
		}
	}
	r.Check(good, rule, "parseTrustedProxyCIDRs returns nil only for an empty configuration", fn.Pos(), "nil only under len(cidrStrings) == 0", "a configured list whose entries all fail to parse comes back as nil, which isTrustedProxy reads as 'no list configured': every peer is trusted and forwarded headers are honoured")
}

// checkC33BucketFromHost: the bucket of a virtual-hosted request is the host name minus the
// endpoint suffix — bucket names may contain dots.
func checkC33BucketFromHost(w *World, r *Run) {
	rule := r.Rule("bucket-is-host-minus-endpoint-suffix", "F9",
		"the virtual-host middleware derives the bucket by removing the '.'+endpoint suffix from the host name (TrimSuffix/CutSuffix/HasSuffix-guarded slice), never by cutting the host at its first dot", 1)
	var fns []*ssa.Function
	for _, fn := range w.allFuncs {
		if fn.Pkg != nil && pkgRel(fn.Pkg.Pkg) == relHTTPMw && strings.Contains(funcName(topFunc(fn)), "MakeVirtualHostBucketAddressingMiddleware") {
			fns = append(fns, fn)
		}
	}
	if len(fns) == 0 {
		r.Anchor(rule, "middleware.MakeVirtualHostBucketAddressingMiddleware")
		return
	}
	suffixBased, dotCut := false, ""
	for _, fn := range fns {
		allInstrs(fn, false, func(_ *ssa.Function, ins ssa.Instruction) {
			c, ok := ins.(*ssa.Call)
			if !ok {
				return
			}
			f := calleeObj(c)
			if f == nil || f.Pkg() == nil || f.Pkg().Path() != "strings" {
				return
			}
			switch f.Name() {
			case "TrimSuffix", "CutSuffix", "HasSuffix":
				suffixBased = true
			case "Cut", "Split", "SplitN", "Index", "IndexByte", "SplitSeq":
				if len(c.Call.Args) >= 2 {
					if s, isStr := constString(c.Call.Args[1]); isStr && s == "." {
						dotCut = w.Pos(posOf(c))
					}
				}
			}
		})
	}
	r.Check(suffixBased && dotCut == "", rule, "virtual-host bucket = host − endpoint suffix", fns[0].Pos(), "suffix removal", "the host name is cut at a '.' ("+dotCut+"): a bucket whose name contains a dot is not recognised, the path is left unrewritten and the request acts on a different bucket/key than the path-style request would")
}

// checkC34PerHeaderFlag: every requested header is matched on its own.
func checkC34PerHeaderFlag(w *World, r *Run) {
	rule := r.Rule("each-requested-header-is-matched-separately", "F1",
		"in matchRequestedHeaders the flag tested after the inner loop is re-initialised for every requested header (no value is carried around the outer loop)", 1)
	fn := w.SSAFunc(relHTTPMw, "matchRequestedHeaders")
	if fn == nil {
		r.Anchor(rule, "middleware.matchRequestedHeaders")
		return
	}
	isLoopHead := func(b *ssa.BasicBlock) bool {
		return strings.Contains(b.Comment, "loop") && !strings.Contains(b.Comment, "body") && !strings.Contains(b.Comment, "done")
	}
	bad, n := "", 0
	for _, b := range fn.Blocks {
		if len(b.Instrs) == 0 {
			continue
		}
		iff, ok := b.Instrs[len(b.Instrs)-1].(*ssa.If)
		if !ok {
			continue
		}
		phi, ok := iff.Cond.(*ssa.Phi)
		if !ok {
			if u, isNot := iff.Cond.(*ssa.UnOp); isNot {
				phi, ok = u.X.(*ssa.Phi)
			}
		}
		if !ok || phi.Type().Underlying() != types.Typ[types.Bool] {
			continue
		}
		n++
		// the tested value must not be carried into the next iteration of the loop the test
		// sits in: no phi of a loop header that T branches back to receives it
		inChain := map[ssa.Value]bool{}
		var walk func(v ssa.Value)
		walk = func(v ssa.Value) {
			p, ok := v.(*ssa.Phi)
			if !ok || inChain[p] {
				return
			}
			inChain[p] = true
			for _, e := range p.Edges {
				walk(e)
			}
		}
		walk(phi)
		for _, sc := range b.Succs {
			if !(sc.Dominates(b) && isLoopHead(sc)) {
				continue
			}
			for pi, pred := range sc.Preds {
				if pred != b {
					continue
				}
				for _, ins := range sc.Instrs {
					hp, ok := ins.(*ssa.Phi)
					if !ok {
						break
					}
					if pi < len(hp.Edges) && inChain[hp.Edges[pi]] {
						bad = w.Pos(hp.Pos())
					}
				}
			}
		}
	}
	r.Check(bad == "" && n > 0, rule, "matchRequestedHeaders: match flag is per requested header", fn.Pos(), "flag initialised inside the outer loop", "the match flag lives across iterations of the outer loop: once one requested header matched, every later header counts as matched too — a preflight naming an allowed header before a forbidden one is granted")
}

// checkOptionsGuard generalises the C23 rule: where an options struct for a forwarded call
// is built only under a condition, every bypass has established that each copied value is
// absent.
func checkOptionsGuard(w *World, r *Run, rule, rel string) int {
	n := 0
	for _, fn := range w.allFuncs {
		if fn.Pkg == nil || pkgRel(fn.Pkg.Pkg) != rel || fn.Parent() != nil {
			continue
		}
		for _, b := range fn.Blocks {
			for _, ins := range b.Instrs {
				phi, ok := ins.(*ssa.Phi)
				if !ok || !strings.HasSuffix(structNameOf(phi.Type()), "Options") {
					continue
				}
				var lit *ssa.Alloc
				hasNil := false
				for _, e := range phi.Edges {
					if isNilConst(e) {
						hasNil = true
					}
					if a, ok := e.(*ssa.Alloc); ok {
						lit = a
					}
				}
				if !hasNil || lit == nil {
					continue
				}
				for _, ref := range *lit.Referrers() {
					fa, ok := ref.(*ssa.FieldAddr)
					if !ok {
						continue
					}
					fname := fieldName(fa.X.Type(), fa.Field)
					for _, v := range storesTo(fa) {
						if _, isConst := v.(*ssa.Const); isConst {
							continue
						}
						n++
						L := lit.Block()
						val := v
						ok2 := everyPathCrosses(phi.Block(), func(d *ssa.BasicBlock, k int) bool {
							if d.Succs[k] == L {
								return true
							}
							for _, f := range edgeFacts(d, k) {
								if f.Kind == IsNil && (sameValue(f.Val, val) || samePartValue(f.Val, val)) {
									return true
								}
								if f.Kind == IsNil {
									if _, base := fieldLoadName(val); base != nil && sameValue(f.Val, base) {
										return true // the struct the value is read from is nil
									}
								}
								if factSaysEmpty(f, func(x ssa.Value) bool { return sameValue(x, val) || samePartValue(x, val) }) {
									return true
								}
							}
							return false
						})
						r.Check(ok2, rule, fmt.Sprintf("%s: %s.%s is forwarded whenever present", funcName(fn), structNameOf(phi.Type()), fname), posOf(phi), "nil options only where the value is absent", "the options are left nil on a path where "+fname+" may be present: the value is silently dropped from the forwarded call")
					}
				}
			}
		}
	}
	return n
}

// checkC38Directives: the S3 client announces REPLACE exactly when the caller asked for it.
func checkC38Directives(w *World, r *Run) {
	rule := r.Rule("replace-directives-follow-the-flags", "F1",
		"in s3ClientStorage.CopyObject every path that leaves TaggingDirective / MetadataDirective unset has established that ReplaceTags / ReplaceMetadata is false (or opts nil)", 2)
	fn := w.SSAFunc(relS3Client, "s3ClientStorage.CopyObject")
	if fn == nil {
		r.Anchor(rule, "s3ClientStorage.CopyObject")
		return
	}
	var sdk ssa.Instruction
	allInstrs(fn, false, func(_ *ssa.Function, ins ssa.Instruction) {
		if c, ok := ins.(ssa.CallInstruction); ok && c.Common().IsInvoke() && c.Common().Method.Name() == "CopyObject" {
			sdk = ins
		}
		if c, ok := ins.(*ssa.Call); ok && !c.Call.IsInvoke() {
			if f := calleeObj(c); f != nil && f.Name() == "CopyObject" && f.Pkg() != nil && strings.Contains(f.Pkg().Path(), "service/s3") {
				sdk = ins
			}
		}
	})
	if sdk == nil {
		r.Unk(rule, "s3ClientStorage.CopyObject → SDK CopyObject", fn.Pos(), "SDK call not found")
		return
	}
	for _, d := range []struct{ field, flag string }{{"TaggingDirective", "ReplaceTags"}, {"MetadataDirective", "ReplaceMetadata"}} {
		var setBlock *ssa.BasicBlock
		allInstrs(fn, false, func(_ *ssa.Function, ins ssa.Instruction) {
			if _, ok := isFieldStore(ins, d.field); ok {
				setBlock = ins.Block()
			}
		})
		if setBlock == nil {
			r.Bad(rule, "CopyObject sets "+d.field, fn.Pos(), d.field+" is never set")
			continue
		}
		ok := everyPathCrosses(sdk.Block(), func(b *ssa.BasicBlock, k int) bool {
			if b.Succs[k] == setBlock {
				return true
			}
			for _, f := range edgeFacts(b, k) {
				if nm, _ := fieldLoadName(f.Val); nm == d.flag && f.Kind == IsFalse {
					return true
				}
				if f.Kind == IsNil {
					if _, isP := unspill(f.Val).(*ssa.Parameter); isP {
						return true
					}
				}
			}
			return false
		})
		r.Check(ok, rule, "CopyObject announces "+d.field+" whenever "+d.flag+" is set", posOf(sdk), d.flag+" ⇒ "+d.field+" = REPLACE", "with "+d.flag+" set the directive can stay unset (e.g. when the replacement set is empty): the endpoint copies the source's values where the storage it fronts would clear them")
	}
}

// checkCacheFillCompletion: a streaming cache fill is completed only when the source ended
// with io.EOF; any other read error must abort it.
func checkCacheFillCompletion(w *World, r *Run) {
	rule := r.Rule("cache-fill-completes-only-on-eof", "F1",
		"in the tee readers that fill a cache while streaming (object cache and part cache) the fill pipe is closed cleanly only where the source's Read returned io.EOF; other errors, and a Close of the reader before EOF, close it with an error so the partial entry is dropped", 3)
	n := 0
	for _, fn := range w.allFuncs {
		if fn.Pkg == nil || (fn.Name() != "Read" && fn.Name() != "Close") || fn.Signature.Recv() == nil {
			continue
		}
		rel := pkgRel(fn.Pkg.Pkg)
		if rel != relObjCache && rel != relCacheStore {
			continue
		}
		var cleans []*ssa.Call
		abort := false
		allInstrs(fn, false, func(_ *ssa.Function, ins ssa.Instruction) {
			c, ok := ins.(*ssa.Call)
			if !ok {
				return
			}
			f := calleeObj(c)
			if f == nil || recvNamed(f) == nil || recvNamed(f).Obj().Name() != "PipeWriter" {
				return
			}
			if f.Name() == "Close" {
				cleans = append(cleans, c)
			}
			if f.Name() == "CloseWithError" {
				abort = true
			}
		})
		if len(cleans) == 0 && !abort {
			continue
		}
		n++
		good := abort
		for _, c := range cleans {
			onEOF := false
			for _, f := range factsAt(c.Block()) {
				if f.Kind == EqConst && f.Other != nil && (globalErrLoaded(f.Other, "EOF") || globalErrLoaded(f.Val, "EOF")) {
					onEOF = true
				}
			}
			if !onEOF {
				good = false
			}
		}
		r.Check(good, rule, funcName(fn)+" completes the cache fill only on io.EOF", fn.Pos(), "pipeWriter.Close() under err == io.EOF, CloseWithError otherwise", "the fill pipe is closed cleanly on an error other than io.EOF (or when the reader is closed before its end): a download that broke off mid-stream leaves its truncated bytes in the cache as a complete entry, served to later readers without error")
	}
	if n == 0 {
		r.Bad(rule, "cache tee readers", 0, "no streaming cache fill reader found (anchor lost)")
	}
}

// checkTxFinalization: the controller is marked finalized only after the driver commit
// succeeded; otherwise a failed COMMIT makes Rollback skip the rollback hooks (which restore
// renamed part files).
func checkTxFinalization(w *World, r *Run) {
	rule := r.Rule("finalized-only-after-a-successful-commit", "F1",
		"in TxController.Commit the store finalized = true is dominated by the nil-error edge of the driver's Commit; in Rollback it happens after the driver rollback and before the hooks run exactly once", 2)
	fn := w.SSAFunc(relDB, "TxController.Commit")
	if fn == nil {
		r.Anchor(rule, "TxController.Commit")
		return
	}
	var drv *ssa.Call
	allInstrs(fn, false, func(_ *ssa.Function, ins ssa.Instruction) {
		if c, ok := ins.(*ssa.Call); ok {
			if f := calleeObj(c); f != nil && f.Pkg() != nil && f.Pkg().Path() == "database/sql" && f.Name() == "Commit" {
				drv = c
			}
		}
	})
	good, n := drv != nil, 0
	allInstrs(fn, false, func(_ *ssa.Function, ins ssa.Instruction) {
		v, ok := isFieldStore(ins, "finalized")
		if !ok {
			return
		}
		if b, isb := boolConst(v); !isb || !b {
			return
		}
		n++
		okEdge := false
		for _, f := range factsAt(ins.Block()) {
			if f.Kind == IsNil && drv != nil && sliceContains(f.Val, false, func(x ssa.Value) bool { return x == ssa.Value(drv) }) {
				okEdge = true
			}
		}
		if !okEdge {
			good = false
		}
	})
	r.Check(good && n > 0, rule, "TxController.Commit finalizes only after the driver commit succeeded", fn.Pos(), "finalized = true on the err == nil edge of tx.Commit()", "the controller is marked finalized before (or regardless of) the driver commit: when COMMIT fails, Rollback returns early and no rollback hook runs — part files renamed away by pre-commit hooks stay missing although the database rolled back")
	if rb := w.SSAFunc(relDB, "TxController.Rollback"); rb != nil {
		// hooks run only on the not-yet-finalized path
		ok := false
		for _, b := range rb.Blocks {
			for _, ins := range b.Instrs {
				if v, isSt := isFieldStore(ins, "finalized"); isSt {
					if bv, isb := boolConst(v); isb && bv {
						for _, f := range factsAt(b) {
							if nm, _ := fieldLoadName(f.Val); nm == "finalized" && f.Kind == IsFalse {
								ok = true
							}
						}
					}
				}
			}
		}
		// and on nothing else: whatever the driver's rollback answered (ErrTxDone after a
		// cancelled context, a failed COMMIT), the hooks restore what pre-commit hooks moved
		extra := ""
		for _, b := range rb.Blocks {
			for _, ins := range b.Instrs {
				v, isSt := isFieldStore(ins, "finalized")
				if !isSt {
					continue
				}
				if bv, isb := boolConst(v); !isb || !bv {
					continue
				}
				for _, f := range factsAt(b) {
					if nm, _ := fieldLoadName(f.Val); nm != "finalized" && nm != "ownsFinalization" {
						extra = describeVal(f.Val)
						if c, isCall := f.Val.(*ssa.Call); isCall && calleeObj(c) != nil {
							extra = calleeObj(c).Name() + "(…)"
						}
					}
				}
			}
		}
		r.Check(extra == "", rule, "TxController.Rollback runs its hooks whatever the driver's rollback returned", rb.Pos(), "hooks depend only on ownsFinalization and finalized", "the rollback hooks are skipped depending on "+extra+": when the driver already ended the transaction (failed COMMIT, cancelled context) files moved aside by pre-commit hooks are never restored although the database rolled back")
		r.Check(ok, rule, "TxController.Rollback runs its hooks once, on the not-finalized path", rb.Pos(), "finalized checked false, then set, then hooks", "rollback hooks can run twice or after a successful commit")
	} else {
		r.Anchor(rule, "TxController.Rollback")
	}
}

// checkRangeOverlapTests: createRangeReader opens exactly the parts that overlap the
// requested half-open range.
func checkRangeOverlapTests(w *World, r *Run) {
	rule := r.Rule("only-overlapping-parts-are-opened", "F7",
		"createRangeReader skips a part when rangeStart >= partEnd and stops when rangeEnd <= partStart (half-open intervals): a part that ends exactly where the range starts — in particular an empty part — is not opened", 2)
	fn := w.SSAFunc(relMP, "metadataPartStorage.createRangeReader")
	if fn == nil {
		r.Anchor(rule, "metadataPartStorage.createRangeReader")
		return
	}
	isPartEnd := func(v ssa.Value) bool {
		bo, ok := v.(*ssa.BinOp)
		return ok && bo.Op == token.ADD && derivesFromFieldOf(bo.Y, "Size", nil)
	}
	skipOK, stopOK := false, false
	allInstrs(fn, false, func(_ *ssa.Function, ins ssa.Instruction) {
		bo, ok := ins.(*ssa.BinOp)
		if !ok {
			return
		}
		// only comparisons that feed an If whose true edge continues/breaks the part loop
		switch {
		case isPartEnd(bo.Y) && (bo.Op == token.GEQ || bo.Op == token.GTR):
			if bo.Op == token.GEQ {
				skipOK = true
			}
		case isPartEnd(bo.X) && (bo.Op == token.LEQ || bo.Op == token.LSS):
			if bo.Op == token.LEQ {
				skipOK = true
			}
		}
		if phi, isPhi := bo.Y.(*ssa.Phi); isPhi && phi.Comment == "partsSizeUntilNow" && (bo.Op == token.LEQ || bo.Op == token.LSS) {
			if bo.Op == token.LEQ {
				stopOK = true
			}
		}
	})
	r.Check(skipOK, rule, "createRangeReader skips parts that end at or before the range start", fn.Pos(), "rangeStart >= partEnd → skip", "a part ending exactly at the range start is opened with an empty window: for an empty part (which the SQL part store does not materialise) the read of an acknowledged object fails with 'part not found'")
	r.Check(stopOK, rule, "createRangeReader stops at parts that begin at or after the range end", fn.Pos(), "rangeEnd <= partStart → stop", "a part beginning exactly at the range end is opened")
}

// checkC02PromotionUnconditional: deleting the current version by id promotes the next
// remaining version whatever it is.
func checkC02PromotionUnconditional(w *World, r *Run) {
	rule := r.Rule("deleting-the-current-version-promotes-the-next", "F1",
		"in sqlMetadataStore.DeleteObject every success path on which FindLatestObjectByBucketNameAndKeyExcludingID returned a row saves that row with IsLatest = true (delete markers included)", 1)
	fn := w.SSAFunc(relSQLStore, "sqlMetadataStore.DeleteObject")
	if fn == nil {
		r.Anchor(rule, "sqlMetadataStore.DeleteObject")
		return
	}
	var find *ssa.Call
	allInstrs(fn, false, func(_ *ssa.Function, ins ssa.Instruction) {
		if c, ok := ins.(*ssa.Call); ok && isCallNamed(c, "FindLatestObjectByBucketNameAndKeyExcludingID") {
			find = c
		}
	})
	if find == nil {
		r.Bad(rule, "DeleteObject → FindLatestObjectByBucketNameAndKeyExcludingID", fn.Pos(), "the next version is never looked up after the current one was deleted")
		return
	}
	isSave := func(i ssa.Instruction) bool {
		c, ok := i.(*ssa.Call)
		if !ok || !isCallNamed(c, "SaveObject") {
			return false
		}
		return sliceContains(c.Call.Args[len(c.Call.Args)-1], false, func(x ssa.Value) bool { return x == ssa.Value(find) })
	}
	blocked := func(d *ssa.BasicBlock, k int) bool {
		for _, f := range edgeFacts(d, k) {
			if f.Kind == IsNil && sliceContains(f.Val, false, func(x ssa.Value) bool { return x == ssa.Value(find) }) && !isErrorType(f.Val.Type()) {
				return true // nothing left to promote
			}
			if f.Kind == NonNil && isErrorType(f.Val.Type()) {
				return true
			}
		}
		return false
	}
	leaks := sinksReachable(find, isSave, blocked, isSuccessReturn)
	latest := false
	allInstrs(fn, false, func(_ *ssa.Function, ins ssa.Instruction) {
		if v, ok := isFieldStore(ins, "IsLatest"); ok {
			if b, isb := boolConst(v); isb && b && sliceContains(ins.(*ssa.Store).Addr, false, func(x ssa.Value) bool { return x == ssa.Value(find) }) {
				latest = true
			}
		}
	})
	r.Check(len(leaks) == 0 && latest, rule, "DeleteObject promotes whatever version remains newest", posOf(find), "nextLatest != nil ⇒ IsLatest = true; SaveObject(nextLatest)", "a remaining version is left unpromoted on some path (e.g. when it is a delete marker): no row is current any more, and removing that marker later does not bring the older live version back")
}

// checkSkipIsRelative: SkipNBytes moves n bytes forward from the reader's position.
func checkSkipIsRelative(w *World, r *Run) {
	rule := r.Rule("skip-seeks-relative-to-the-current-position", "F7",
		"ioutils.SkipNBytes seeks with io.SeekCurrent (readers handed out by middlewares need not start at offset 0 of the underlying file)", 1)
	fn := w.SSAFunc("internal/ioutils", "SkipNBytes")
	if fn == nil {
		r.Anchor(rule, "ioutils.SkipNBytes")
		return
	}
	n, good := 0, true
	allInstrs(fn, false, func(_ *ssa.Function, ins ssa.Instruction) {
		c, ok := ins.(ssa.CallInstruction)
		if !ok || !c.Common().IsInvoke() || c.Common().Method.Name() != "Seek" {
			return
		}
		n++
		if k, isc := intConst(c.Common().Args[1]); !isc || k != 1 {
			good = false
		}
	})
	r.Check(good && n > 0, rule, "SkipNBytes seeks from the current position", fn.Pos(), "Seek(n, io.SeekCurrent)", "the skip is an absolute seek: a part stream that does not start at offset 0 of its file (the compression middleware hands out verbatim parts positioned behind its header) is read from the wrong offset — the range response has the right length but the wrong bytes")
}

// checkRecoveryVisitsEveryEntry: the start-up recovery of the filesystem part store does not
// stop at the first entry it repaired.
func checkRecoveryVisitsEveryEntry(w *World, r *Run) {
	rule := r.Rule("recovery-visits-every-leftover", "F1",
		"inside the directory loop of recoverInterruptedTransactions every return reports an error (a repaired entry continues with the next one)", 1)
	fn := w.SSAFunc(relFSStore, "filesystemPartStore.recoverInterruptedTransactions")
	if fn == nil {
		r.Anchor(rule, "filesystemPartStore.recoverInterruptedTransactions")
		return
	}
	var loopBody *ssa.BasicBlock
	for _, b := range fn.Blocks {
		if strings.Contains(b.Comment, "rangeindex.body") && loopBody == nil {
			loopBody = b
		}
	}
	bad := ""
	for _, ret := range returnsOf(fn) {
		if loopBody == nil || !(loopBody == ret.Block() || loopBody.Dominates(ret.Block())) {
			continue
		}
		ei := errorResultIndex(fn)
		if ei < 0 || !definitelyNonNilError(retResult(ret, ei), ret.Block()) {
			bad = w.Pos(posOf(ret))
		}
	}
	r.Check(loopBody != nil && bad == "", rule, "recoverInterruptedTransactions keeps going after repairing an entry", fn.Pos(), "only error returns inside the loop", "the loop returns at "+bad+" without an error: after the first repaired backup the remaining leftovers of the same interrupted transaction are not restored — a multi-part object whose deletion never committed stays unreadable")
}

// checkC25TagPresence: a lifecycle tag predicate is satisfied only by an object that HAS the
// tag: the map lookup must be the comma-ok form and its "absent" edge must answer false. With
// a plain lookup a rule filtering on an empty tag value selects every object without the key.
func checkC25TagPresence(w *World, r *Run) {
	rule := r.Rule("tag-filter-requires-the-tag-to-be-present", "F1",
		"LifecycleRuleMatchesObject reads the object's tags only through value, ok := tags[key] and answers false on the edge where ok is false", 1)
	fn := w.SSAFunc("internal/storage", "LifecycleRuleMatchesObject")
	if fn == nil {
		r.Anchor(rule, "storage.LifecycleRuleMatchesObject")
		return
	}
	n := 0
	allInstrs(fn, false, func(_ *ssa.Function, ins ssa.Instruction) {
		lk, ok := ins.(*ssa.Lookup)
		if !ok {
			return
		}
		if _, isMap := lk.X.Type().Underlying().(*types.Map); !isMap || paramIndex(fn, lk.X) < 0 {
			return
		}
		n++
		cons := "LifecycleRuleMatchesObject: tag lookup"
		if n > 1 {
			cons += " #" + strconv.Itoa(n)
		}
		if !lk.CommaOk {
			r.Bad(rule, cons, lk.Pos(), "plain map lookup: an absent tag reads as the empty string, so a rule filtering on key=\"\" selects every object that does not carry the key at all (and expires or transitions it)")
			return
		}
		good := false
		for _, b := range fn.Blocks {
			if len(b.Succs) != 2 {
				continue
			}
			for k := 0; k < 2; k++ {
				for _, f := range edgeFacts(b, k) {
					ex, isEx := f.Val.(*ssa.Extract)
					if !isEx || ex.Tuple != ssa.Value(lk) || ex.Index != 1 || f.Kind != IsFalse {
						continue
					}
					succ := b.Succs[k]
					if ret, isRet := succ.Instrs[len(succ.Instrs)-1].(*ssa.Return); isRet && len(ret.Results) == 1 {
						if bv, isC := boolConst(ret.Results[0]); isC && !bv {
							good = true
						}
					}
				}
			}
		}
		r.Check(good, rule, cons, lk.Pos(), "absent tag → no match", "the edge on which the tag is absent does not answer false: objects without the tag can match the rule")
	})
	if n == 0 {
		r.Bad(rule, "LifecycleRuleMatchesObject: tag lookup", fn.Pos(), "no lookup in the object's tag map found")
	}
}

// checkCopyDateConditions: HTTP dates have whole-second resolution; every comparison of a
// source object's LastModified with x-amz-copy-source-if-(un)modified-since uses the time
// truncated to seconds, in both places that evaluate the conditions (same-storage copies in
// metadatapart, cross-storage copies in the conditional middleware) — otherwise the two
// routes answer differently for a date in the second of the modification.
func checkCopyDateConditions(w *World, r *Run) {
	rule := r.Rule("copy-source-dates-compare-whole-seconds", "F2",
		"every (time.Time).After/Before/Equal/Compare between an object's modification time and CopySourceConditions.IfModifiedSince / IfUnmodifiedSince has a receiver produced by Truncate(time.Second), in every function that evaluates these conditions", 4)
	n := 0
	for _, fn := range w.allFuncs {
		if fn.Pkg == nil {
			continue
		}
		rel := pkgRel(fn.Pkg.Pkg)
		if rel != "internal/storage/metadatapart" && rel != "internal/storage/middlewares/conditional" {
			continue
		}
		allInstrs(fn, false, func(_ *ssa.Function, ins ssa.Instruction) {
			c, ok := ins.(*ssa.Call)
			if !ok {
				return
			}
			g := calleeObj(c)
			if g == nil || g.Pkg() == nil || g.Pkg().Path() != "time" || recvNamed(g) == nil || recvNamed(g).Obj().Name() != "Time" {
				return
			}
			switch g.Name() {
			case "After", "Before", "Equal", "Compare":
			default:
				return
			}
			field := ""
			for _, a := range c.Call.Args[1:] {
				for _, fld := range []string{"IfModifiedSince", "IfUnmodifiedSince"} {
					if derivesFromFieldOf(a, fld, nil) {
						field = fld
					}
				}
			}
			if field == "" {
				return
			}
			n++
			trunc := sliceContains(c.Call.Args[0], false, func(x ssa.Value) bool {
				cc, ok := x.(*ssa.Call)
				if !ok {
					return false
				}
				tg := calleeObj(cc)
				if tg == nil || tg.Name() != "Truncate" || len(cc.Call.Args) != 2 {
					return false
				}
				k, isC := intConst(cc.Call.Args[1])
				return isC && k == 1000000000
			})
			cons := strings.TrimPrefix(funcName(topFunc(fn)), "internal/storage/") + ": " + g.Name() + "(" + field + ")"
			r.Check(trunc, rule, cons, c.Pos(), "LastModified.Truncate(time.Second)", "the modification time is compared with sub-second precision against a whole-second HTTP date: for a date in the second of the modification this evaluation answers differently from its sibling (and from S3)")
		})
	}
	if n == 0 {
		r.Bad(rule, "copy-source date conditions", token.NoPos, "no comparison against IfModifiedSince / IfUnmodifiedSince found")
	}
}

// checkC34WildcardOverlap: a one-star pattern matches a value only if prefix and suffix fit
// into the value side by side; HasPrefix && HasSuffix alone lets them overlap
// ("https://app.*.example.com" would match "https://app.example.com").
func checkC34WildcardOverlap(w *World, r *Run) {
	rule := r.Rule("wildcard-prefix-and-suffix-do-not-overlap", "F1",
		"in wildcardMatch the HasPrefix/HasSuffix tests of a pattern with a star are reached only where len(value) >= len(prefix)+len(suffix)", 1)
	fn := w.SSAFunc("internal/http/middleware", "wildcardMatch")
	if fn == nil {
		r.Anchor(rule, "middleware.wildcardMatch")
		return
	}
	isLenValue := func(v ssa.Value) bool {
		return isLenOf(v, func(x ssa.Value) bool { return paramIndex(fn, x) == 1 })
	}
	isSum := func(v ssa.Value) bool {
		b, ok := v.(*ssa.BinOp)
		return ok && b.Op == token.ADD
	}
	var pre, suf *ssa.Call
	allInstrs(fn, false, func(_ *ssa.Function, ins ssa.Instruction) {
		c, ok := ins.(*ssa.Call)
		if !ok {
			return
		}
		g := calleeObj(c)
		if g == nil || g.Pkg() == nil || g.Pkg().Path() != "strings" || len(c.Call.Args) != 2 || paramIndex(fn, c.Call.Args[0]) != 1 {
			return
		}
		switch g.Name() {
		case "HasPrefix":
			pre = c
		case "HasSuffix":
			suf = c
		}
	})
	if pre == nil || suf == nil {
		r.OK(rule, "wildcardMatch: prefix and suffix fit side by side", fn.Pos(), "no combined HasPrefix/HasSuffix test on the value")
		return
	}
	good := true
	for _, c := range []*ssa.Call{pre, suf} {
		okc := false
		for _, f := range factsAt(c.Block()) {
			b, isB := f.Val.(*ssa.BinOp)
			if !isB {
				continue
			}
			switch {
			case isLenValue(b.X) && isSum(b.Y):
				okc = okc || (b.Op == token.LSS && f.Kind == IsFalse) || (b.Op == token.GEQ && f.Kind == IsTrue)
			case isSum(b.X) && isLenValue(b.Y):
				okc = okc || (b.Op == token.GTR && f.Kind == IsFalse) || (b.Op == token.LEQ && f.Kind == IsTrue)
			}
		}
		good = good && okc
	}
	r.Check(good, rule, "wildcardMatch: prefix and suffix fit side by side", pre.Pos(), "len(value) >= len(prefix)+len(suffix) dominates both tests",
		"prefix and suffix may overlap inside the value: a value shorter than the pattern's literal parts matches (origin https://app.example.com against https://app.*.example.com), so CORS headers are granted without a matching rule")
}

// checkC31GuardRoles: inside the guard helpers the values the caller passed as "bucket", "key",
// "source bucket", "source key" reach the authorizer request in the field of the same role.
// The dominance rules show that the authorizer was asked; this one shows it was asked about
// the resource the handler goes on to use.
func checkC31GuardRoles(w *World, r *Run) {
	rule := r.Rule("guard-arguments-reach-the-request-field-of-their-role", "F9",
		"makeAuthorizationRequest stores its operation/bucket/key parameters in Request.Operation/Bucket/Key; authorizeCopyRequest authorizes the destination as Bucket/Key and stores the source parameters in SourceBucket/SourceKey and binds the source-tag resolver to them; the other guards pass their bucket/key on in position", 9)
	type role struct {
		src  bool
		kind string
	}
	roleOf := func(p *ssa.Parameter) role {
		n := strings.ToLower(p.Name())
		src := strings.Contains(n, "src") || strings.Contains(n, "source")
		switch {
		case strings.Contains(n, "version"):
			return role{src, "version"}
		case strings.Contains(n, "bucket"):
			return role{src, "bucket"}
		case strings.Contains(n, "key"):
			return role{src, "key"}
		case strings.Contains(n, "operation"):
			return role{false, "operation"}
		}
		return role{}
	}
	// which role-carrying parameters of fn reach v
	reach := func(fn *ssa.Function, v ssa.Value) map[role]bool {
		out := map[role]bool{}
		backSlice(v, true, func(x ssa.Value) {
			if p, ok := x.(*ssa.Parameter); ok && p.Parent() == fn {
				if ro := roleOf(p); ro.kind != "" {
					out[ro] = true
				}
			}
		})
		return out
	}
	only := func(m map[role]bool, want role) bool {
		if !m[want] {
			return false
		}
		for ro := range m {
			if ro != want && ro.kind != "version" {
				return false
			}
		}
		return true
	}
	checkFieldStores := func(fn *ssa.Function, fname string, want map[string]role) {
		seen := map[string]bool{}
		allInstrs(fn, false, func(_ *ssa.Function, ins ssa.Instruction) {
			st, ok := ins.(*ssa.Store)
			if !ok {
				return
			}
			fa, ok := st.Addr.(*ssa.FieldAddr)
			if !ok || structNameOf(fa.X.Type()) != "Request" {
				return
			}
			f := fieldName(fa.X.Type(), fa.Field)
			ro, ok := want[f]
			if !ok {
				return
			}
			seen[f] = true
			r.Check(only(reach(fn, st.Val), ro), rule, fname+": Request."+f, st.Pos(), "from the parameter of that role", "the authorizer is asked about a different "+ro.kind+" than the one the caller named for this role: a policy on "+f+" is evaluated against the wrong resource")
		})
		for f := range want {
			if !seen[f] {
				r.Bad(rule, fname+": Request."+f, fn.Pos(), "the field is never set from the guard's parameters")
			}
		}
	}
	checkCallArgs := func(fn *ssa.Function, fname, callee string, want map[int]role) {
		found := false
		allInstrs(fn, false, func(_ *ssa.Function, ins ssa.Instruction) {
			c, ok := ins.(*ssa.Call)
			if !ok || !isCallNamed(c, callee) {
				return
			}
			found = true
			for i, ro := range want {
				if i >= len(c.Call.Args) {
					continue
				}
				r.Check(only(reach(fn, c.Call.Args[i]), ro), rule, fname+" → "+callee+" arg "+strconv.Itoa(i), c.Pos(), "from the parameter of that role", "the "+ro.kind+" handed on is not the one the caller named for this role")
			}
		})
		if !found {
			r.Bad(rule, fname+" → "+callee, fn.Pos(), "call not found")
		}
	}
	if fn := w.SSAFunc(relServer, "makeAuthorizationRequest"); fn == nil {
		r.Anchor(rule, relServer+".makeAuthorizationRequest")
	} else {
		checkFieldStores(fn, "makeAuthorizationRequest", map[string]role{"Operation": {false, "operation"}, "Bucket": {false, "bucket"}, "Key": {false, "key"}})
	}
	if fn := w.SSAFunc(relServer, "Server.authorizeCopyRequest"); fn == nil {
		r.Anchor(rule, relServer+".Server.authorizeCopyRequest")
	} else {
		checkFieldStores(fn, "authorizeCopyRequest", map[string]role{"SourceBucket": {true, "bucket"}, "SourceKey": {true, "key"}})
		checkCallArgs(fn, "authorizeCopyRequest", "makeAuthorizationRequest", map[int]role{1: {false, "operation"}, 2: {false, "bucket"}, 3: {false, "key"}})
		checkCallArgs(fn, "authorizeCopyRequest", "makeExistingObjectTagsResolver", map[int]role{1: {true, "bucket"}, 2: {true, "key"}})
		checkCallArgs(fn, "authorizeCopyRequest", "bindExistingObjectTagsResolver", map[int]role{2: {false, "bucket"}, 3: {false, "key"}})
	}
	if fn := w.SSAFunc(relServer, "Server.authorizeRequestWithRequestTags"); fn == nil {
		r.Anchor(rule, relServer+".Server.authorizeRequestWithRequestTags")
	} else {
		checkCallArgs(fn, "authorizeRequestWithRequestTags", "makeAuthorizationRequest", map[int]role{1: {false, "operation"}, 2: {false, "bucket"}, 3: {false, "key"}})
		checkCallArgs(fn, "authorizeRequestWithRequestTags", "bindExistingObjectTagsResolver", map[int]role{2: {false, "bucket"}, 3: {false, "key"}})
	}
}

// expandFalse: the values known to be false at block b, with `x := a || b || c; if x` undone:
// a phi that is false arrived over an edge carrying a non-true value, so that value is false
// and so is everything the edge's source block knows to be false.
func expandFalse(b *ssa.BasicBlock) []ssa.Value {
	var out []ssa.Value
	seen := map[ssa.Value]bool{}
	var addFacts func(fs []Fact, depth int)
	var addVal func(v ssa.Value, depth int)
	addVal = func(v ssa.Value, depth int) {
		if v == nil || seen[v] || depth > 6 {
			return
		}
		seen[v] = true
		out = append(out, v)
		phi, ok := v.(*ssa.Phi)
		if !ok {
			return
		}
		var live []int
		for i, e := range phi.Edges {
			if bv, isC := boolConst(e); isC && bv {
				continue
			}
			live = append(live, i)
		}
		if len(live) != 1 {
			return
		}
		i := live[0]
		addVal(phi.Edges[i], depth+1)
		pred := phi.Block().Preds[i]
		addFacts(append(factsAt(pred), lastEdgeFacts(pred, phi.Block())...), depth+1)
	}
	addFacts = func(fs []Fact, depth int) {
		for _, f := range fs {
			if f.Kind == IsFalse {
				addVal(f.Val, depth)
			}
		}
	}
	addFacts(factsAt(b), 0)
	return out
}

// checkC06EarlyStop: the filtering list loop may stop in the middle of a storage page when
// the response is full. It may then claim "not truncated" only if nothing of the page is left:
// no further object, no common prefix, and the storage page itself was the last one.
func checkC06EarlyStop(w *World, r *Run) {
	rule := r.Rule("a-full-response-is-final-only-if-nothing-is-left", "F1",
		"in listAndFilterObjects every return from inside the object loop that does not set IsTruncated is reached only where objectIndex < len(result.Objects)-1, len(result.CommonPrefixes) > 0 and result.IsTruncated are all false", 1)
	fn := w.SSAFunc(relServer, "Server.listAndFilterObjects")
	if fn == nil {
		r.Anchor(rule, relServer+".Server.listAndFilterObjects")
		return
	}
	// the block that loads the current element of result.Objects
	var elemBlock *ssa.BasicBlock
	var idx ssa.Value
	allInstrs(fn, false, func(_ *ssa.Function, ins ssa.Instruction) {
		ia, ok := ins.(*ssa.IndexAddr)
		if !ok || elemBlock != nil {
			return
		}
		if derivesFromFieldOf(ia.X, "Objects", nil) && !derivesFromFieldOf(ia.X, "CommonPrefixes", nil) {
			elemBlock, idx = ia.Block(), ia.Index
		}
	})
	if elemBlock == nil {
		r.Bad(rule, "listAndFilterObjects: early stop", fn.Pos(), "the loop over result.Objects was not found")
		return
	}
	n := 0
	for _, ret := range returnsOf(fn) {
		if ret.Block() == fn.Recover || !elemBlock.Dominates(ret.Block()) || len(ret.Results) < 3 {
			continue
		}
		if !isNilConst(stripConv(retResult(ret, 2))) {
			continue // error return
		}
		res := retResult(ret, 0)
		if isNilConst(stripConv(res)) {
			continue
		}
		truncated := false
		if al, ok := res.(*ssa.Alloc); ok {
			if refs := al.Referrers(); refs != nil {
				for _, ref := range *refs {
					if fa, ok := ref.(*ssa.FieldAddr); ok && fieldName(fa.X.Type(), fa.Field) == "IsTruncated" {
						for _, sv := range storesTo(fa) {
							if bv, isC := boolConst(sv); !isC || bv {
								truncated = true
							}
						}
					}
				}
			}
		} else {
			truncated = true // not a literal: cannot be judged here
		}
		if truncated {
			continue
		}
		n++
		var moreObjects, morePrefixes, pageTruncated bool
		for _, v := range expandFalse(ret.Block()) {
			if nm, _ := fieldLoadName(v); nm == "IsTruncated" {
				pageTruncated = true
			}
			bo, ok := v.(*ssa.BinOp)
			if !ok {
				continue
			}
			switch bo.Op {
			case token.LSS:
				if sameValue(bo.X, idx) && sliceContains(bo.Y, false, func(x ssa.Value) bool {
					return isLenOf(x, func(y ssa.Value) bool { return derivesFromFieldOf(y, "Objects", nil) })
				}) {
					moreObjects = true
				}
			case token.GTR:
				if isLenOf(bo.X, func(y ssa.Value) bool { return derivesFromFieldOf(y, "CommonPrefixes", nil) }) {
					if k, isC := intConst(bo.Y); isC && k == 0 {
						morePrefixes = true
					}
				}
			}
		}
		cons := "listAndFilterObjects: full response inside a page claims completeness"
		if n > 1 {
			cons += " #" + strconv.Itoa(n)
		}
		missing := []string{}
		if !moreObjects {
			missing = append(missing, "objects after the current one in the page")
		}
		if !morePrefixes {
			missing = append(missing, "common prefixes of the page")
		}
		if !pageTruncated {
			missing = append(missing, "a truncated storage page")
		}
		r.Check(len(missing) == 0, rule, cons, ret.Pos(), "index is the last, no common prefixes, page not truncated", "IsTruncated=false is returned without having excluded "+strings.Join(missing, ", ")+": when the authorizer hides some keys the response can fill up mid-page and the remaining visible keys are never listed")
	}
	if n == 0 {
		r.OK(rule, "listAndFilterObjects: full response inside a page claims completeness", fn.Pos(), "no return from inside the object loop claims a complete listing")
	}
}

// checkC07DeleteCondition: a DeleteObject carrying If-Match must compare the ETag of the row
// it is about to remove (or hide behind a delete marker) before any row is written — on the
// versioned, suspended and unversioned branch alike.
func checkC07DeleteCondition(w *World, r *Run) {
	rule := r.Rule("conditional-delete-tests-the-etag-before-any-effect", "F1",
		"in the SQL metadata store's DeleteObject every mutating repository call is reachable only over an edge that established: no options, no If-Match, If-Match is the wildcard, or the row's ETag equals *If-Match", 5)
	fn := w.SSAFunc("internal/storage/metadatapart/metadatastore/sql", "sqlMetadataStore.DeleteObject")
	if fn == nil {
		r.Anchor(rule, "sql.sqlMetadataStore.DeleteObject")
		return
	}
	isOpts := func(v ssa.Value) bool {
		p, ok := stripConv(v).(*ssa.Parameter)
		return ok && strings.HasSuffix(p.Type().String(), "DeleteObjectOptions")
	}
	isIfMatchPtr := func(v ssa.Value) bool {
		n, base := fieldLoadName(v)
		return n == "IfMatchETag" && base != nil
	}
	isIfMatchVal := func(v ssa.Value) bool {
		ld, ok := stripConv(v).(*ssa.UnOp)
		return ok && ld.Op == token.MUL && isIfMatchPtr(ld.X)
	}
	pred := func(f Fact) bool {
		switch f.Kind {
		case IsNil:
			return isOpts(f.Val) || isIfMatchPtr(f.Val)
		case EqConst:
			if f.Const != nil {
				return isIfMatchVal(f.Val) // == wildcard constant
			}
			if f.Other != nil {
				a, _ := fieldLoadName(f.Val)
				b, _ := fieldLoadName(f.Other)
				return (a == "ETag" && isIfMatchVal(f.Other)) || (b == "ETag" && isIfMatchVal(f.Val))
			}
		}
		return false
	}
	n := 0
	allInstrs(fn, false, func(_ *ssa.Function, ins ssa.Instruction) {
		c, ok := ins.(ssa.CallInstruction)
		if !ok {
			return
		}
		g := calleeObj(c)
		if g == nil {
			return
		}
		name := g.Name()
		mut := false
		for _, p := range []string{"Save", "Delete", "Update", "Remove", "remove", "Replace", "replace"} {
			if strings.HasPrefix(name, p) {
				mut = true
			}
		}
		if !mut || (!c.Common().IsInvoke() && recvNamed(g) == nil) {
			return
		}
		n++
		cons := "sql DeleteObject → " + name
		k := 1
		for r.hasConstruct(rule, cons) {
			k++
			cons = "sql DeleteObject → " + name + " #" + strconv.Itoa(k)
		}
		r.Check(everyPathEstablishes(ins.Block(), pred), rule, cons, posOf(ins), "after the If-Match test", "a path reaches this write without the caller's If-Match having been compared with the row's ETag: a deleter holding a stale ETag removes (or hides behind a delete marker) a newer acknowledged write")
	})
	if n == 0 {
		r.Bad(rule, "sql DeleteObject: mutating calls", fn.Pos(), "no repository write found")
	}
}

// checkC11EmptyMetadata: parseObjectMetadataHeaders may answer "the request carries no
// metadata" (nil) only after having seen every field of ObjectMetadata absent; a field missing
// from that test is dropped whenever it is the only one supplied.
func checkC11EmptyMetadata(w *World, r *Run) {
	rule := r.Rule("no-metadata-means-every-field-absent", "F3",
		"the nil result of parseObjectMetadataHeaders is dominated by a nil test of every field of storage.ObjectMetadata", 1)
	fn := w.SSAFunc(relServer, "parseObjectMetadataHeaders")
	md := w.Named("internal/storage", "ObjectMetadata")
	if fn == nil || md == nil {
		r.Anchor(rule, relServer+".parseObjectMetadataHeaders / storage.ObjectMetadata")
		return
	}
	n := 0
	for _, ret := range returnsOf(fn) {
		if len(ret.Results) != 2 || !isNilConst(stripConv(retResult(ret, 0))) || !isNilConst(stripConv(retResult(ret, 1))) {
			continue
		}
		n++
		tested := map[string]bool{}
		for _, f := range factsAt(ret.Block()) {
			if f.Kind != IsNil {
				continue
			}
			if nm, _ := fieldLoadName(f.Val); nm != "" {
				tested[nm] = true
			}
		}
		var missing []string
		for _, fld := range structFieldsOf(md) {
			if !tested[fld.Name()] {
				missing = append(missing, fld.Name())
			}
		}
		cons := "parseObjectMetadataHeaders: nil result"
		if n > 1 {
			cons += " #" + strconv.Itoa(n)
		}
		r.Check(len(missing) == 0, rule, cons, ret.Pos(), "all fields tested absent", "the request is treated as carrying no metadata although "+strings.Join(missing, ", ")+" was not tested: a write supplying only that header loses it (and a REPLACE copy clears the metadata instead of storing it)")
	}
	if n == 0 {
		r.OK(rule, "parseObjectMetadataHeaders: nil result", fn.Pos(), "never answers nil without an error")
	}
}

// checkReadersKeepBytes: the io.Reader contract allows Read to return n > 0 together with an
// error (notably io.EOF). Code that receives (n, err) from a Read must not drop those n bytes:
//   - a Read wrapper (a method Read(p) (int, error) calling an inner Read) may return 0 after
//     the inner call only where n == 0 (or n <= 0) is established;
//   - ioutils.ReadChunk extends its buffer by n before it looks at err.
func checkReadersKeepBytes(w *World, r *Run, rule string) {
	isReadCall := func(c *ssa.Call) bool {
		g := calleeObj(c)
		if g == nil || g.Name() != "Read" {
			return false
		}
		sig, _ := g.Type().(*types.Signature)
		if sig == nil || sig.Params().Len() != 1 || sig.Results().Len() != 2 {
			return false
		}
		if _, isSlice := sig.Params().At(0).Type().Underlying().(*types.Slice); !isSlice {
			return false
		}
		return isErrorType(sig.Results().At(1).Type())
	}
	nZero := func(n ssa.Value, at *ssa.BasicBlock) bool {
		for _, f := range factsAt(at) {
			if f.Kind == EqConst && f.Const != nil && sameValue(f.Val, n) {
				if k, ok := intConst(f.Const); ok && k == 0 {
					return true
				}
			}
			b, isB := f.Val.(*ssa.BinOp)
			if !isB || !sameValue(b.X, n) {
				continue
			}
			k, isC := intConst(b.Y)
			if !isC {
				continue
			}
			switch {
			case b.Op == token.GTR && k == 0 && f.Kind == IsFalse,
				b.Op == token.GEQ && k == 1 && f.Kind == IsFalse,
				b.Op == token.LEQ && k == 0 && f.Kind == IsTrue,
				b.Op == token.LSS && k == 1 && f.Kind == IsTrue:
				return true
			}
		}
		return false
	}
	sites := 0
	for _, fn := range w.allFuncs {
		if fn.Pkg == nil || !strings.HasPrefix(fn.Pkg.Pkg.Path(), "github.com/jdillenkofer/pithos/") || fn.Name() != "Read" {
			continue
		}
		sig := fn.Signature
		if sig.Results().Len() != 2 || !isErrorType(sig.Results().At(1).Type()) {
			continue
		}
		allInstrs(fn, false, func(_ *ssa.Function, ins ssa.Instruction) {
			c, ok := ins.(*ssa.Call)
			if !ok || !isReadCall(c) {
				return
			}
			var n ssa.Value
			if refs := c.Referrers(); refs != nil {
				for _, ref := range *refs {
					if e, ok := ref.(*ssa.Extract); ok && e.Index == 0 {
						n = e
					}
				}
			}
			if n == nil {
				return // result returned whole
			}
			sites++
			cons := strings.TrimPrefix(funcName(fn), "internal/") + ": bytes of the inner Read"
			bad := token.NoPos
			for _, ret := range returnsOf(fn) {
				if ret.Block() == fn.Recover || !canReach(c, ret) || !c.Block().Dominates(ret.Block()) {
					continue
				}
				rn := retResult(ret, 0)
				if k, isC := intConst(rn); isC && k == 0 && !nZero(n, ret.Block()) {
					bad = ret.Pos()
				}
			}
			r.Check(bad == token.NoPos, rule, cons, func() token.Pos {
				if bad != token.NoPos {
					return bad
				}
				return c.Pos()
			}(), "0 is returned only where n == 0", "after the inner Read delivered n bytes the wrapper can return 0: bytes handed over together with io.EOF (or another error) are dropped from the stream")
		})
	}
	if fn := w.SSAFunc("internal/ioutils", "ReadChunk"); fn == nil {
		r.Anchor(rule, "ioutils.ReadChunk")
	} else {
		var rd *ssa.Call
		allInstrs(fn, false, func(_ *ssa.Function, ins ssa.Instruction) {
			if c, ok := ins.(*ssa.Call); ok && isReadCall(c) {
				rd = c
			}
		})
		good := false
		if rd != nil {
			var ext ssa.Instruction
			allInstrs(fn, false, func(_ *ssa.Function, ins ssa.Instruction) {
				sl, ok := ins.(*ssa.Slice)
				if !ok || sl.High == nil {
					return
				}
				if sliceContains(sl.High, false, func(x ssa.Value) bool {
					e, ok := x.(*ssa.Extract)
					return ok && e.Tuple == ssa.Value(rd) && e.Index == 0
				}) {
					ext = sl
				}
			})
			good = ext != nil
			for _, ret := range returnsOf(fn) {
				if ext != nil && rd.Block().Dominates(ret.Block()) && canReach(rd, ret) && !instrDominates(ext, ret) {
					good = false
				}
			}
		}
		sites++
		r.Check(good, rule, "ioutils.ReadChunk: buffer extended by n before err is examined", fn.Pos(), "buf = buf[:len(buf)+n] dominates the error return", "ReadChunk returns on the reader's error without having added the n bytes delivered with it: a source whose last Read returns (n>0, io.EOF) — an HTTP request body with Content-Length does — loses its tail, and PutPart stores a truncated part")
	}
	if sites == 0 {
		r.Bad(rule, "Read wrappers", token.NoPos, "no Read wrapper found")
	}
}

// checkC09PagedListings: the collector learns what a store holds through GetPartIds. The
// cloud stores list page by page; the listing is complete only if it goes on until the
// service's continuation marker says so — a short page does not mean a last page.
func checkC09PagedListings(w *World, r *Run) {
	rule := r.Rule("paged-listings-stop-only-on-the-continuation-marker", "F1",
		"in GetPartIds of the Google Drive, Dropbox and OneDrive part stores no branch outside the per-item loops depends on the number of items a page carried (len of the page's item list)", 3)
	for _, st := range []struct{ rel, fn, items string }{
		{"internal/storage/metadatapart/partstore/gdrive", "gdrivePartStore.GetPartIds", "Files"},
		{"internal/storage/metadatapart/partstore/dropbox", "dropboxPartStore.GetPartIds", "Entries"},
		{"internal/storage/metadatapart/partstore/onedrive", "store.GetPartIds", "Value"},
	} {
		fn := w.SSAFunc(st.rel, st.fn)
		if fn == nil {
			r.Anchor(rule, st.rel+"."+st.fn)
			continue
		}
		bad := token.NoPos
		for _, b := range fn.Blocks {
			if len(b.Instrs) == 0 {
				continue
			}
			iff, ok := b.Instrs[len(b.Instrs)-1].(*ssa.If)
			if !ok || isLoopTest(iff) {
				continue
			}
			if sliceContains(iff.Cond, false, func(x ssa.Value) bool {
				return isLenOf(x, func(y ssa.Value) bool { return derivesFromFieldOf(y, st.items, nil) })
			}) {
				bad = posOf(iff)
			}
		}
		cons := strings.TrimPrefix(st.rel, "internal/storage/metadatapart/partstore/") + " GetPartIds: pagination ends on the continuation marker only"
		pos := fn.Pos()
		if bad != token.NoPos {
			pos = bad
		}
		r.Check(bad == token.NoPos, rule, cons, pos, "no branch on the page's item count", "the listing loop branches on how many items the page carried: services may return a short page together with a continuation marker, so parts listed behind it are never seen by the collector and stay in the store forever")
	}
}

// checkC23Rewind: a request body is forwarded to the primary and then to every secondary from
// one cached reader. Each secondary must receive it from the start: the Seek(0, SeekStart)
// belongs inside the loop over the secondaries, before the forward of that iteration.
func checkC23Rewind(w *World, r *Run) {
	rule := r.Rule("body-rewound-for-every-secondary", "F1",
		"every call on a secondary storage that passes a reader is dominated by a Seek on that reader located in the same loop iteration (after the loop test)", 3)
	T := w.Named("internal/storage/replication", "replicationStorage")
	if T == nil {
		r.Anchor(rule, "replication.replicationStorage")
		return
	}
	n := 0
	for _, fn := range w.allFuncs {
		if fn.Signature.Recv() == nil || recvNamedOfSig(fn.Signature) != T {
			continue
		}
		allInstrs(fn, false, func(_ *ssa.Function, ins ssa.Instruction) {
			c, ok := ins.(ssa.CallInstruction)
			if !ok || !c.Common().IsInvoke() {
				return
			}
			if _, isStorage := storageMethods[c.Common().Method.Name()]; !isStorage {
				return
			}
			// receiver is an element of rs.secondaryStorages
			if !derivesFromFieldOf(c.Common().Value, "secondaryStorages", nil) {
				return
			}
			var body ssa.Value
			for _, a := range c.Common().Args {
				ts := a.Type().String()
				if strings.HasSuffix(ts, "io.Reader") || strings.Contains(ts, "ReadSeekCloser") || strings.HasSuffix(ts, "io.ReadSeeker") {
					body = a
				}
			}
			if body == nil {
				return
			}
			n++
			// innermost loop test dominating the call
			var head *ssa.BasicBlock
			for d := ins.Block().Idom(); d != nil && head == nil; d = d.Idom() {
				if len(d.Instrs) == 0 {
					continue
				}
				if iff, ok := d.Instrs[len(d.Instrs)-1].(*ssa.If); ok && isLoopTest(iff) {
					head = d
				}
			}
			good := false
			allInstrs(fn, false, func(_ *ssa.Function, i2 ssa.Instruction) {
				s, ok := i2.(ssa.CallInstruction)
				if !ok || !s.Common().IsInvoke() || s.Common().Method.Name() != "Seek" {
					return
				}
				if !sameValue(stripConv(s.Common().Value), stripConv(body)) && !sliceContains(body, false, func(x ssa.Value) bool { return x == s.Common().Value }) {
					return
				}
				if k, isC := intConst(s.Common().Args[0]); !isC || k != 0 {
					return
				}
				if instrDominates(i2, ins) && head != nil && head.Dominates(i2.Block()) && head != i2.Block() {
					good = true
				}
			})
			cons := strings.TrimPrefix(funcName(fn), "internal/storage/replication.") + " → secondary." + c.Common().Method.Name() + ": body rewound in the iteration"
			r.Check(good, rule, cons, posOf(ins), "Seek(0, SeekStart) inside the loop before the forward", "the body is not rewound inside the loop over the secondaries: the first secondary leaves the reader at its end, every further secondary receives an empty body and silently diverges from the primary")
		})
	}
	if n == 0 {
		r.Bad(rule, "replication: secondaries receiving a body", token.NoPos, "no forward of a reader to a secondary found")
	}
}

func recvNamedOfSig(sig *types.Signature) *types.Named {
	if sig == nil || sig.Recv() == nil {
		return nil
	}
	t := sig.Recv().Type()
	if p, ok := t.(*types.Pointer); ok {
		t = p.Elem()
	}
	n, _ := types.Unalias(t).(*types.Named)
	return n
}

// checkC24CopyClass: the storage class of a copy's destination is the one the request names
// (absent means STANDARD) on both routes; the cross-storage route must not inherit the
// source object's class, which the same-storage route never does.
func checkC24CopyClass(w *World, r *Run) {
	rule := r.Rule("cross-storage-copy-takes-the-class-from-the-request", "F9",
		"every value stored into PutObjectOptions.StorageClass by the conditional middleware's CopyObject derives from the StorageClass of the CopyObjectOptions parameter and from nothing read off the source object", 1)
	fn := w.SSAFunc("internal/storage/middlewares/conditional", "conditionalStorageMiddleware.CopyObject")
	if fn == nil {
		r.Anchor(rule, "conditional.conditionalStorageMiddleware.CopyObject")
		return
	}
	var opts *ssa.Parameter
	for _, p := range fn.Params {
		if strings.HasSuffix(p.Type().String(), "CopyObjectOptions") {
			opts = p
		}
	}
	stores := fieldStoresIn(fn, true, "PutObjectOptions")["StorageClass"]
	if len(stores) == 0 || opts == nil {
		r.Bad(rule, "conditional.CopyObject: PutObjectOptions.StorageClass", fn.Pos(), "no store to PutObjectOptions.StorageClass found: the requested class is dropped on the cross-storage route")
		return
	}
	good, why := true, ""
	for _, st := range stores {
		if isNilConst(stripConv(st.val)) {
			continue
		}
		fromReq := derivesFromFieldOf(st.val, "StorageClass", func(b ssa.Value) bool { return b == opts })
		fromSrc := sliceContains(st.val, false, func(x ssa.Value) bool {
			c, ok := x.(*ssa.Call)
			return ok && (isCallNamed(c, "HeadObject") || isCallNamed(c, "GetObject"))
		})
		if !fromReq || fromSrc {
			good, why = false, "a value read from the source object is stored as the destination's class"
		}
	}
	r.Check(good, rule, "conditional.CopyObject: PutObjectOptions.StorageClass", fn.Pos(), "opts.StorageClass only", why+": a cross-storage copy of a STANDARD_IA/GLACIER source without x-amz-storage-class lands in that class where a same-storage copy lands in STANDARD")
}

// checkC33HostRouting: which handler serves a request is decided by the Host header. The
// read/write API handler may be chosen only for the API endpoint itself or a host ending in
// "." + endpoint; a bare suffix test would hand custom-domain and website hosts that merely
// end in the endpoint string (cdn-s3.localhost for s3.localhost) to the API.
func checkC33HostRouting(w *World, r *Run) {
	rule := r.Rule("host-routing-matches-whole-labels", "F1",
		"in MakeHostnameRoutingHandler every strings.HasSuffix/TrimSuffix on the request host uses \".\"+endpoint, never the bare endpoint; the API handler is reached only under host == apiEndpoint or such a suffix match", 2)
	fn := w.SSAFunc("internal/http/middleware", "MakeHostnameRoutingHandler")
	if fn == nil {
		r.Anchor(rule, "middleware.MakeHostnameRoutingHandler")
		return
	}
	n := 0
	allInstrs(fn, true, func(_ *ssa.Function, ins ssa.Instruction) {
		c, ok := ins.(*ssa.Call)
		if !ok {
			return
		}
		g := calleeObj(c)
		if g == nil || g.Pkg() == nil || g.Pkg().Path() != "strings" || (g.Name() != "HasSuffix" && g.Name() != "TrimSuffix") {
			return
		}
		n++
		// the suffix operand: a free variable / value built as "." + <endpoint parameter>
		dotted := sliceContains(c.Call.Args[1], false, func(x ssa.Value) bool {
			b, ok := x.(*ssa.BinOp)
			if !ok || b.Op != token.ADD {
				return false
			}
			s, isStr := constString(b.X)
			return isStr && s == "."
		})
		cons := "MakeHostnameRoutingHandler: " + g.Name() + " #" + strconv.Itoa(n)
		r.Check(dotted, rule, cons, c.Pos(), "suffix is \".\"+endpoint", "the host is matched against the bare endpoint string: a host that merely ends in it (cdn-"+"s3.example for s3.example) is routed like the endpoint — custom-domain and website hosts reach the read/write API")
	})
	if n == 0 {
		r.Bad(rule, "MakeHostnameRoutingHandler: suffix tests", fn.Pos(), "no suffix test on the host found")
	}
}

// checkC32ListUnfiltered: the authorizer decides "no proxy list configured → trust the peer"
// versus "a list is configured → trust only members; entries that do not parse match nobody".
// That distinction survives only if the configured list reaches it as configured: a getter
// that drops malformed entries turns "all entries malformed" into "nothing configured".
func checkC32ListUnfiltered(w *World, r *Run) {
	rule := r.Rule("configured-proxy-list-reaches-the-authorizer-as-configured", "F9",
		"Settings.TrustedProxyCIDRs returns the configured slice itself (or an empty slice only where the field is nil): no element is added, dropped or rewritten on the way", 1)
	fn := w.SSAFunc("internal/settings", "Settings.TrustedProxyCIDRs")
	if fn == nil {
		r.Anchor(rule, "settings.Settings.TrustedProxyCIDRs")
		return
	}
	good, why := true, ""
	for _, ret := range returnsOf(fn) {
		if ret.Block() == fn.Recover || len(ret.Results) != 1 {
			continue
		}
		v := retResult(ret, 0)
		if n, _ := fieldLoadName(stripConv(v)); n == "trustedProxyCIDRs" {
			continue
		}
		// otherwise: a fresh, empty slice under "field == nil"
		fieldNil := false
		for _, f := range factsAt(ret.Block()) {
			if n, _ := fieldLoadName(f.Val); n == "trustedProxyCIDRs" && f.Kind == IsNil {
				fieldNil = true
			}
		}
		rebuilt := sliceContains(v, false, func(x ssa.Value) bool { return isBuiltinCall(x, "append") })
		if !fieldNil || rebuilt {
			good, why = false, "a slice other than the configured one is returned"
			if rebuilt {
				why = "the returned slice is rebuilt element by element"
			}
		}
	}
	r.Check(good, rule, "Settings.TrustedProxyCIDRs returns the configured list", fn.Pos(), "the field, or empty when nil", why+": entries can be dropped before the authorizer sees them, so a list whose entries are all malformed arrives empty and every peer is trusted to set the client IP and scheme")
}

// checkC39ListingFeedsValidator: the validator takes each object's recorded digests, ETag,
// checksum type and size from the listing (ListObjects). Every Object field the integrity
// package reads must be filled by the SQL metadata store's listing, otherwise the comparison
// runs against a zero value (a nil ChecksumType means FULL_OBJECT) and intact objects are
// flagged — and deleted with --delete-corrupted.
func checkC39ListingFeedsValidator(w *World, r *Run) {
	rule := r.Rule("listing-fills-every-field-the-validator-reads", "F3",
		"every field of storage.Object that package integrity selects is assigned in the Object literal of sqlMetadataStore.listObjects", 8)
	obj := w.Named("internal/storage", "Object")
	ipkg := w.Pkg("internal/storage/integrity")
	lf := w.Func("internal/storage/metadatapart/metadatastore/sql", "sqlMetadataStore.listObjects")
	if obj == nil || ipkg == nil || lf == nil || w.Decl(lf) == nil {
		r.Anchor(rule, "storage.Object / integrity / sqlMetadataStore.listObjects")
		return
	}
	objFields := map[*types.Var]bool{}
	for _, f := range structFieldsOf(obj) {
		objFields[f] = true
	}
	read := map[*types.Var]bool{}
	for _, file := range ipkg.Syntax {
		if strings.HasSuffix(w.Fset.Position(file.Pos()).Filename, "_test.go") {
			continue
		}
		for f := range fieldsSelectedIn(ipkg.TypesInfo, file) {
			if objFields[f] {
				read[f] = true
			}
		}
	}
	fd := w.Decl(lf)
	// the store's Object is a sibling struct of storage.Object (converted field by field in
	// package metadatapart, which C04's same-name rule covers): compare by field name
	assigned := map[string]bool{}
	for f := range fieldsAssignedIn(w.InfoFor(fd), fd.Body) {
		if ownerStructName(w, f) == "Object" {
			assigned[f.Name()] = true
		}
	}
	var names []string
	for f := range read {
		names = append(names, f.Name())
	}
	sort.Strings(names)
	for _, n := range names {
		r.Check(assigned[n], rule, "listObjects fills Object."+n, fd.Pos(), "assigned", "the validator reads Object."+n+" of listed objects but the listing leaves it zero: the recorded value is not what the comparison uses, so intact objects can be reported (and deleted) as corrupted or corrupted ones pass")
	}
	if len(names) == 0 {
		r.Bad(rule, "integrity reads Object fields", fd.Pos(), "no field selection of storage.Object found in package integrity")
	}
}

// checkC26VerifierAcceptsWhatIsWritten: verification must succeed on every log the middleware
// writes. The writer stamps a LOG entry with time.Now() before it takes the chain mutex, so
// under concurrency chained entries are not ordered by timestamp; the verifier may therefore
// not reject on anything the writer does not establish under its mutex — in particular not on
// the order of timestamps.
func checkC26VerifierAcceptsWhatIsWritten(w *World, r *Run) {
	rule := r.Rule("verifier-rejects-only-what-the-writer-guarantees", "F2",
		"if the audit middleware stamps an entry's Timestamp outside its chain mutex, no failure return of Validator.ValidateEntry is control-dependent on a comparison of entry timestamps", 1)
	logFn := w.SSAFunc("internal/storage/middlewares/audit", "AuditLogMiddleware.log")
	val := w.SSAFunc("internal/auditlog", "Validator.ValidateEntry")
	if logFn == nil || val == nil {
		r.Anchor(rule, "audit.AuditLogMiddleware.log / auditlog.Validator.ValidateEntry")
		return
	}
	// writer side: is the Timestamp of the chained entry taken with the mutex held?
	stampedUnderLock := true
	allInstrs(logFn, false, func(_ *ssa.Function, ins ssa.Instruction) {
		st, ok := ins.(*ssa.Store)
		if !ok {
			return
		}
		fa, ok := st.Addr.(*ssa.FieldAddr)
		if !ok || fieldName(fa.X.Type(), fa.Field) != "Timestamp" {
			return
		}
		if !lockHeldAt(ins, "mu", false) {
			stampedUnderLock = false
		}
	})
	// reader side: failure returns depending on a time comparison
	timeCmp := token.NoPos
	for _, ret := range returnsOf(val) {
		if ret.Block() == val.Recover || len(ret.Results) != 1 || isNilConst(stripConv(retResult(ret, 0))) {
			continue
		}
		for _, f := range factsAt(ret.Block()) {
			c, ok := f.Val.(*ssa.Call)
			if !ok {
				continue
			}
			g := calleeObj(c)
			if g == nil || g.Pkg() == nil || g.Pkg().Path() != "time" || recvNamed(g) == nil || recvNamed(g).Obj().Name() != "Time" {
				continue
			}
			switch g.Name() {
			case "Before", "After", "Equal", "Compare":
				timeCmp = ret.Pos()
			}
		}
	}
	r.Check(stampedUnderLock || timeCmp == token.NoPos, rule, "ValidateEntry does not reject on timestamp order", func() token.Pos {
		if timeCmp != token.NoPos {
			return timeCmp
		}
		return val.Pos()
	}(), "no rejection on timestamps (or the writer stamps under its mutex)", "the verifier rejects an entry whose timestamp precedes its predecessor's, but the middleware takes time.Now() before it acquires the chain mutex: with concurrent requests an intact, correctly chained log fails verification (and the file sink refuses to reopen it)")
}

// checkC27RawBytesHashed: the entry hash must bind the recorded bytes themselves. The helpers
// that feed a string or byte field into the hash pass the field's bytes on unchanged; a
// normalising transformation (ToValidUTF8, ToLower, TrimSpace …) maps different recorded
// values to one hash, so one can be replaced by the other without detection.
func checkC27RawBytesHashed(w *World, r *Run) {
	rule := r.Rule("hash-helpers-pass-the-recorded-bytes-unchanged", "F9",
		"auditlog.writeString hands []byte(s) of its parameter to writeBytes, and writeBytes writes the length and the very slice it received: no call transforms the value in between", 2)
	ws := w.SSAFunc("internal/auditlog", "writeString")
	wb := w.SSAFunc("internal/auditlog", "writeBytes")
	if ws == nil || wb == nil {
		r.Anchor(rule, "auditlog.writeString / writeBytes")
		return
	}
	okS := false
	allInstrs(ws, false, func(_ *ssa.Function, ins ssa.Instruction) {
		c, ok := ins.(*ssa.Call)
		if !ok || !isCallNamed(c, "writeBytes") || len(c.Call.Args) != 2 {
			return
		}
		okS = paramIndex(ws, stripConv(c.Call.Args[1])) == 1
	})
	r.Check(okS, rule, "writeString → writeBytes([]byte(s))", ws.Pos(), "the parameter's bytes", "the string is transformed before it is hashed: distinct recorded values (for instance different invalid UTF-8 byte sequences, which the binary format stores verbatim) hash alike and can be exchanged without detection")
	okB, n := true, 0
	allInstrs(wb, false, func(_ *ssa.Function, ins ssa.Instruction) {
		c, ok := ins.(ssa.CallInstruction)
		if !ok || !c.Common().IsInvoke() || c.Common().Method.Name() != "Write" {
			return
		}
		n++
		a := c.Common().Args[0]
		if paramIndex(wb, stripConv(a)) == 1 {
			return
		}
		// otherwise: the length prefix, built from len(b)
		if !sliceContains(a, true, func(x ssa.Value) bool { return isLenOf(x, func(y ssa.Value) bool { return paramIndex(wb, y) == 1 }) }) {
			okB = false
		}
	})
	r.Check(okB && n > 0, rule, "writeBytes writes len(b) and b", wb.Pos(), "length prefix and the slice itself", "writeBytes hashes something other than the length and the bytes it was given")
}
