package main

import (
	"go/types"
	"strings"

	"golang.org/x/tools/go/ssa"
)

// C18 — the outbox part store is consistent with committed history.
func init() { register("C18", checkC18) }

const relPartOutbox = "internal/storage/metadatapart/partstore/outbox"

func checkC18(w *World, r *Run) {
	stmts := collectSQL(w)
	checkSQLSiblings(w, r, stmts, map[string]bool{"partoutboxentry": true}, 13)
	ruleWho := r.Rule("inner-store-mutated-only-by-replay", "F6",
		"innerPartStore.PutPart / DeletePart are called only from replayPutPart / replayDeletePart (the flush worker), with the claimed entry's part id", 4)
	ruleWorker := r.Rule("part-worker-replays-every-queued-operation", "F7",
		"every operation constant handed to storePartOutboxEntry has a case in the worker's switch; the entry is finalized only after the replay returned nil and released otherwise; the oldest entry is claimed first", 5)
	ruleGet := r.Rule("getpart-prefers-latest-outbox-entry", "F1",
		"GetPart (transactional and tx-free) consults the inner store only on the edge where no outbox entry exists for the part id, and answers ErrPartNotFound when the latest entry is a delete; the lookup uses the requested part id", 6)
	ruleIds := r.Rule("getpartids-applies-pending-operations", "F7",
		"GetPartIds applies both queued operation kinds on top of the inner store's ids: delete removes, put adds", 2)
	ruleTx := r.Rule("enqueue-in-callers-transaction", "F1",
		"PutPart/DeletePart persist the outbox entry and its chunks through the caller's transaction (tx.SqlTx()), and the worker is triggered only from an OnAfterCommit hook", 3)
	ruleSQL := r.Rule("part-outbox-sql-scoped-and-ordered", "F4",
		"every statement on part_outbox_entries is scoped by outbox_id; first/last lookups order by id; claim is conditioned on version and a free/expired claim; delete/release/extend on claim_owner", 10)

	sp := w.SSA[w.Pkg(relPartOutbox).Types]
	if sp == nil {
		r.Anchor(ruleWho, relPartOutbox)
		return
	}
	allowed := map[string]bool{"replayPutPart": true, "replayDeletePart": true}
	for _, fn := range w.allFuncs {
		if fn.Pkg != sp {
			continue
		}
		allInstrs(fn, false, func(_ *ssa.Function, ins ssa.Instruction) {
			c, ok := ins.(ssa.CallInstruction)
			if !ok || !c.Common().IsInvoke() {
				return
			}
			m := c.Common().Method.Name()
			if m != "PutPart" && m != "DeletePart" {
				return
			}
			if !derivesFromField(c.Common().Value, "innerPartStore") {
				return
			}
			cons := strings.ReplaceAll(funcName(fn), relPartOutbox+".", "") + " → innerPartStore." + m
			top := topFunc(fn)
			if !allowed[top.Name()] {
				r.Bad(ruleWho, cons, posOf(c), "the inner store is mutated outside the replay worker: the mutation escapes the outbox ordering and the caller's transaction")
				return
			}
			fromEntry := false
			for _, a := range c.Common().Args {
				if isNamedType(a.Type(), "PartId") {
					backSlice(a, false, func(v ssa.Value) {
						if fa, ok := v.(*ssa.FieldAddr); ok && fieldName(fa.X.Type(), fa.Field) == "PartId" {
							fromEntry = true
						}
					})
				}
			}
			r.Check(fromEntry, ruleWho, cons, posOf(c), "replay with entry.PartId", "the replay does not use the claimed entry's part id")
		})
	}

	// worker
	worker := w.SSAFunc(relPartOutbox, "outboxPartStore.maybeProcessOutboxEntries")
	store := w.SSAFunc(relPartOutbox, "outboxPartStore.storePartOutboxEntry")
	if worker == nil || store == nil {
		r.Anchor(ruleWorker, "outboxPartStore.maybeProcessOutboxEntries / storePartOutboxEntry")
	} else {
		enq := map[string]bool{}
		for _, cs := range w.callers[store] {
			if ci, ok := cs.(ssa.CallInstruction); ok {
				if s, ok := constString(ci.Common().Args[3]); ok {
					enq[s] = true
				} else {
					enq["<non-constant>"] = true
				}
			}
		}
		handled := map[string]bool{}
		allInstrs(worker, false, func(_ *ssa.Function, ins ssa.Instruction) {
			if b, ok := ins.(*ssa.BinOp); ok && b.Op.String() == "==" {
				if n, _ := fieldLoadName(b.X); n == "Operation" {
					if s, ok := constString(b.Y); ok {
						handled[s] = true
					}
				}
			}
		})
		for _, op := range keys(enq) {
			r.Check(handled[op], ruleWorker, "queued part operation "+op+" has a replay case", worker.Pos(), "case present", "operation is enqueued but never replayed")
		}
		fin := w.Func(relPartOutbox, "outboxPartStore.finalizePartOutboxEntry")
		rel := w.Func(relPartOutbox, "outboxPartStore.releasePartOutboxEntry")
		for _, c := range callsTo(worker, false, func(f *types.Func) bool { return f == fin }) {
			okFin := false
			for _, f := range factsAt(c.Block()) {
				if f.Kind == IsNil && isErrorType(f.Val.Type()) {
					backSlice(f.Val, false, func(v ssa.Value) {
						if cc, ok := v.(*ssa.Call); ok {
							if g := calleeObj(cc); g != nil && strings.HasPrefix(g.Name(), "replay") {
								okFin = true
							}
						}
					})
				}
			}
			r.Check(okFin, ruleWorker, "part worker finalizes only after replay err == nil", posOf(c), "dominated by the replay error being nil", "the entry is deleted without the replay having succeeded: the committed part never reaches the inner store")
		}
		relOK := false
		for _, c := range callsTo(worker, false, func(f *types.Func) bool { return f == rel }) {
			for _, f := range factsAt(c.Block()) {
				if f.Kind == NonNil && isErrorType(f.Val.Type()) {
					relOK = true
				}
			}
		}
		r.Check(relOK, ruleWorker, "part worker releases the claim when replay fails", worker.Pos(), "release on the error edge", "no release on the replay-error path")
		claim := w.SSAFunc(relPartOutbox, "outboxPartStore.claimNextOutboxEntry")
		first := false
		allInstrs(claim, true, func(_ *ssa.Function, ins ssa.Instruction) {
			if c, ok := ins.(ssa.CallInstruction); ok && c.Common().IsInvoke() && c.Common().Method.Name() == "ClaimFirstPartOutboxEntry" {
				first = true
			}
		})
		r.Check(first, ruleWorker, "part worker claims the first entry", worker.Pos(), "ClaimFirstPartOutboxEntry", "the worker does not claim the oldest entry first: commit order is not preserved")
	}

	// GetPart variants
	checkPartOutboxGetPart(w, r, ruleGet, []string{"GetPart", "getPartTxFree"})

	// GetPartIds
	if fn := w.SSAFunc(relPartOutbox, "outboxPartStore.GetPartIds"); fn != nil {
		hasDelete, hasAdd := false, false
		allInstrs(fn, false, func(_ *ssa.Function, ins ssa.Instruction) {
			switch x := ins.(type) {
			case *ssa.Call:
				if b, ok := x.Call.Value.(*ssa.Builtin); ok && b.Name() == "delete" {
					for _, f := range factsAt(x.Block()) {
						if f.Kind == EqConst {
							if n, _ := fieldLoadName(f.Val); n == "Operation" {
								hasDelete = true
							}
						}
					}
				}
			case *ssa.MapUpdate:
				for _, f := range factsAt(x.Block()) {
					if f.Kind == EqConst {
						if n, _ := fieldLoadName(f.Val); n == "Operation" {
							hasAdd = true
						}
					}
				}
			}
		})
		r.Check(hasDelete, ruleIds, "(*outboxPartStore).GetPartIds removes ids with a pending delete", fn.Pos(), "delete(set, id) under Operation == Delete", "pending deletes are not applied to the id set")
		r.Check(hasAdd, ruleIds, "(*outboxPartStore).GetPartIds adds ids with a pending put", fn.Pos(), "set[id] under Operation == Put", "pending puts are not applied to the id set")
	} else {
		r.Anchor(ruleIds, "outboxPartStore.GetPartIds")
	}

	// enqueue in caller's tx
	for _, name := range []string{"storePartOutboxEntry", "PutPart"} {
		fn := w.SSAFunc(relPartOutbox, "outboxPartStore."+name)
		if fn == nil {
			r.Anchor(ruleTx, "outboxPartStore."+name)
			continue
		}
		var txParam ssa.Value
		for _, p := range fn.Params {
			if p.Name() == "tx" {
				txParam = p
			}
		}
		allInstrs(fn, false, func(_ *ssa.Function, ins ssa.Instruction) {
			c, ok := ins.(ssa.CallInstruction)
			if !ok || !c.Common().IsInvoke() || !strings.HasPrefix(c.Common().Method.Name(), "SavePartOutbox") {
				return
			}
			good := false
			for _, a := range c.Common().Args {
				backSlice(a, false, func(v ssa.Value) {
					if cc, ok := v.(*ssa.Call); ok && cc.Call.IsInvoke() && cc.Call.Method.Name() == "SqlTx" && sameValue(cc.Call.Value, txParam) {
						good = true
					}
				})
			}
			r.Check(good, ruleTx, "(*outboxPartStore)."+name+" → "+c.Common().Method.Name()+" in the caller's transaction", posOf(c), "tx.SqlTx()", "the outbox entry is not written through the caller's transaction: it can commit without (or be lost with) the metadata change")
		})
	}
	if store != nil {
		// the trigger send sits in a closure handed to OnAfterCommit
		sendInHook, sendOutside := false, false
		allInstrs(store, true, func(fn *ssa.Function, ins ssa.Instruction) {
			isSend := false
			switch x := ins.(type) {
			case *ssa.Send:
				isSend = true
			case *ssa.Select:
				for _, st := range x.States {
					if st.Dir == types.SendOnly {
						isSend = true
					}
				}
			}
			if !isSend {
				return
			}
			if fn == store {
				sendOutside = true
				return
			}
			for _, cs := range w.callers[fn] {
				if mc, ok := cs.(*ssa.MakeClosure); ok {
					for _, ref := range *mc.Referrers() {
						if c, ok := ref.(ssa.CallInstruction); ok && c.Common().IsInvoke() && c.Common().Method.Name() == "OnAfterCommit" {
							sendInHook = true
						}
					}
				}
			}
		})
		r.Check(sendInHook && !sendOutside, ruleTx, "(*outboxPartStore).storePartOutboxEntry triggers the worker after commit only", store.Pos(), "send inside tx.OnAfterCommit hook", "the worker is triggered before the transaction committed (or not from an after-commit hook)")
	}
	checkOutboxSQL(w, r, ruleSQL, stmts, "partoutboxentry", "part_outbox_entries")
	r.NotCovered("interleavings of writers, readers and workers; lease expiry between replay and finalize (at-least-once replay relies on idempotent inner stores); the mid-stream fallback of lazyOutboxChunkReadCloser to the inner store")
}

// checkPartOutboxGetPart: the read paths of the outbox part store answer from the latest
// outbox entry of the part: the inner store only when there is none, not-found when the latest
// entry is a pending delete.
func checkPartOutboxGetPart(w *World, r *Run, ruleGet string, names []string) {
	for _, name := range names {
		fn := w.SSAFunc(relPartOutbox, "outboxPartStore."+name)
		if fn == nil {
			r.Anchor(ruleGet, "outboxPartStore."+name)
			continue
		}
		var lookups []*ssa.Call
		allInstrs(fn, false, func(_ *ssa.Function, ins ssa.Instruction) {
			if c, ok := ins.(*ssa.Call); ok && c.Call.IsInvoke() && c.Call.Method.Name() == "FindLastPartOutboxEntryByPartId" {
				lookups = append(lookups, c)
			}
		})
		partParam := fn.Params[len(fn.Params)-1]
		okLookup := len(lookups) == 1 && sameValue(lookups[0].Call.Args[len(lookups[0].Call.Args)-1], partParam)
		r.Check(okLookup, ruleGet, "(*outboxPartStore)."+name+" looks up the latest entry of the requested part id", fn.Pos(), "FindLastPartOutboxEntryByPartId(.., partId)", "the latest-entry lookup is missing or does not use the requested part id")
		if !okLookup {
			continue
		}
		var entry ssa.Value
		for _, ref := range *lookups[0].Referrers() {
			if e, ok := ref.(*ssa.Extract); ok && e.Index == 0 {
				entry = e
			}
		}
		// inner GetPart only on entry == nil
		n := 0
		allInstrs(fn, false, func(_ *ssa.Function, ins ssa.Instruction) {
			c, ok := ins.(ssa.CallInstruction)
			if !ok || !c.Common().IsInvoke() || c.Common().Method.Name() != "GetPart" || !derivesFromField(c.Common().Value, "innerPartStore") {
				return
			}
			n++
			good := false
			for _, f := range factsAt(c.Block()) {
				if f.Kind == IsNil && sameValue(f.Val, entry) {
					good = true
				}
			}
			r.Check(good, ruleGet, "(*outboxPartStore)."+name+" → innerPartStore.GetPart", posOf(c), "only when no outbox entry exists", "the inner store is read although an outbox entry for the part may exist: a committed newer put/delete is ignored")
		})
		if n == 0 {
			r.Bad(ruleGet, "(*outboxPartStore)."+name+" → innerPartStore.GetPart", fn.Pos(), "no fallback to the inner store found (anchor lost)")
		}
		// ErrPartNotFound under Operation == DeletePart
		delOK := false
		for _, ret := range returnsOf(fn) {
			ei := errorResultIndex(fn)
			if ei < 0 {
				continue
			}
			v := retResult(ret, ei)
			if ld, ok := stripConv(v).(*ssa.UnOp); ok {
				if g, ok := ld.X.(*ssa.Global); ok && g.Name() == "ErrPartNotFound" {
					for _, f := range factsAt(ret.Block()) {
						if f.Kind == EqConst {
							if n, _ := fieldLoadName(f.Val); n == "Operation" {
								delOK = true
							}
						}
					}
				}
			}
		}
		r.Check(delOK, ruleGet, "(*outboxPartStore)."+name+" answers not-found for a pending delete", fn.Pos(), "ErrPartNotFound under lastEntry.Operation == DeletePartOperation", "a pending delete does not hide the part: a deleted part stays readable until the worker flushes")
	}

}
