package main

import (
	"go/ast"
	"go/constant"
	"go/token"
	"go/types"
	"sort"
	"strings"
)

// ---- struct field naming -------------------------------------------------------------------

// fieldNames maps every field (also of nested anonymous struct types) of the named struct
// types of a package to a printable path "Type.Field.Sub".
func fieldNames(pkg *types.Package, into map[*types.Var]string) {
	sc := pkg.Scope()
	for _, n := range sc.Names() {
		tn, ok := sc.Lookup(n).(*types.TypeName)
		if !ok || tn.IsAlias() {
			continue
		}
		st, ok := tn.Type().Underlying().(*types.Struct)
		if !ok {
			continue
		}
		nameStruct(tn.Name(), st, into)
	}
}

func nameStruct(prefix string, st *types.Struct, into map[*types.Var]string) {
	for i := 0; i < st.NumFields(); i++ {
		f := st.Field(i)
		into[f] = prefix + "." + f.Name()
		if sub, ok := f.Type().(*types.Struct); ok { // anonymous struct type
			nameStruct(prefix+"."+f.Name(), sub, into)
		}
	}
}

// structFieldsOf lists the fields of a named struct type.
func structFieldsOf(n *types.Named) []*types.Var {
	st, ok := n.Underlying().(*types.Struct)
	if !ok {
		return nil
	}
	var out []*types.Var
	for i := 0; i < st.NumFields(); i++ {
		out = append(out, st.Field(i))
	}
	return out
}

// selField returns the struct field a selector expression denotes (nil otherwise).
func selField(info *types.Info, e ast.Expr) *types.Var {
	se, ok := ast.Unparen(e).(*ast.SelectorExpr)
	if !ok {
		return nil
	}
	if s := info.Selections[se]; s != nil && s.Kind() == types.FieldVal {
		if v, ok := s.Obj().(*types.Var); ok {
			return v
		}
	}
	return nil
}

// fieldsIn lists struct fields selected anywhere inside expression e (outermost selector
// of each chain only: a.b.c yields c).
func fieldsIn(info *types.Info, e ast.Node) []*types.Var {
	var out []*types.Var
	if e == nil {
		return nil
	}
	ast.Inspect(e, func(n ast.Node) bool {
		if se, ok := n.(*ast.SelectorExpr); ok {
			if f := selField(info, se); f != nil {
				out = append(out, f)
				// do not descend into the base chain (a.b of a.b.c): intermediate struct
				// fields are containers, not values
				if _, inner := ast.Unparen(se.X).(*ast.SelectorExpr); inner && selField(info, se.X) != nil {
					if isStructish(info.TypeOf(se.X)) {
						return false
					}
				}
			}
		}
		return true
	})
	return out
}

func isStructish(t types.Type) bool {
	if t == nil {
		return false
	}
	if p, ok := t.Underlying().(*types.Pointer); ok {
		t = p.Elem()
	}
	_, ok := t.Underlying().(*types.Struct)
	return ok
}

// ---- version folding -----------------------------------------------------------------------

// foldCond evaluates a boolean expression that compares selector/ident named versionName
// (e.g. e.Version, version) with integer constants, at version ver. ok=false when the
// expression is not such a comparison.
func foldCond(info *types.Info, e ast.Expr, versionName string, ver int64) (val bool, ok bool) {
	be, isb := ast.Unparen(e).(*ast.BinaryExpr)
	if !isb {
		return false, false
	}
	isVer := func(x ast.Expr) bool {
		switch v := ast.Unparen(x).(type) {
		case *ast.SelectorExpr:
			return v.Sel.Name == versionName
		case *ast.Ident:
			return strings.EqualFold(v.Name, versionName)
		}
		return false
	}
	constOf := func(x ast.Expr) (int64, bool) {
		tv, ok := info.Types[x]
		if !ok || tv.Value == nil || tv.Value.Kind() != constant.Int {
			return 0, false
		}
		n, exact := constant.Int64Val(tv.Value)
		return n, exact
	}
	var c int64
	op := be.Op
	switch {
	case isVer(be.X):
		n, ok := constOf(be.Y)
		if !ok {
			return false, false
		}
		c = n
	case isVer(be.Y):
		n, ok := constOf(be.X)
		if !ok {
			return false, false
		}
		c = n
		// flip operator
		switch op {
		case token.LSS:
			op = token.GTR
		case token.GTR:
			op = token.LSS
		case token.LEQ:
			op = token.GEQ
		case token.GEQ:
			op = token.LEQ
		}
	default:
		return false, false
	}
	switch op {
	case token.LSS:
		return ver < c, true
	case token.LEQ:
		return ver <= c, true
	case token.GTR:
		return ver > c, true
	case token.GEQ:
		return ver >= c, true
	case token.EQL:
		return ver == c, true
	case token.NEQ:
		return ver != c, true
	}
	return false, false
}

// walkFolded visits the statements of body in source order, folding if-statements whose
// condition compares the version at ver (the dead branch is skipped; a `break`/`return`
// directly inside a live folded branch terminates the enclosing clause). For switch
// statements, pick selects which case clauses are entered (nil = all). visit is called on
// every non-control statement and on the init/cond expressions of live control statements.
type foldWalker struct {
	info    *types.Info
	verName string
	ver     int64
	pick    func(sw ast.Stmt, cc *ast.CaseClause) bool
	visit   func(n ast.Node)
}

// walk returns true when control certainly left the clause (folded break/return).
func (fw *foldWalker) walk(stmts []ast.Stmt) bool {
	for _, s := range stmts {
		if fw.stmt(s) {
			return true
		}
	}
	return false
}

func (fw *foldWalker) stmt(s ast.Stmt) bool {
	switch x := s.(type) {
	case *ast.BlockStmt:
		return fw.walk(x.List)
	case *ast.IfStmt:
		if x.Init != nil {
			fw.visit(x.Init)
		}
		if v, ok := foldCond(fw.info, x.Cond, fw.verName, fw.ver); ok {
			if v {
				return fw.walk(x.Body.List)
			}
			if x.Else != nil {
				return fw.stmt(x.Else)
			}
			return false
		}
		fw.visit(x.Cond)
		fw.walk(x.Body.List) // conditional exit: does not terminate the clause for certain
		if x.Else != nil {
			fw.stmt(x.Else)
		}
		return false
	case *ast.SwitchStmt:
		if x.Init != nil {
			fw.visit(x.Init)
		}
		if x.Tag != nil {
			fw.visit(x.Tag)
		}
		for _, c := range x.Body.List {
			cc := c.(*ast.CaseClause)
			if fw.pick == nil || fw.pick(x, cc) {
				fw.walk(cc.Body)
			}
		}
		return false
	case *ast.TypeSwitchStmt:
		for _, c := range x.Body.List {
			cc := c.(*ast.CaseClause)
			if fw.pick == nil || fw.pick(x, cc) {
				fw.walk(cc.Body)
			}
		}
		return false
	case *ast.ForStmt:
		fw.walk(x.Body.List)
		return false
	case *ast.RangeStmt:
		fw.walk(x.Body.List)
		return false
	case *ast.BranchStmt:
		return x.Tok == token.BREAK
	case *ast.ReturnStmt:
		fw.visit(x)
		return true
	default:
		fw.visit(s)
		return false
	}
}

// calleeOfExpr resolves the function a call expression targets (static).
func calleeOfExpr(info *types.Info, call *ast.CallExpr) *types.Func {
	switch f := ast.Unparen(call.Fun).(type) {
	case *ast.Ident:
		fn, _ := info.Uses[f].(*types.Func)
		return fn
	case *ast.SelectorExpr:
		if s := info.Selections[f]; s != nil {
			fn, _ := s.Obj().(*types.Func)
			return fn
		}
		fn, _ := info.Uses[f.Sel].(*types.Func)
		return fn
	}
	return nil
}

// caseMentionsType: the case clause lists a type expression denoting *named or named.
func caseHasType(info *types.Info, cc *ast.CaseClause, name string) bool {
	for _, e := range cc.List {
		t := info.TypeOf(e)
		if n := recvOfPtrOrNamed(t); n != nil && n.Obj().Name() == name {
			return true
		}
	}
	return false
}

func recvOfPtrOrNamed(t types.Type) *types.Named {
	if t == nil {
		return nil
	}
	if p, ok := t.(*types.Pointer); ok {
		t = p.Elem()
	}
	n, _ := t.(*types.Named)
	return n
}

// clauseBuilds: the clause body contains a composite literal of the named struct type.
func clauseBuilds(info *types.Info, cc *ast.CaseClause, name string) bool {
	found := false
	for _, s := range cc.Body {
		ast.Inspect(s, func(n ast.Node) bool {
			if cl, ok := n.(*ast.CompositeLit); ok {
				if nt := recvOfPtrOrNamed(info.TypeOf(cl)); nt != nil && nt.Obj().Name() == name {
					found = true
				}
			}
			return true
		})
	}
	return found
}

func sortStrings(s []string) { sort.Strings(s) }

// assignedFrom: struct fields read in the right-hand sides of the assignments to the local
// variable named name inside fd.
func assignedFrom(info *types.Info, fd *ast.FuncDecl, name string) []*types.Var {
	var out []*types.Var
	ast.Inspect(fd.Body, func(n ast.Node) bool {
		as, ok := n.(*ast.AssignStmt)
		if !ok {
			return true
		}
		for i, l := range as.Lhs {
			if id, ok := l.(*ast.Ident); ok && id.Name == name {
				rhs := as.Rhs[0]
				if len(as.Rhs) == len(as.Lhs) {
					rhs = as.Rhs[i]
				}
				out = append(out, fieldsIn(info, rhs)...)
			}
		}
		return true
	})
	return out
}
