package main

import (
	"fmt"
	"go/constant"
	"go/token"
	"go/types"
	"sort"
	"strings"

	"golang.org/x/tools/go/ssa"
)

// C22 — notifications exist exactly for committed mutations; delivery/dead-letter discipline.
func init() { register("C22", checkC22) }

const relNotif = "internal/storage/notification"

var c22NoEvent = map[string]string{
	"AppendObject": "inherited: the event vocabulary (events.go) defines no event for appends; the statement quantifies over entries that exist, so no entry is produced and none can be orphaned",
}

func checkC22(w *World, r *Run) {
	iface := checkStorageTable(w, r)
	T := w.Named(relNotif, "StorageMiddleware")
	ruleMut := r.Rule("mutation-inside-notification-transaction", "F1",
		"every object mutator overridden by the notification middleware calls m.Next.<M> only inside the function literal given to runWithNotifications, and that literal returns events only on paths where the inner call's error is nil", 8)
	ruleRun := r.Rule("enqueue-shares-the-mutation-transaction", "F1",
		"runWithNotifications runs mutate and enqueueEvents inside one writable database.WithTx and returns enqueueEvents' error; enqueueEvents saves every entry through that transaction (tx.SqlTx()), returns Save errors and triggers the dispatcher only from OnAfterCommit", 6)
	ruleDisp := r.Rule("dispatch-outcome-discipline", "F1",
		"dispatchEntry deletes the claimed entry only after Publish returned nil, dead-letters only under MaxAttempts > 0 && Attempts >= MaxAttempts, and otherwise releases the claim with nextAttemptAt(entry)", 3)
	ruleBackoff := r.Rule("backoff-clamped", "F9",
		"nextAttemptAt clamps the exponent at 0 from below and the delay at MaxBackoff from above before converting it to a duration", 2)
	ruleSQL := r.Rule("notification-outbox-sql", "F4",
		"every statement on notification_outbox_entries is scoped by outbox_id; the claim is conditioned on version, not dead-lettered, due and a free/expired claim and increments attempts; delete/release/dead-letter/extend are conditioned on claim_owner", 9)
	if iface == nil || T == nil {
		r.Anchor(ruleMut, relNotif+".StorageMiddleware")
		return
	}
	mat := overrideMatrix(T, iface)
	runFn := w.Func(relNotif, "StorageMiddleware.runWithNotifications")
	if runFn == nil {
		r.Anchor(ruleRun, "StorageMiddleware.runWithNotifications")
		return
	}
	for _, m := range methodsOfClass(mObject) {
		cons := "(*notification.StorageMiddleware)." + m
		o := mat[m]
		if !o.Own {
			if why, ok := c22NoEvent[m]; ok {
				r.Exempt(ruleMut, cons, T.Obj().Pos(), why)
			} else {
				r.Bad(ruleMut, cons, T.Obj().Pos(), "object mutator inherited from the delegator: its committed mutations never produce a notification entry")
			}
			continue
		}
		fn := w.Prog.FuncValue(o.Func)
		good := true
		why := ""
		n := 0
		allInstrs(fn, true, func(in *ssa.Function, ins ssa.Instruction) {
			c, ok := ins.(ssa.CallInstruction)
			if !ok || !c.Common().IsInvoke() || c.Common().Method.Name() != m {
				return
			}
			if nm, _ := fieldLoadName(c.Common().Value); nm != "Next" {
				return
			}
			n++
			if in == fn {
				good = false
				why = "inner call outside the runWithNotifications literal"
				return
			}
			// literal handed to runWithNotifications?
			okLit := false
			for _, cs := range w.callers[in] {
				var v ssa.Value
				if mc, isMC := cs.(*ssa.MakeClosure); isMC {
					v = mc
				}
				if v == nil {
					continue
				}
				for _, ref := range *v.Referrers() {
					if rc, isCall := ref.(ssa.CallInstruction); isCall && calleeObj(rc) == runFn {
						okLit = true
					}
				}
			}
			if !okLit {
				good = false
				why = "the literal containing the inner call is not the mutate argument of runWithNotifications"
				return
			}
			// events only when err == nil
			errV := errResultOf(c)
			for _, ret := range returnsOf(in) {
				if len(ret.Results) != 2 {
					continue
				}
				ev := retResult(ret, 0)
				if isNilConst(ev) {
					continue
				}
				okRet := false
				for _, f := range factsAt(ret.Block()) {
					if f.Kind == IsNil && errV != nil && sameValue(f.Val, errV) {
						okRet = true
					}
				}
				if !okRet {
					good = false
					why = "events are returned on a path where the inner call's error was not established nil"
				}
			}
		})
		if n == 0 {
			good, why = false, "no inner call found"
		}
		r.Check(good, ruleMut, cons, o.Func.Pos(), "Next."+m+" inside runWithNotifications; events only on success", why)
	}

	// runWithNotifications
	rfn := w.Prog.FuncValue(runFn)
	withTx := callsTo(rfn, false, func(f *types.Func) bool { return isFunc(f, relDB, "WithTx") })
	okTx := len(withTx) == 1
	var lit *ssa.Function
	if okTx {
		// ReadOnly false
		ro := true
		backSlice(withTx[0].Common().Args[2], false, func(v ssa.Value) {
			if a, ok := v.(*ssa.Alloc); ok {
				for _, ref := range *a.Referrers() {
					if fa, ok := ref.(*ssa.FieldAddr); ok && fieldName(fa.X.Type(), fa.Field) == "ReadOnly" {
						for _, st := range storesTo(fa) {
							if b, isB := boolConst(st); isB && !b {
								ro = false
							}
						}
					}
				}
			}
		})
		okTx = !ro
		switch x := withTx[0].Common().Args[3].(type) {
		case *ssa.MakeClosure:
			lit, _ = x.Fn.(*ssa.Function)
		case *ssa.Function:
			lit = x
		}
	}
	r.Check(okTx && lit != nil, ruleRun, "runWithNotifications: one writable WithTx", rfn.Pos(), "database.WithTx(ReadOnly:false)", "the mutation and the enqueue are not wrapped in a single writable transaction")
	enq := w.Func(relNotif, "StorageMiddleware.enqueueEvents")
	if lit != nil && enq != nil {
		var mutCall, enqCall ssa.CallInstruction
		allInstrs(lit, false, func(_ *ssa.Function, ins ssa.Instruction) {
			c, ok := ins.(ssa.CallInstruction)
			if !ok {
				return
			}
			if calleeObj(c) == enq {
				enqCall = c
			} else if !c.Common().IsInvoke() && c.Common().StaticCallee() == nil {
				v := c.Common().Value
				if ld, isLoad := v.(*ssa.UnOp); isLoad {
					v = ld.X
				}
				if _, isFV := v.(*ssa.FreeVar); isFV {
					mutCall = c
				}
			}
		})
		okOrder := mutCall != nil && enqCall != nil && instrDominates(mutCall, enqCall)
		okArg := enqCall != nil && paramIndex(lit, enqCall.Common().Args[2]) >= 0
		retOK := enqCall != nil
		if enqCall != nil {
			for _, ret := range returnsOf(lit) {
				if isFailureReturn(ret) {
					continue
				}
				if !sameValue(retResult(ret, 0), enqCall.Value()) {
					retOK = false
				}
			}
		}
		r.Check(okOrder && okArg, ruleRun, "runWithNotifications: mutate then enqueueEvents(ctx, tx, events) with the transaction of WithTx", lit.Pos(), "same tx", "enqueueEvents does not run after mutate inside the same transaction")
		r.Check(retOK, ruleRun, "runWithNotifications: returns enqueueEvents' error", lit.Pos(), "return m.enqueueEvents(..)", "a failing outbox insert does not fail (and roll back) the mutation's transaction")
	}
	if enq != nil {
		efn := w.Prog.FuncValue(enq)
		saveOK, n := true, 0
		allInstrs(efn, false, func(_ *ssa.Function, ins ssa.Instruction) {
			c, ok := ins.(ssa.CallInstruction)
			if !ok || !c.Common().IsInvoke() || c.Common().Method.Name() != "Save" {
				return
			}
			n++
			viaTx := false
			for _, a := range c.Common().Args {
				backSlice(a, false, func(v ssa.Value) {
					if cc, ok := v.(*ssa.Call); ok && cc.Call.IsInvoke() && cc.Call.Method.Name() == "SqlTx" && paramIndex(efn, cc.Call.Value) >= 0 {
						viaTx = true
					}
				})
			}
			errV := errResultOf(c)
			propagated := false
			for _, ret := range returnsOf(efn) {
				if sameValue(retResult(ret, 0), errV) {
					propagated = true
				}
			}
			if !viaTx || !propagated {
				saveOK = false
			}
		})
		r.Check(saveOK && n == 1, ruleRun, "enqueueEvents: repository.Save(ctx, tx.SqlTx(), …) with its error returned", efn.Pos(), "in the caller's transaction", "entries are not saved through the mutation's transaction or a Save error is dropped")
		sendInHook, sendOutside := false, false
		allInstrs(efn, true, func(in *ssa.Function, ins ssa.Instruction) {
			isSend := false
			if sel, ok := ins.(*ssa.Select); ok {
				for _, st := range sel.States {
					if st.Dir == types.SendOnly {
						isSend = true
					}
				}
			}
			if _, ok := ins.(*ssa.Send); ok {
				isSend = true
			}
			if !isSend {
				return
			}
			if in == efn {
				sendOutside = true
				return
			}
			for _, cs := range w.callers[in] {
				if mc, ok := cs.(*ssa.MakeClosure); ok {
					for _, ref := range *mc.Referrers() {
						if c, ok := ref.(ssa.CallInstruction); ok && c.Common().IsInvoke() && c.Common().Method.Name() == "OnAfterCommit" {
							sendInHook = true
						}
					}
				}
			}
		})
		r.Check(sendInHook && !sendOutside, ruleRun, "enqueueEvents: dispatcher triggered after commit only", efn.Pos(), "inside OnAfterCommit", "the dispatcher is triggered before the transaction committed")
		// config errors returned
		cfgOK := true
		allInstrs(efn, false, func(_ *ssa.Function, ins ssa.Instruction) {
			c, ok := ins.(ssa.CallInstruction)
			if !ok {
				return
			}
			name := ""
			if c.Common().IsInvoke() {
				name = c.Common().Method.Name()
			} else if f := calleeObj(c); f != nil {
				name = f.Name()
			}
			if name != "GetBucketNotificationConfiguration" && name != "buildEntriesForEvent" {
				return
			}
			errV := errResultOf(c)
			prop := false
			for _, ret := range returnsOf(efn) {
				if sameValue(retResult(ret, 0), errV) {
					prop = true
				}
			}
			if !prop {
				cfgOK = false
			}
		})
		r.Check(cfgOK, ruleRun, "enqueueEvents: configuration/build errors abort the transaction", efn.Pos(), "returned", "an error while resolving rules is dropped: the mutation commits without its notification")
	}

	checkC22Dispatch(w, r, ruleDisp, ruleBackoff)
	checkC22SQL(w, r, ruleSQL)
	// the notification outbox compares next_attempt_at / claim_until with "now" inside SQL;
	// SQLite stores times as text in their own zone, so every time that reaches a row or a
	// statement parameter must be normalised to UTC
	ruleUTC := r.Rule("outbox-times-are-utc", "F9",
		"in package notification every time.Now() is either normalised with .UTC() before any other use or only measures a duration (Since/Sub)", 10)
	for _, fn := range w.allFuncs {
		if fn.Pkg == nil || pkgRel(fn.Pkg.Pkg) != relNotif {
			continue
		}
		ord := 0
		for _, b := range fn.Blocks {
			for _, ins := range b.Instrs {
				c, ok := ins.(*ssa.Call)
				if !ok {
					continue
				}
				f := calleeObj(c)
				if f == nil || f.Pkg() == nil || f.Pkg().Path() != "time" || f.Name() != "Now" {
					continue
				}
				ord++
				cons := fmt.Sprintf("%s: time.Now() #%d", funcName(topFunc(fn)), ord)
				bad := ""
				var visit func(v ssa.Value, depth int)
				visit = func(v ssa.Value, depth int) {
					if v.Referrers() == nil || depth > 4 {
						return
					}
					for _, ref := range *v.Referrers() {
						switch x := ref.(type) {
						case *ssa.Call:
							g := calleeObj(x)
							if g != nil && g.Pkg() != nil && g.Pkg().Path() == "time" && (g.Name() == "UTC" || g.Name() == "Since" || g.Name() == "Sub") {
								continue
							}
							name := "call"
							if g != nil {
								name = g.Name()
							}
							bad = name + " at " + w.Pos(posOf(x))
						case *ssa.Store:
							// spilled local: follow its loads
							if a, ok := x.Addr.(*ssa.Alloc); ok && x.Val == v {
								for _, r2 := range *a.Referrers() {
									if ld, ok := r2.(*ssa.UnOp); ok {
										visit(ld, depth+1)
									}
								}
								continue
							}
							bad = "store at " + w.Pos(posOf(x))
						case *ssa.DebugRef:
						default:
							if vv, ok := ref.(ssa.Value); ok {
								visit(vv, depth+1)
							} else {
								bad = "use at " + w.Pos(posOf(ref))
							}
						}
					}
				}
				visit(c, 0)
				r.Check(bad == "", ruleUTC, cons, posOf(c), "normalised with .UTC() (or used only to measure a duration)", "a local-zone time reaches "+bad+": the outbox compares stored times with 'now' as text, so with the process outside UTC a retry is due immediately (west of UTC) or hours late (east), violating the backoff and the delivery order")
			}
		}
	}
	r.NotCovered("whether the notification database handle equals the storage's (sameDatabaseHandle is decided at construction time — with different handles the enqueue is best-effort by design); delivery, timing and the publisher")
}

func checkC22Dispatch(w *World, r *Run, ruleDisp, ruleBackoff string) {
	fn := w.SSAFunc(relNotif, "StorageMiddleware.dispatchEntry")
	if fn == nil {
		r.Anchor(ruleDisp, "StorageMiddleware.dispatchEntry")
		return
	}
	var pub *ssa.Call
	allInstrs(fn, false, func(_ *ssa.Function, ins ssa.Instruction) {
		if c, ok := ins.(*ssa.Call); ok && c.Call.IsInvoke() && c.Call.Method.Name() == "Publish" {
			pub = c
		}
	})
	site := func(name string) ssa.CallInstruction {
		var out ssa.CallInstruction
		allInstrs(fn, false, func(_ *ssa.Function, ins ssa.Instruction) {
			if c, ok := ins.(ssa.CallInstruction); ok {
				if f := calleeObj(c); f != nil && f.Name() == name {
					out = c
				}
			}
		})
		return out
	}
	del, dl, rel := site("deleteClaimed"), site("deadLetter"), site("release")
	okDel := false
	if del != nil && pub != nil {
		for _, f := range factsAt(del.Block()) {
			if f.Kind == IsNil && sameValue(f.Val, pub) {
				okDel = true
			}
		}
	}
	r.Check(okDel, ruleDisp, "dispatchEntry: deleteClaimed only after Publish == nil", fn.Pos(), "ok", "an entry is deleted without a successful publish: the notification is lost")
	okDL := false
	if dl != nil {
		max, att, failed := false, false, false
		for _, f := range factsAt(dl.Block()) {
			if b, ok := f.Val.(*ssa.BinOp); ok && f.Kind == IsTrue {
				if n, _ := fieldLoadName(b.X); n == "MaxAttempts" && b.Op == token.GTR {
					max = true
				}
				if n, _ := fieldLoadName(b.X); n == "Attempts" && b.Op == token.GEQ {
					if n2, _ := fieldLoadName(b.Y); n2 == "MaxAttempts" {
						att = true
					}
				}
			}
			if f.Kind == NonNil && pub != nil && sameValue(f.Val, pub) {
				failed = true
			}
		}
		okDL = max && att && failed
	}
	r.Check(okDL, ruleDisp, "dispatchEntry: deadLetter only under MaxAttempts > 0 && Attempts >= MaxAttempts after a failed publish", fn.Pos(), "ok", "dead-lettering is not gated by the configured attempt limit")
	okRel := false
	if rel != nil {
		failed := false
		for _, f := range factsAt(rel.Block()) {
			if f.Kind == NonNil && pub != nil && sameValue(f.Val, pub) {
				failed = true
			}
		}
		next := false
		backSlice(rel.Common().Args[3], false, func(v ssa.Value) {
			if c, ok := v.(*ssa.Call); ok && calleeObj(c) != nil && calleeObj(c).Name() == "nextAttemptAt" {
				next = true
			}
		})
		okRel = failed && next
	}
	r.Check(okRel, ruleDisp, "dispatchEntry: otherwise release with nextAttemptAt(entry)", fn.Pos(), "ok", "a failed publish does not release the claim with the computed back-off time")

	// back-off clamps
	na := w.SSAFunc(relNotif, "StorageMiddleware.nextAttemptAt")
	if na == nil {
		r.Anchor(ruleBackoff, "StorageMiddleware.nextAttemptAt")
		return
	}
	upper, lower := false, false
	allInstrs(na, false, func(_ *ssa.Function, ins ssa.Instruction) {
		phi, ok := ins.(*ssa.Phi)
		if !ok {
			return
		}
		// a phi merging x with a clamp value: the unclamped value may flow only on an edge
		// that established the comparison false (x > clamp false / x < 0 false)
		var clampIdx = -1
		clampIsMax, clampIsZero := false, false
		for i, e := range phi.Edges {
			if n, _ := fieldLoadName(unconvert(e)); n == "MaxBackoff" {
				clampIdx, clampIsMax = i, true
			}
			if k, isc := intConst(e); isc && k == 0 {
				clampIdx, clampIsZero = i, true
			}
		}
		if clampIdx < 0 {
			return
		}
		for i, e := range phi.Edges {
			if i == clampIdx {
				continue
			}
			pred := phi.Block().Preds[i]
			for _, f := range append(factsAt(pred), lastEdgeFacts(pred, phi.Block())...) {
				b, isB := f.Val.(*ssa.BinOp)
				if !isB || f.Kind != IsFalse || !sameValue(b.X, e) {
					continue
				}
				if clampIsMax && b.Op == token.GTR {
					if n, _ := fieldLoadName(unconvert(b.Y)); n == "MaxBackoff" {
						upper = true
					}
				}
				if clampIsZero && b.Op == token.LSS {
					if k, isc := intConst(b.Y); isc && k == 0 {
						lower = true
					}
				}
			}
		}
	})
	r.Check(upper, ruleBackoff, "nextAttemptAt: delay clamped at MaxBackoff", na.Pos(), "delay = maxBackoff under delay > maxBackoff", "the back-off delay is not bounded by MaxBackoff")
	r.Check(lower, ruleBackoff, "nextAttemptAt: exponent clamped at 0", na.Pos(), "exponent = 0 under exponent < 0", "a negative exponent is not clamped")

	// the clamp at MaxBackoff only bounds a delay that did not wrap around: integer shifts and
	// products by a value that grows with the attempt count overflow int64 and come out
	// negative or zero, below the clamp (floating point saturates at +Inf, which the clamp
	// handles)
	var upperBounded func(v ssa.Value, at *ssa.BasicBlock, depth int) bool
	upperBounded = func(v ssa.Value, at *ssa.BasicBlock, depth int) bool {
		if _, isc := v.(*ssa.Const); isc {
			return true
		}
		if depth > 4 {
			return false
		}
		for _, f := range factsAt(at) {
			b, isB := f.Val.(*ssa.BinOp)
			if !isB {
				continue
			}
			if _, isc := b.Y.(*ssa.Const); !isc || !(sameValue(b.X, v) || sameValue(b.X, stripConv(v))) {
				continue
			}
			if (f.Kind == IsTrue && (b.Op == token.LSS || b.Op == token.LEQ)) || (f.Kind == IsFalse && (b.Op == token.GTR || b.Op == token.GEQ)) {
				return true
			}
		}
		if c := stripConv(v); c != v {
			return upperBounded(c, at, depth+1)
		}
		if phi, ok := v.(*ssa.Phi); ok {
			for i, e := range phi.Edges {
				if !upperBounded(e, phi.Block().Preds[i], depth+1) {
					return false
				}
			}
			return true
		}
		return false
	}
	wraps := ""
	var wrapPos token.Pos = na.Pos()
	allInstrs(na, false, func(_ *ssa.Function, ins ssa.Instruction) {
		b, ok := ins.(*ssa.BinOp)
		if !ok || (b.Op != token.SHL && b.Op != token.MUL) {
			return
		}
		bt, ok := b.Type().Underlying().(*types.Basic)
		if !ok || bt.Info()&types.IsInteger == 0 {
			return
		}
		operands := []ssa.Value{b.Y}
		if b.Op == token.MUL {
			operands = append(operands, b.X)
		}
		unbounded := 0
		for _, o := range operands {
			if !upperBounded(o, b.Block(), 0) {
				unbounded++
			}
		}
		// a product needs both factors unbounded-by-constant to be suspicious only if one of
		// them grows with the attempts; a shift needs a bounded count
		if (b.Op == token.SHL && unbounded > 0) || (b.Op == token.MUL && unbounded > 1) {
			wraps = b.Op.String()
			wrapPos = b.Pos()
		}
	})
	r.Check(wraps == "", ruleBackoff, "nextAttemptAt: delay computed without integer wrap-around", wrapPos, "no integer shift or product by an unbounded value", "the delay is an integer "+wraps+" by a value with no constant upper bound: after enough failed attempts it overflows to a negative or zero duration, which passes the MaxBackoff clamp and makes the entry due immediately")
}

// unconvert strips numeric conversions and loads to reach the field a value was read from.
func unconvert(v ssa.Value) ssa.Value {
	for i := 0; i < 4; i++ {
		switch x := v.(type) {
		case *ssa.Convert:
			v = x.X
		case *ssa.ChangeType:
			v = x.X
		default:
			return v
		}
	}
	return v
}

// lastEdgeFacts: facts of the direct edge pred -> succ when pred ends in an If.
func lastEdgeFacts(pred, succ *ssa.BasicBlock) []Fact {
	if len(pred.Instrs) == 0 {
		return nil
	}
	if _, ok := pred.Instrs[len(pred.Instrs)-1].(*ssa.If); !ok {
		return nil
	}
	var out []Fact
	for k := 0; k < 2; k++ {
		if pred.Succs[k] == succ {
			out = append(out, edgeFacts(pred, k)...)
		}
	}
	return out
}

func checkC22SQL(w *World, r *Run, rule string) {
	p := w.Pkg(relNotif)
	sc := p.Types.Scope()
	var names []string
	for _, n := range sc.Names() {
		names = append(names, n)
	}
	sort.Strings(names)
	for _, n := range names {
		c, ok := sc.Lookup(n).(*types.Const)
		if !ok || c.Val().Kind() != constant.String {
			continue
		}
		text := constant.StringVal(c.Val())
		if !looksLikeSQL(text) || !strings.Contains(text, "notification_outbox_entries") {
			continue
		}
		toks := sqlTokens(text)
		cons := "notification." + n
		if toks[0] == "INSERT" {
			r.Check(containsTok(toks, "outbox_id"), rule, cons, c.Pos(), "inserts outbox_id", "insert does not set outbox_id")
			continue
		}
		where := joinToks(sqlClause(toks, "WHERE"))
		okS := strings.Contains(where, "outbox_id = $")
		detail := "scoped by outbox_id"
		low := strings.ToLower(n)
		switch {
		case strings.HasPrefix(low, "claim"):
			set := joinToks(sqlClause(toks, "SET"))
			if !(strings.Contains(where, "version = $") && strings.Contains(where, "dead_lettered_at IS NULL") && strings.Contains(where, "next_attempt_at <= $") && strings.Contains(where, "claim_owner IS NULL OR claim_until <= $") && strings.Contains(set, "attempts = attempts + 1")) {
				okS = false
				detail = "claim not conditioned on version / not dead-lettered / due / free-or-expired claim, or does not count the attempt: " + where
			}
		case strings.HasPrefix(low, "deleteclaim"), strings.HasPrefix(low, "release"), strings.HasPrefix(low, "deadletter"), strings.HasPrefix(low, "extend"):
			if !strings.Contains(where, "claim_owner = $") {
				okS = false
				detail = "not conditioned on claim_owner"
			}
		case strings.HasPrefix(low, "findfirst"):
			order := joinToks(sqlClause(toks, "ORDER", "BY"))
			if !strings.Contains(where, "dead_lettered_at IS NULL") || !strings.HasPrefix(order, "next_attempt_at") && !strings.HasPrefix(order, "id") {
				okS = false
				detail = "first-entry lookup does not skip dead-lettered entries or is unordered: WHERE " + where + " ORDER BY " + order
			}
		}
		r.Check(okS, rule, cons, c.Pos(), detail, detail)
	}
}
