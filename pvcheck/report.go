package main

import (
	"encoding/json"
	"fmt"
	"go/token"
	"os"
	"path/filepath"
	"sort"
	"strconv"
	"strings"
	"time"
)

type Status string

const (
	Discharged Status = "discharged"
	Exempted   Status = "exempt"
	Violated   Status = "violated"
	Undecided  Status = "undecided"
)

// Ob is one obligation: a rule instance applied to one construct of the tree.
type Ob struct {
	Rule      string `json:"rule"`
	Construct string `json:"construct"` // stable key: resolved symbols, never a line number
	Pos       string `json:"pos"`
	Status    Status `json:"status"`
	Detail    string `json:"detail,omitempty"`
}

type ruleInfo struct {
	Name   string `json:"rule"`
	Engine string `json:"engine"`
	Text   string `json:"text"`
	Min    int    `json:"min_sites"`
}

// Run collects what one property check found.
type Run struct {
	ID      string
	Tier    string
	W       *World
	obs     []Ob
	rules   []*ruleInfo
	ruleIdx map[string]*ruleInfo
	notes   []string
	notCov  []string
	start   time.Time
}

func newRun(id, tier string, w *World) *Run {
	return &Run{ID: id, Tier: tier, W: w, ruleIdx: map[string]*ruleInfo{}, start: time.Now()}
}

// Rule declares a rule instance: its engine family, what it demands, and the minimum
// number of sites confirmed by hand on the pinned tree (a lower count fails the check).
func (r *Run) Rule(name, engine, text string, min int) string {
	if _, ok := r.ruleIdx[name]; !ok {
		ri := &ruleInfo{Name: name, Engine: engine, Text: text, Min: min}
		r.rules = append(r.rules, ri)
		r.ruleIdx[name] = ri
	}
	return name
}

func (r *Run) add(rule, construct string, pos token.Pos, st Status, detail string) {
	if _, ok := r.ruleIdx[rule]; !ok {
		panic("undeclared rule " + rule)
	}
	r.obs = append(r.obs, Ob{Rule: rule, Construct: construct, Pos: r.W.Pos(pos), Status: st, Detail: detail})
}

func (r *Run) OK(rule, construct string, pos token.Pos, detail string) {
	r.add(rule, construct, pos, Discharged, detail)
}
func (r *Run) Bad(rule, construct string, pos token.Pos, detail string) {
	r.add(rule, construct, pos, Violated, detail)
}
func (r *Run) Unk(rule, construct string, pos token.Pos, detail string) {
	r.add(rule, construct, pos, Undecided, detail)
}
func (r *Run) Exempt(rule, construct string, pos token.Pos, reason string) {
	r.add(rule, construct, pos, Exempted, reason)
}

// Check records OK when cond holds, Bad otherwise.
func (r *Run) Check(cond bool, rule, construct string, pos token.Pos, okDetail, badDetail string) bool {
	if cond {
		r.OK(rule, construct, pos, okDetail)
	} else {
		r.Bad(rule, construct, pos, badDetail)
	}
	return cond
}

// Anchor reports an unresolved anchor as a violation of the rule.
func (r *Run) Anchor(rule, symbol string) {
	r.add(rule, "ANCHOR-UNRESOLVED "+symbol, token.NoPos, Violated, "the symbol the rule is anchored on no longer resolves; the rule cannot be decided")
}

func (r *Run) Note(format string, a ...any) { r.notes = append(r.notes, fmt.Sprintf(format, a...)) }
func (r *Run) NotCovered(format string, a ...any) {
	r.notCov = append(r.notCov, fmt.Sprintf(format, a...))
}

// ---- known findings --------------------------------------------------------------------

type knownFinding struct {
	Property  string `json:"property"`
	Rule      string `json:"rule"`
	Construct string `json:"construct"`
	WhatFails string `json:"what_fails"`
}

type knownFile struct {
	Findings []knownFinding `json:"findings"`
	Fixed    []string       `json:"fixed"`
}

func loadKnown(verif string) (*knownFile, error) {
	b, err := os.ReadFile(filepath.Join(verif, "known-findings.json"))
	if err != nil {
		if os.IsNotExist(err) {
			return &knownFile{}, nil
		}
		return nil, err
	}
	var k knownFile
	if err := json.Unmarshal(b, &k); err != nil {
		return nil, fmt.Errorf("known-findings.json: %w", err)
	}
	return &k, nil
}

// ---- finalisation ----------------------------------------------------------------------

type replayFile struct {
	Property  string `json:"property"`
	Rule      string `json:"rule"`
	RuleText  string `json:"rule_text"`
	Engine    string `json:"engine"`
	Construct string `json:"construct"`
	Pos       string `json:"pos"`
	Status    Status `json:"status"`
	Detail    string `json:"detail"`
}

// finish evaluates the verdict, writes evidence and replay files, prints the protocol
// lines and returns the number of unlisted violations.
func (r *Run) finish(verif string, known *knownFile, seed int64) int {
	// minimum instance counts: a rule that matches fewer sites than confirmed by hand fails.
	count := map[string]int{}
	for _, o := range r.obs {
		count[o.Rule]++
	}
	for _, ri := range r.rules {
		// The declared minimum is the number of sites confirmed by hand on the pinned tree.
		// A refactoring that merges or removes a few legitimate sites keeps the property, so
		// the guard trips only when the rule has lost a substantial part of its sites (more
		// than a third, or any site of a rule with at most three): that is when it no longer
		// sees what it was written for.
		floor := ri.Min
		if ri.Min > 3 {
			floor = (2*ri.Min + 2) / 3
		}
		if count[ri.Name] < floor {
			r.obs = append(r.obs, Ob{Rule: ri.Name, Construct: "RULE-INSTANCE-COUNT " + ri.Name, Pos: "-", Status: Violated,
				Detail: fmt.Sprintf("rule matched %d sites, the pinned tree had %d (guard at %d): the rule no longer sees the sites it was confirmed on and would pass vacuously", count[ri.Name], ri.Min, floor)})
		}
	}
	sort.SliceStable(r.obs, func(i, j int) bool {
		a, b := r.obs[i], r.obs[j]
		if a.Rule != b.Rule {
			return a.Rule < b.Rule
		}
		if a.Construct != b.Construct {
			return a.Construct < b.Construct
		}
		return posLess(a.Pos, b.Pos)
	})

	kf := map[string]knownFinding{}
	for _, k := range known.Findings {
		if k.Property == r.ID {
			kf[k.Rule+"\x00"+k.Construct] = k
		}
	}
	outDir := filepath.Join(verif, "evidence")
	if o := os.Getenv("PVCHECK_OUT"); o != "" {
		outDir = o
	}
	replayDir := filepath.Join(outDir, "replay")
	os.MkdirAll(replayDir, 0o755)
	old, _ := filepath.Glob(filepath.Join(replayDir, r.ID+".*.json"))
	for _, f := range old {
		os.Remove(f)
	}

	var nViol, nKnown, nDis, nEx int
	seenKF := map[string]bool{}
	perRule := map[string]map[Status]int{}
	distinct := map[string]bool{}
	for _, o := range r.obs {
		if perRule[o.Rule] == nil {
			perRule[o.Rule] = map[Status]int{}
		}
		perRule[o.Rule][o.Status]++
		distinct[o.Rule+"\x00"+o.Construct] = true
		switch o.Status {
		case Discharged:
			nDis++
		case Exempted:
			nEx++
		case Violated, Undecided:
			key := o.Rule + "\x00" + o.Construct
			if k, ok := kf[key]; ok {
				if !seenKF[key] {
					fmt.Printf("KNOWN-FINDING: property=%s %s [%s] %s — %s\n", r.ID, o.Construct, o.Rule, o.Pos, k.WhatFails)
					seenKF[key] = true
				}
				nKnown++
				continue
			}
			nViol++
			ri := r.ruleIdx[o.Rule]
			rp := replayFile{Property: r.ID, Rule: o.Rule, Construct: o.Construct, Pos: o.Pos, Status: o.Status, Detail: o.Detail}
			if ri != nil {
				rp.RuleText, rp.Engine = ri.Text, ri.Engine
			}
			path := filepath.Join(replayDir, fmt.Sprintf("%s.%d.json", r.ID, nViol))
			b, _ := json.MarshalIndent(rp, "", " ")
			os.WriteFile(path, b, 0o644)
			fmt.Printf("%s: %s: [%s] %s: %s (%s)\n", o.Pos, r.ID, o.Rule, o.Construct, o.Detail, o.Status)
			fmt.Printf("VIOLATION property=%s replay=%s\n", r.ID, path)
		}
	}
	for key, k := range kf {
		if !seenKF[key] {
			fmt.Printf("NOTE: known finding no longer reproduced (repaired or construct renamed): property=%s [%s] %s\n", r.ID, k.Rule, k.Construct)
		}
	}

	// evidence
	type ruleOut struct {
		ruleInfo
		Sites      int `json:"sites"`
		Discharged int `json:"discharged"`
		Exempt     int `json:"exempt"`
		Violated   int `json:"violated"`
		Undecided  int `json:"undecided"`
	}
	var rulesOut []ruleOut
	for _, ri := range r.rules {
		c := perRule[ri.Name]
		rulesOut = append(rulesOut, ruleOut{*ri, count[ri.Name], c[Discharged], c[Exempted], c[Violated], c[Undecided]})
	}
	var samples []Ob
	taken := map[string]int{}
	for _, o := range r.obs {
		if taken[o.Rule] < 3 || o.Status != Discharged {
			samples = append(samples, o)
			taken[o.Rule]++
		}
		if len(samples) >= 60 {
			break
		}
	}
	var exemptions []Ob
	for _, o := range r.obs {
		if o.Status == Exempted {
			exemptions = append(exemptions, o)
		}
	}
	expl := fmt.Sprintf("Static analysis of %s's current source (no pithos code executed). %d rule instances were applied to %d sites: %d discharged, %d exempted by a frozen per-construct reason, %d listed known findings, %d unlisted violations/undecided. The rules decide structural necessary conditions of the property on every analysed site and path; they do not decide the behaviour itself.",
		r.W.Repo, len(r.rules), len(r.obs), nDis, nEx, nKnown, nViol)
	ev := map[string]any{
		"property_id": r.ID,
		"tier":        r.Tier,
		"seed":        seed,
		"level":       "other",
		"coverage": map[string]any{
			"explanation":         expl,
			"obligations":         len(r.obs),
			"discharged":          nDis,
			"exempted":            nEx,
			"known_findings":      nKnown,
			"evaluations":         len(r.obs),
			"distinct_nontrivial": len(distinct),
			"rule":                "one obligation per (rule instance, resolved construct); distinct = distinct (rule, construct) keys; every obligation is non-trivial in that it names a concrete site of the current tree",
			"rules":               rulesOut,
			"samples":             samples,
			"exemptions":          exemptions,
			"all_obligations":     r.obs,
			"packages_analysed":   len(r.W.All),
			"dependency_packages": r.W.NumDeps,
			"functions_in_scope":  len(r.W.allFuncs),
			"checker_cmd":         "./check " + r.ID + " " + r.Tier,
			"trusted_base":        []string{"go/types (go1.27.0)", "golang.org/x/tools v0.50.0 go/packages, go/ssa, go/cfg", "the frozen rule tables in /verif/pvcheck/*.go", "GOOS=linux build configuration (tink/tpm windows/unsupported variants not loaded)"},
			"not_covered":         r.notCov,
			"notes":               r.notes,
			"exhaustive":          true,
		},
		"assumptions": []string{
			"structural necessary conditions only: the behaviour over runtime values, schedules and crash points is not decided",
			"reflection, unsafe and cgo are not modelled; interface calls are resolved per static type, not per configured stack",
		},
		"wall_s":     time.Since(r.start).Seconds(),
		"violations": nViol,
	}
	b, _ := json.MarshalIndent(ev, "", " ")
	os.MkdirAll(outDir, 0o755)
	if err := os.WriteFile(filepath.Join(outDir, r.ID+".json"), b, 0o644); err != nil {
		fmt.Fprintf(os.Stderr, "cannot write evidence: %v\n", err)
		return nViol + 1
	}
	fmt.Printf("%s %s: %d rules, %d obligations, %d discharged, %d exempt, %d known, %d violations (%.1fs)\n",
		r.ID, r.Tier, len(r.rules), len(r.obs), nDis, nEx, nKnown, nViol, time.Since(r.start).Seconds())
	return nViol
}

func posLess(a, b string) bool {
	fa, la := splitPos(a)
	fb, lb := splitPos(b)
	if fa != fb {
		return fa < fb
	}
	return la < lb
}

func splitPos(s string) (string, int) {
	i := strings.LastIndex(s, ":")
	if i < 0 {
		return s, 0
	}
	n, _ := strconv.Atoi(s[i+1:])
	return s[:i], n
}

// hasConstruct reports whether an obligation with this rule and construct key was recorded.
func (r *Run) hasConstruct(rule, construct string) bool {
	for _, o := range r.obs {
		if o.Rule == rule && o.Construct == construct {
			return true
		}
	}
	return false
}
