package main

import (
	"go/token"
	"go/types"
	"strconv"
	"strings"

	"golang.org/x/tools/go/ssa"
)

// Rules added after the fourth round of seeded changes (changes placed next to the anchored
// mechanisms: helpers, handlers, wrappers, sibling stores).

// closuresPassedTo lists the function literals handed to calls of the method `name` inside fn.
func closuresPassedTo(fn *ssa.Function, name string) []*ssa.Function {
	var out []*ssa.Function
	allInstrs(fn, false, func(_ *ssa.Function, ins ssa.Instruction) {
		c, ok := ins.(ssa.CallInstruction)
		if !ok {
			return
		}
		g := calleeObj(c)
		if g == nil || g.Name() != name {
			return
		}
		for _, a := range c.Common().Args {
			if mc, ok := a.(*ssa.MakeClosure); ok {
				if f, ok := mc.Fn.(*ssa.Function); ok {
					out = append(out, f)
				}
			}
			if f, ok := a.(*ssa.Function); ok {
				out = append(out, f)
			}
		}
	})
	return out
}

// checkRollbackHooksIgnoreContext: a rollback hook undoes what a pre-commit hook did to the
// file system. It runs exactly when something went wrong — very often because the request
// context ended — so it must not give up because that context is done.
func checkRollbackHooksIgnoreContext(w *World, r *Run) {
	rule := r.Rule("rollback-hooks-do-not-depend-on-the-request-context", "F1",
		"no function literal registered with OnRollback by the filesystem or sftp part store branches on ctx.Err() / ctx.Done(): the restore of a renamed part file must happen although the request was cancelled", 2)
	n := 0
	for _, fn := range w.allFuncs {
		if fn.Pkg == nil {
			continue
		}
		rel := pkgRel(fn.Pkg.Pkg)
		if !strings.HasSuffix(rel, "partstore/filesystem") && !strings.HasSuffix(rel, "partstore/sftp") {
			continue
		}
		for _, hook := range closuresPassedTo(fn, "OnRollback") {
			n++
			bad := token.NoPos
			allInstrs(hook, true, func(_ *ssa.Function, ins ssa.Instruction) {
				c, ok := ins.(ssa.CallInstruction)
				if !ok || !c.Common().IsInvoke() {
					return
				}
				if m := c.Common().Method.Name(); (m == "Err" || m == "Done") && strings.HasSuffix(c.Common().Value.Type().String(), "context.Context") {
					bad = posOf(ins)
				}
			})
			cons := strings.TrimPrefix(funcName(fn), "internal/storage/metadatapart/partstore/") + ": rollback hook #" + strconv.Itoa(n)
			pos := hook.Pos()
			if bad != token.NoPos {
				pos = bad
			}
			r.Check(bad == token.NoPos, rule, cons, pos, "unconditional restore", "the rollback hook consults the request context: when the context ended between the pre-commit rename and the failed COMMIT the part file is never restored while the database rolled back — the object is listed but unreadable")
		}
	}
	if n == 0 {
		r.Bad(rule, "rollback hooks of the file stores", token.NoPos, "no OnRollback registration found")
	}
}

// checkSeekableReadersTrackOffset: a reader that implements Seek relative to its own offset
// field must advance that field by what Read hands out; otherwise SeekCurrent (used to skip
// to the start of a range) lands at the wrong byte after any Read.
func checkSeekableReadersTrackOffset(w *World, r *Run) {
	rule := r.Rule("seekable-readers-advance-their-offset", "F9",
		"every type of the part stores that has Read and Seek methods and an integer field named offset/pos/position stores into that field, in Read, a value derived from the number of bytes read", 2)
	n := 0
	for _, fn := range w.allFuncs {
		if fn.Pkg == nil || fn.Name() != "Read" || fn.Signature.Recv() == nil || !strings.Contains(pkgRel(fn.Pkg.Pkg), "internal/storage/") {
			continue
		}
		T := recvNamedOfSig(fn.Signature)
		if T == nil {
			continue
		}
		st, ok := T.Underlying().(*types.Struct)
		if !ok {
			continue
		}
		field := ""
		for i := 0; i < st.NumFields(); i++ {
			nm := strings.ToLower(st.Field(i).Name())
			if b, ok := st.Field(i).Type().Underlying().(*types.Basic); ok && b.Info()&types.IsInteger != 0 && (nm == "offset" || nm == "pos" || nm == "position") {
				field = st.Field(i).Name()
			}
		}
		hasSeek := false
		for i := 0; i < T.NumMethods(); i++ {
			if T.Method(i).Name() == "Seek" {
				hasSeek = true
			}
		}
		if field == "" || !hasSeek {
			continue
		}
		// does Seek use the field for relative seeks at all?
		seek := w.Prog.FuncValue(func() *types.Func {
			for i := 0; i < T.NumMethods(); i++ {
				if T.Method(i).Name() == "Seek" {
					return T.Method(i)
				}
			}
			return nil
		}())
		usesField := false
		if seek != nil {
			allInstrs(seek, false, func(_ *ssa.Function, ins ssa.Instruction) {
				if fa, ok := ins.(*ssa.FieldAddr); ok && fieldName(fa.X.Type(), fa.Field) == field {
					usesField = true
				}
			})
		}
		if !usesField {
			continue
		}
		n++
		advanced := false
		allInstrs(fn, false, func(_ *ssa.Function, ins ssa.Instruction) {
			s, ok := ins.(*ssa.Store)
			if !ok {
				return
			}
			fa, ok := s.Addr.(*ssa.FieldAddr)
			if !ok || fieldName(fa.X.Type(), fa.Field) != field {
				return
			}
			// offset = offset + <something that is not a constant>
			if b, ok := stripConv(s.Val).(*ssa.BinOp); ok && b.Op == token.ADD {
				for k, o := range []ssa.Value{b.X, b.Y} {
					other := []ssa.Value{b.Y, b.X}[k]
					if n, _ := fieldLoadName(o); n == field {
						if _, isConst := stripConv(other).(*ssa.Const); !isConst {
							advanced = true
						}
					}
				}
			}
		})
		r.Check(advanced, rule, strings.TrimPrefix(funcName(fn), "internal/storage/")+" advances "+field, fn.Pos(), field+" += n", "Read does not move the offset its own Seek is relative to: after any Read a SeekCurrent — which ranged reads use to skip to their first byte — continues from the wrong position and the range returns the right number of wrong bytes")
	}
	if n == 0 {
		r.Bad(rule, "seekable readers with an offset field", token.NoPos, "none found")
	}
}

// checkC06ContinuationWins: a ListObjectsV2 follow-up request carries both start-after and
// continuation-token (SDK paginators do); the token decides where the page starts.
func checkC06ContinuationWins(w *World, r *Run) {
	rule := r.Rule("continuation-token-overrides-start-after", "F1",
		"in listObjectsV2Handler the decoded continuation token replaces start-after on the edge where the token is present — and on nothing else (not only when start-after is absent)", 1)
	fn := w.SSAFunc(relServer, "Server.listObjectsV2Handler")
	if fn == nil {
		r.Anchor(rule, relServer+".Server.listObjectsV2Handler")
		return
	}
	// the value handed on as StartAfter
	var opt ssa.Value
	for _, fs := range fieldStoresIn(fn, false, "ListObjectsOptions")["StartAfter"] {
		opt = fs.val
	}
	phi, _ := opt.(*ssa.Phi)
	if phi == nil {
		r.Bad(rule, "listObjectsV2Handler: StartAfter", fn.Pos(), "StartAfter is not chosen between start-after and the continuation token")
		return
	}
	queryCall := func(v ssa.Value, word string) bool {
		c, ok := v.(*ssa.Call)
		if !ok || !isCallNamed(c, "GetQueryParam") {
			return false
		}
		for _, a := range c.Call.Args {
			if sv, ok := constString(a); ok && strings.Contains(sv, word) {
				return true
			}
		}
		return false
	}
	good, why := false, "no edge replaces start-after by the continuation token"
	for i, e := range phi.Edges {
		if !queryCall(e, "continuation") {
			continue
		}
		pred := phi.Block().Preds[i]
		tokenPresent, startAfterTested := false, false
		for _, f := range append(factsAt(pred), lastEdgeFacts(pred, phi.Block())...) {
			if queryCall(f.Val, "continuation") && f.Kind == NonNil {
				tokenPresent = true
			}
			if queryCall(f.Val, "start-after") {
				startAfterTested = true
			}
		}
		if tokenPresent && !startAfterTested {
			good = true
		} else if startAfterTested {
			why = "whether the token is used depends on start-after"
		} else {
			why = "the token edge is not guarded by the token being present"
		}
	}
	r.Check(good, rule, "listObjectsV2Handler: continuation token decides the page start", phi.Pos(), "token present → StartAfter = token", why+": paginators send start-after together with the continuation token on every follow-up page, so every page restarts after start-after and the listing never ends (keys repeated, later keys never returned)")
}

// checkAbsentPartDeleteIsNoError: deleting a part that is already gone succeeds (the deletion
// paths — erasure coding shard by shard, outbox replay after a crash — repeat deletes).
func checkAbsentPartDeleteIsNoError(w *World, r *Run) {
	rule := r.Rule("deleting-an-absent-part-is-not-an-error", "F1",
		"in the filesystem part store's DeletePart the error of os.Remove is dropped exactly under a not-exist test (ENOENT / fs.ErrNotExist / os.IsNotExist), never under fs.ErrExist", 1)
	fn := w.SSAFunc("internal/storage/metadatapart/partstore/filesystem", "filesystemPartStore.DeletePart")
	if fn == nil {
		r.Anchor(rule, "filesystem.filesystemPartStore.DeletePart")
		return
	}
	notExist, wrong := false, ""
	allInstrs(fn, true, func(_ *ssa.Function, ins ssa.Instruction) {
		switch x := ins.(type) {
		case *ssa.UnOp:
			if g, ok := x.X.(*ssa.Global); ok {
				switch g.Name() {
				case "ErrNotExist":
					notExist = true
				case "ErrExist":
					wrong = "fs.ErrExist"
				}
			}
		case *ssa.Call:
			if g := calleeObj(x); g != nil && g.Name() == "IsNotExist" {
				notExist = true
			}
			if g := calleeObj(x); g != nil && g.Name() == "IsExist" {
				wrong = "os.IsExist"
			}
		case *ssa.BinOp:
			for _, o := range []ssa.Value{x.X, x.Y} {
				if k, ok := stripConv(o).(*ssa.Const); ok && k.Value != nil && strings.HasSuffix(k.Type().String(), "syscall.Errno") {
					if v, isC := intConst(k); isC && v == 2 {
						notExist = true
					}
				}
			}
		case *ssa.MakeInterface:
			if k, ok := x.X.(*ssa.Const); ok && k.Value != nil && strings.HasSuffix(k.Type().String(), "syscall.Errno") {
				if v, isC := intConst(k); isC && v == 2 {
					notExist = true
				}
			}
		}
	})
	r.Check(notExist && wrong == "", rule, "filesystem DeletePart tolerates a missing file", fn.Pos(), "not-exist test", "the remove error is tested against "+wrong+" (or not against not-exist at all): deleting a part whose file is already gone fails, so a multi-store delete (erasure coding) stops at the first missing shard and the remaining shards are never reclaimed")
}

// checkVersionOrderRanksNull: the null version carries the version id "null", which sorts
// above every ULID as a string. A statement that orders rows of one key by version id must
// rank it the way the version listing does (COALESCE(NULLIF(version_id,'null'),'')), never by
// the raw column — otherwise an old null version overtakes newer real versions.
func checkVersionOrderRanksNull(w *World, r *Run) {
	rule := r.Rule("ordering-by-version-id-ranks-the-null-version-explicitly", "F4",
		"no statement on objects orders by the raw version_id column; where version ids are ordered the expression is COALESCE(NULLIF(version_id, 'null'), '')", 2)
	n := 0
	for _, s := range collectSQL(w) {
		if s.Entity != "object" {
			continue
		}
		ob := sqlClause(s.Toks, "ORDER", "BY")
		if len(ob) == 0 {
			continue
		}
		j := strings.ToUpper(joinToks(ob))
		if !strings.Contains(j, "VERSION_ID") {
			continue
		}
		n++
		// every occurrence of VERSION_ID inside ORDER BY sits inside NULLIF( … )
		raw := false
		for i, t := range ob {
			if strings.ToUpper(t) != "VERSION_ID" {
				continue
			}
			wrapped := false
			for k := i - 1; k >= 0 && k >= i-3; k-- {
				if strings.ToUpper(ob[k]) == "NULLIF" {
					wrapped = true
				}
			}
			if !wrapped {
				raw = true
			}
		}
		r.Check(!raw, rule, s.Dialect+" object."+s.Name+" ORDER BY", s.Pos, "NULLIF-wrapped", "rows are ordered by the raw version_id: the string 'null' sorts above every ULID, so the null version is ranked newest although it may be the oldest — after a version delete an old unversioned write becomes current again")
	}
	if n == 0 {
		r.Bad(rule, "object statements ordering by version id", token.NoPos, "none found (anchor lost)")
	}
}

// checkC08ReconciliationCountsRows: references are removed one per part row; the collector's
// reconciliation must count the same thing (rows), or it lowers the count of a part that one
// object references from two rows and the next single removal frees live data.
func checkC08ReconciliationCountsRows(w *World, r *Run, rule string) {
	n := 0
	for _, s := range collectSQL(w) {
		if s.Entity != "partregistry" || s.Name != "reconciliationStmt" {
			continue
		}
		n++
		up := strings.ToUpper(joinToks(s.Toks))
		r.Check(strings.Contains(up, "COUNT ( * )") && !strings.Contains(up, "DISTINCT"), rule, s.Dialect+"/partregistry.reconciliationStmt counts part rows", s.Pos, "COUNT(*) per part id", "the reconciliation does not count the part rows one by one (DISTINCT or another expression): a part referenced twice by one object is reconciled to a count below its rows, and removing one of them frees the part while the other row still needs it")
	}
	if n == 0 {
		r.Anchor(rule, "partregistry.reconciliationStmt")
	}
}

// checkC11AppendCarriesOver: an append that is stored as a new version (current object is a
// real version, or versioning is enabled) must carry the existing object's metadata, tags and
// storage class whenever there is an existing object — whatever the versioning state.
func checkC11AppendCarriesOver(w *World, r *Run) {
	rule := r.Rule("append-carry-over-depends-only-on-an-existing-object", "F1",
		"in metadataPartStorage.AppendObject the stores of Metadata, Tags and StorageClass taken from the existing object are guarded by nothing but existingObject != nil", 3)
	fn := w.SSAFunc("internal/storage/metadatapart", "metadataPartStorage.AppendObject")
	if fn == nil {
		r.Anchor(rule, "metadatapart.metadataPartStorage.AppendObject")
		return
	}
	n := 0
	allInstrs(fn, true, func(lit *ssa.Function, ins ssa.Instruction) {
		st, ok := ins.(*ssa.Store)
		if !ok {
			return
		}
		fa, ok := st.Addr.(*ssa.FieldAddr)
		if !ok {
			return
		}
		f := fieldName(fa.X.Type(), fa.Field)
		if f != "Metadata" && f != "Tags" && f != "StorageClass" {
			return
		}
		// value read off the object HeadObject/GetObject returned
		if !sliceContains(st.Val, false, func(x ssa.Value) bool {
			nm, _ := fieldLoadName(x)
			return nm == f
		}) {
			return
		}
		n++
		// the conditions between the store and the test "an object exists" (nearest first)
		extra, anchored := "", false
		for _, fct := range factsAt(st.Block()) {
			if fct.Kind == NonNil && strings.HasSuffix(fct.Val.Type().String(), ".Object") {
				anchored = true
				break
			}
			if fct.Kind == NonNil || fct.Kind == IsNil {
				continue
			}
			extra = describeVal(fct.Val)
			if al, ok := fct.Val.(*ssa.UnOp); ok {
				if a2, ok := al.X.(*ssa.Alloc); ok && a2.Comment != "" {
					extra = a2.Comment
				}
			}
		}
		if !anchored {
			extra = "conditions other than the existence of the object"
		}
		cons := "AppendObject carries " + f + " over"
		r.Check(extra == "", rule, cons, st.Pos(), "whenever an object exists", "the carry-over of "+f+" additionally depends on "+extra+": an append stored as a new version in another bucket state (e.g. versioning suspended with a real current version) loses the object's "+f)
	})
	if n == 0 {
		r.Bad(rule, "AppendObject carries metadata, tags and class over", fn.Pos(), "no carry-over store found")
	}
}

// checkC12OffsetZeroIsAnOffset: x-amz-write-offset-bytes: 0 is a claim ("the object is empty
// or absent") like any other offset; the handler must hand every parsed offset to the storage.
func checkC12OffsetZeroIsAnOffset(w *World, r *Run) {
	rule := r.Rule("every-parsed-write-offset-reaches-the-storage", "F1",
		"in appendObjectHandler the store of AppendObjectOptions.WriteOffset is not guarded by a comparison that excludes the value 0", 1)
	fn := w.SSAFunc(relServer, "Server.appendObjectHandler")
	if fn == nil {
		r.Anchor(rule, relServer+".Server.appendObjectHandler")
		return
	}
	stores := fieldStoresIn(fn, true, "AppendObjectOptions")["WriteOffset"]
	if len(stores) == 0 {
		r.Bad(rule, "appendObjectHandler: WriteOffset", fn.Pos(), "the parsed offset is never handed to the storage")
		return
	}
	bad := ""
	for _, st := range stores {
		for _, f := range factsAt(st.ins.Block()) {
			b, ok := f.Val.(*ssa.BinOp)
			if !ok {
				continue
			}
			k, isC := intConst(b.Y)
			if !isC || k != 0 {
				continue
			}
			// excludes zero: (x > 0 true) | (x != 0 true) | (x <= 0 false) | (x == 0 false)
			if (b.Op == token.GTR && f.Kind == IsTrue) || (b.Op == token.LEQ && f.Kind == IsFalse) {
				bad = "offset > 0"
			}
		}
		for _, f := range factsAt(st.ins.Block()) {
			if f.Kind == NeConst && f.Const != nil {
				if k, isC := intConst(f.Const); isC && k == 0 && !isErrorType(f.Val.Type()) {
					if _, isInt := f.Val.Type().Underlying().(*types.Basic); isInt {
						bad = "offset != 0"
					}
				}
			}
		}
	}
	r.Check(bad == "", rule, "appendObjectHandler hands offset 0 to the storage", fn.Pos(), "no zero-excluding guard", "the offset is forwarded only where "+bad+": an append claiming offset 0 on a non-empty object is no longer refused but applied at the current end, so a writer with a stale view (or several racing first writers) all succeed")
}

// checkC13ReplacedRowIsTheNullVersion: in an unversioned or suspended bucket PutObject and
// CompleteMultipartUpload replace the null version — the row they delete must be the one the
// null-version lookup returned, not "the current object" (which may be a real version).
func checkC13ReplacedRowIsTheNullVersion(w *World, r *Run) {
	rule := r.Rule("only-the-null-version-row-is-replaced", "F9",
		"in sqlMetadataStore.PutObject and CompleteMultipartUpload every removal of an existing object's rows (part rows, tags, metadata, the row itself) outside the pending-upload row targets the entity returned by FindNullObjectVersionByBucketNameAndKey", 2)
	for _, name := range []string{"PutObject", "CompleteMultipartUpload"} {
		fn := w.SSAFunc("internal/storage/metadatapart/metadatastore/sql", "sqlMetadataStore."+name)
		if fn == nil {
			r.Anchor(rule, "sql.sqlMetadataStore."+name)
			continue
		}
		n, bad := 0, token.NoPos
		allInstrs(fn, true, func(_ *ssa.Function, ins ssa.Instruction) {
			c, ok := ins.(ssa.CallInstruction)
			if !ok || calleeObj(c) == nil {
				return
			}
			nm := calleeObj(c).Name()
			if nm != "DeleteObjectById" && nm != "removePartRowsByObjectId" && nm != "DeleteTagsByObjectId" && nm != "DeleteUserMetadataByObjectId" {
				return
			}
			args := c.Common().Args
			id := args[len(args)-1]
			fromLookup := ""
			backSlice(id, false, func(x ssa.Value) {
				if cc, ok := x.(*ssa.Call); ok && calleeObj(cc) != nil && strings.HasPrefix(calleeObj(cc).Name(), "Find") {
					fromLookup = calleeObj(cc).Name()
				}
			})
			if fromLookup == "" {
				return // a fresh or parameter-provided id (pending upload row etc.)
			}
			n++
			switch fromLookup {
			case "FindNullObjectVersionByBucketNameAndKey", "FindObjectByBucketNameAndKeyAndUploadId", "FindPendingObjectByBucketNameAndKeyAndUploadId":
			default:
				if !strings.Contains(fromLookup, "UploadId") && !strings.Contains(fromLookup, "Pending") {
					bad = posOf(ins)
				}
			}
		})
		pos := fn.Pos()
		if bad != token.NoPos {
			pos = bad
		}
		r.Check(bad == token.NoPos && n > 0, rule, "sql "+name+": replaced rows come from the null-version lookup", pos, "FindNullObjectVersionByBucketNameAndKey", "rows of an object found by another lookup (the current object, whatever its version id) are removed: in a suspended bucket whose current object is a real version that version vanishes although it was never deleted")
	}
}

// checkC25ListingAge: the reconciler measures an object's age by the LastModified of the
// listing; rows are reused by overwrites of the null version and by multipart completion, so
// only updated_at is the time of the last write (created_at can be days older).
func checkC25ListingAge(w *World, r *Run) {
	rule := r.Rule("listing-age-is-the-time-of-the-last-write", "F9",
		"every LastModified the SQL metadata store's listings (listObjects, ListObjectVersions) report is read from the row's UpdatedAt", 2)
	n := 0
	for _, name := range []string{"sqlMetadataStore.listObjects", "sqlMetadataStore.ListObjectVersions"} {
		fn := w.SSAFunc(relSQLStore, name)
		if fn == nil {
			r.Anchor(rule, "sql."+name)
			continue
		}
		allInstrs(fn, true, func(_ *ssa.Function, ins ssa.Instruction) {
			st, ok := ins.(*ssa.Store)
			if !ok {
				return
			}
			fa, ok := st.Addr.(*ssa.FieldAddr)
			if !ok || fieldName(fa.X.Type(), fa.Field) != "LastModified" {
				return
			}
			n++
			from := ""
			backSlice(st.Val, false, func(x ssa.Value) {
				if nm, _ := fieldLoadName(x); nm == "UpdatedAt" || nm == "CreatedAt" {
					from = nm
				}
				if f2, ok := x.(*ssa.FieldAddr); ok {
					if nm := fieldName(f2.X.Type(), f2.Field); nm == "UpdatedAt" || nm == "CreatedAt" {
						from = nm
					}
				}
			})
			r.Check(from == "UpdatedAt", rule, strings.TrimPrefix(name, "sqlMetadataStore.")+": LastModified #"+strconv.Itoa(n), st.Pos(), "UpdatedAt", "the listing reports "+from+" as LastModified: a row reused by an overwrite or a multipart completion keeps its old created_at, so a Days-based lifecycle rule expires or transitions a just-written object days early")
		})
	}
	if n == 0 {
		r.Bad(rule, "listing LastModified", token.NoPos, "no LastModified store found in the listings")
	}
}

// checkTruncatingCreate: a part file written in place (no transaction: healing, outbox replay)
// must replace the old content entirely.
func checkTruncatingCreate(w *World, r *Run) {
	rule := r.Rule("in-place-part-writes-truncate", "F7",
		"every os.OpenFile in the filesystem part store that creates for writing (O_CREATE|O_WRONLY without O_EXCL/O_APPEND) also passes O_TRUNC", 1)
	n := 0
	for _, fn := range w.allFuncs {
		if fn.Pkg == nil || !strings.HasSuffix(pkgRel(fn.Pkg.Pkg), "partstore/filesystem") {
			continue
		}
		allInstrs(fn, false, func(_ *ssa.Function, ins ssa.Instruction) {
			c, ok := ins.(*ssa.Call)
			if !ok || !isCallNamed(c, "OpenFile") || len(c.Call.Args) != 3 {
				return
			}
			flags, isC := intConst(c.Call.Args[1])
			if !isC {
				return
			}
			const oWRONLY, oCREATE, oEXCL, oTRUNC, oAPPEND = 0x1, 0x40, 0x80, 0x200, 0x400
			if flags&oCREATE == 0 || flags&oWRONLY == 0 || flags&(oEXCL|oAPPEND) != 0 {
				return
			}
			n++
			r.Check(flags&oTRUNC != 0, rule, strings.TrimPrefix(funcName(fn), "internal/storage/metadatapart/partstore/")+": OpenFile #"+strconv.Itoa(n), c.Pos(), "O_TRUNC", "an existing file is overwritten from the start without being truncated: when the old content is longer (a foreign or stale shard being healed) its tail survives behind the new content and later reads fail or return extra bytes")
		})
	}
	if n == 0 {
		r.Bad(rule, "filesystem part store: creating opens", token.NoPos, "no creating OpenFile found")
	}
}

// checkCacheFileNamesInjective: the filesystem cache persistor maps a key to a file name; two
// keys must never share a file.
func checkCacheFileNamesInjective(w *World, r *Run) {
	rule := r.Rule("cache-file-name-encodes-the-whole-key", "F9",
		"the filesystem cache persistor's getFilename builds the name from the complete encoded key: no substring of the key or of its encoding is taken", 1)
	fn := w.SSAFunc("internal/cache/persistor/filesystem", "filesystemCachePersistor.getFilename")
	if fn == nil {
		r.Anchor(rule, "filesystem.filesystemCachePersistor.getFilename")
		return
	}
	cut := token.NoPos
	allInstrs(fn, false, func(_ *ssa.Function, ins ssa.Instruction) {
		if sl, ok := ins.(*ssa.Slice); ok {
			if b, ok := sl.X.Type().Underlying().(*types.Basic); ok && b.Info()&types.IsString != 0 {
				cut = sl.Pos()
			}
		}
	})
	pos := fn.Pos()
	if cut != token.NoPos {
		pos = cut
	}
	r.Check(cut == token.NoPos, rule, "getFilename uses the whole key", pos, "no truncation", "the file name is cut to a prefix of the encoded key: keys that agree in that prefix share one cache file, so the cache returns one object's bytes (and ETag, size) for another and keeps serving deleted keys")
}

// checkClaimExtensionArgs: the lease heartbeat must move claim_until forward: the value bound
// to `claim_until = $n` is the function's claimUntil parameter.
func checkClaimExtensionArgs(w *World, r *Run, rule string) {
	n := 0
	for _, fn := range w.allFuncs {
		if fn.Pkg == nil || !strings.Contains(pkgRel(fn.Pkg.Pkg), "/repository/") || !strings.HasPrefix(fn.Name(), "Extend") || !strings.HasSuffix(fn.Name(), "Claim") {
			continue
		}
		var until *ssa.Parameter
		for _, p := range fn.Params {
			if strings.EqualFold(p.Name(), "claimUntil") {
				until = p
			}
		}
		if until == nil {
			continue
		}
		allInstrs(fn, false, func(_ *ssa.Function, ins ssa.Instruction) {
			c, ok := ins.(ssa.CallInstruction)
			if !ok || calleeObj(c) == nil || calleeObj(c).Name() != "ExecContext" {
				return
			}
			args := c.Common().Args
			// stmt text
			var text string
			for _, a := range args {
				if sv, ok := constString(a); ok && strings.Contains(strings.ToUpper(sv), "CLAIM_UNTIL") {
					text = sv
				}
			}
			if text == "" {
				return
			}
			n++
			up := strings.ToUpper(text)
			i := strings.Index(up, "CLAIM_UNTIL = $")
			if i < 0 {
				r.Unk(rule, strings.TrimPrefix(funcName(fn), "internal/storage/database/")+": claim_until placeholder", c.Pos(), "SET claim_until = $n not found")
				return
			}
			k := int(up[i+len("CLAIM_UNTIL = $")] - '0')
			// variadic args are packed: find the k-th stored element
			var bound ssa.Value
			last := args[len(args)-1]
			if sl, ok := last.(*ssa.Slice); ok {
				if al, ok := sl.X.(*ssa.Alloc); ok && al.Referrers() != nil {
					for _, ref := range *al.Referrers() {
						if ia, ok := ref.(*ssa.IndexAddr); ok {
							if idx, isC := intConst(ia.Index); isC && int(idx) == k-1 {
								for _, sv := range storesTo(ia) {
									bound = sv
								}
							}
						}
					}
				}
			}
			good := bound != nil && sliceContains(bound, false, func(x ssa.Value) bool { return x == ssa.Value(until) })
			r.Check(good, rule, strings.TrimPrefix(funcName(fn), "internal/storage/database/")+": claim_until = $"+strconv.Itoa(k)+" ← claimUntil", c.Pos(), "claimUntil", "the placeholder assigned to claim_until is not bound to the claimUntil argument (e.g. to now): every heartbeat ends the lease instead of extending it, so a second worker claims and replays an entry that is still being replayed")
		})
	}
	if n == 0 {
		r.Bad(rule, "Extend…Claim binds claim_until", token.NoPos, "no claim-extension statement found")
	}
}

// checkTxReuseOnlyForOwnDatabase: a storage's database wrapper may join a transaction found in
// the context only if that transaction belongs to its own database.
func checkTxReuseOnlyForOwnDatabase(w *World, r *Run) {
	rule := r.Rule("context-transaction-joined-only-on-the-same-database", "F1",
		"every BeginTx of a database wrapper that returns tx.Child() of a transaction taken from the context does so only where tx.DBHandle() was compared equal to the wrapper's own database", 1)
	n := 0
	for _, fn := range w.allFuncs {
		if fn.Name() != "BeginTx" || fn.Pkg == nil || !strings.HasPrefix(pkgRel(fn.Pkg.Pkg), "internal/storage/") {
			continue
		}
		allInstrs(fn, false, func(_ *ssa.Function, ins ssa.Instruction) {
			c, ok := ins.(ssa.CallInstruction)
			if !ok || calleeObj(c) == nil || calleeObj(c).Name() != "Child" {
				return
			}
			n++
			good := everyPathEstablishes(ins.Block(), func(f Fact) bool {
				if f.Kind != EqConst || f.Other == nil {
					return false
				}
				for _, side := range []ssa.Value{f.Val, f.Other} {
					if cc, _ := callOf(stripConv(side)); cc != nil && calleeObj(cc) != nil && calleeObj(cc).Name() == "DBHandle" {
						return true
					}
				}
				return false
			})
			r.Check(good, rule, strings.TrimPrefix(funcName(fn), "internal/storage/")+": joins the context transaction", posOf(ins), "tx.DBHandle() == own database", "a transaction of another database is joined: with storages on different databases behind the bucket router, writes to a routed bucket run against the other storage's database (NoSuchBucket, or the object lands in the wrong storage)")
		})
	}
	if n == 0 {
		r.Bad(rule, "database wrappers joining a context transaction", token.NoPos, "none found")
	}
}

// checkSerializedTimesAreUTC: a layout that ends in a literal Z claims UTC; the value formatted
// with it must be converted with UTC() first, or a non-UTC process writes local digits that
// are read back as UTC and the entry hash no longer matches.
func checkSerializedTimesAreUTC(w *World, r *Run) {
	rule := r.Rule("z-suffixed-layouts-format-utc-times", "F9",
		"in the audit log serializers every (time.Time).Format with a layout ending in a literal Z has a receiver produced by UTC()", 1)
	n := 0
	for _, fn := range w.allFuncs {
		if fn.Pkg == nil || !strings.HasPrefix(pkgRel(fn.Pkg.Pkg), "internal/auditlog") {
			continue
		}
		allInstrs(fn, false, func(_ *ssa.Function, ins ssa.Instruction) {
			c, ok := ins.(*ssa.Call)
			if !ok || calleeObj(c) == nil || calleeObj(c).Name() != "Format" || len(c.Call.Args) != 2 {
				return
			}
			layout, isStr := constString(c.Call.Args[1])
			if !isStr || !strings.HasSuffix(layout, "Z") || strings.HasSuffix(layout, "Z07:00") {
				return
			}
			n++
			utc := sliceContains(c.Call.Args[0], false, func(x ssa.Value) bool { return isCallNamed(x, "UTC") })
			r.Check(utc, rule, strings.TrimPrefix(funcName(fn), "internal/auditlog/")+": Format(…Z) #"+strconv.Itoa(n), c.Pos(), "t.UTC().Format", "a time in the process-local zone is written with a layout that labels it UTC: on a host whose zone is not UTC the decoded timestamp differs from the hashed one and every log the server writes fails verification")
		})
	}
	if n == 0 {
		r.Bad(rule, "audit log serializers: Z layouts", token.NoPos, "none found")
	}
}

// checkBinaryReadsAreFull: inside an entry a short read is corruption (ErrUnexpectedEOF), not
// the end of the log. io.ReadFull and binary.Read report it; io.CopyN / Read return io.EOF,
// which every consumer treats as a clean end and so stops verifying.
func checkBinaryReadsAreFull(w *World, r *Run) {
	rule := r.Rule("truncated-entry-is-not-a-clean-end-of-log", "F8",
		"the read helpers of the binary serializer take bytes from the stream only through io.ReadFull / binary.Read (short read → io.ErrUnexpectedEOF), never through io.CopyN, io.Copy or a bare Read", 1)
	n := 0
	for _, fn := range w.allFuncs {
		if fn.Pkg == nil || pkgRel(fn.Pkg.Pkg) != "internal/auditlog/serialization" || !strings.HasPrefix(fn.Name(), "read") {
			continue
		}
		if w.Fset.Position(fn.Pos()).Filename == "" || !strings.HasSuffix(w.Fset.Position(fn.Pos()).Filename, "binary.go") {
			continue
		}
		bad := ""
		reads := 0
		allInstrs(fn, false, func(_ *ssa.Function, ins ssa.Instruction) {
			c, ok := ins.(ssa.CallInstruction)
			if !ok || calleeObj(c) == nil {
				return
			}
			g := calleeObj(c)
			switch {
			case g.Pkg() != nil && g.Pkg().Path() == "io" && (g.Name() == "CopyN" || g.Name() == "Copy" || g.Name() == "ReadAll" || g.Name() == "ReadAtLeast"):
				bad = "io." + g.Name()
			case c.Common().IsInvoke() && g.Name() == "Read":
				bad = "Reader.Read"
			case g.Pkg() != nil && (g.Pkg().Path() == "io" && g.Name() == "ReadFull" || g.Pkg().Path() == "encoding/binary" && g.Name() == "Read"):
				reads++
			}
		})
		if reads == 0 && bad == "" {
			continue
		}
		n++
		r.Check(bad == "", rule, "serialization."+fn.Name()+" reads completely or fails", fn.Pos(), "io.ReadFull / binary.Read", "the helper reads through "+bad+": a length prefix pointing past the end of the file yields plain io.EOF, which Verify, Dump and the file sink take for the regular end of the log — the damaged entry and everything after it go unverified and verification reports success")
	}
	if n == 0 {
		r.Bad(rule, "binary serializer read helpers", token.NoPos, "none found")
	}
}

// checkCanonicalHeaderValues: the canonical form of a signed header is the comma-joined list
// of all its field lines; using only the first line lets a line be added after signing (C28)
// and rejects SDK requests that send a signed header on several lines (C29).
func checkCanonicalHeaderValues(w *World, r *Run, rule string) {
	fn := w.SSAFunc(relAuthn, "collectSignedHeaders")
	if fn == nil {
		r.Anchor(rule, relAuthn+".collectSignedHeaders")
		return
	}
	join, get := false, token.NoPos
	allInstrs(fn, true, func(_ *ssa.Function, ins ssa.Instruction) {
		c, ok := ins.(*ssa.Call)
		if !ok || calleeObj(c) == nil {
			return
		}
		g := calleeObj(c)
		if g.Pkg() != nil && g.Pkg().Path() == "strings" && g.Name() == "Join" {
			if sep, ok := constString(c.Call.Args[1]); ok && sep == "," {
				join = true
			}
		}
		if n := recvNamed(g); n != nil && n.Obj().Name() == "Header" && g.Name() == "Get" {
			if hk, isC := constString(c.Call.Args[len(c.Call.Args)-1]); !isC || strings.ToLower(hk) != "host" {
				get = c.Pos()
			}
		}
	})
	pos := fn.Pos()
	if get != token.NoPos {
		pos = get
	}
	r.Check(join && get == token.NoPos, rule, "collectSignedHeaders canonicalises all values of a header", pos, "strings.Join(values, \",\")", "only the first field line of a header enters the canonical request: a line appended after signing is not covered by the signature, and a correctly signed request that repeats a signed header is rejected")
}

// checkSchemeFromTheConnection: the scheme the authorizer sees is a fact about the connection
// (TLS or not) unless a trusted proxy says otherwise; nothing else the client sends may set it.
func checkSchemeFromTheConnection(w *World, r *Run) {
	rule := r.Rule("request-scheme-comes-from-the-connection", "F9",
		"getRequestScheme returns only constants chosen by r.TLS != nil: it reads neither the request URL nor any header", 1)
	fn := w.SSAFunc(relServer, "getRequestScheme")
	if fn == nil {
		r.Anchor(rule, relServer+".getRequestScheme")
		return
	}
	bad := ""
	allInstrs(fn, false, func(_ *ssa.Function, ins ssa.Instruction) {
		if fa, ok := ins.(*ssa.FieldAddr); ok {
			if n := fieldName(fa.X.Type(), fa.Field); n != "TLS" {
				bad = "r." + n
			}
		}
	})
	for _, ret := range returnsOf(fn) {
		if len(ret.Results) == 1 {
			if _, isC := ret.Results[0].(*ssa.Const); !isC {
				bad = "a computed value"
			}
		}
	}
	r.Check(bad == "", rule, "getRequestScheme depends on r.TLS only", fn.Pos(), "\"https\" iff r.TLS != nil", "the scheme is taken from "+bad+", which the client controls (an absolute-form request line sets r.URL.Scheme): a peer that is no trusted proxy makes the authorizer see https on a plain connection")
}

// checkSameEndpointEverywhere: host routing and virtual-host rewriting must agree on what the
// API endpoint is, or a host is routed to the API but not rewritten (or the reverse).
func checkSameEndpointEverywhere(w *World, r *Run) {
	rule := r.Rule("routing-and-rewriting-use-the-same-endpoint", "F2",
		"SetupServer passes the very same apiEndpoint value to MakeVirtualHostBucketAddressingMiddleware and to MakeHostnameRoutingHandler", 1)
	fn := w.SSAFunc(relServer, "SetupServer")
	if fn == nil {
		r.Anchor(rule, relServer+".SetupServer")
		return
	}
	var a, b ssa.Value
	allInstrs(fn, false, func(_ *ssa.Function, ins ssa.Instruction) {
		c, ok := ins.(*ssa.Call)
		if !ok {
			return
		}
		if isCallNamed(c, "MakeVirtualHostBucketAddressingMiddleware") {
			a = c.Call.Args[0]
		}
		if isCallNamed(c, "MakeHostnameRoutingHandler") {
			b = c.Call.Args[0]
		}
	})
	r.Check(a != nil && b != nil && sameValue(unspill(a), unspill(b)), rule, "SetupServer: one apiEndpoint for both middlewares", fn.Pos(), "same value", "the two middlewares receive different endpoint values (one transformed, one raw): for a configured domain they differ on, a virtual-hosted request reaches the API without being rewritten and acts on the wrong bucket and key")
}

// checkCorsCacheInvalidatesAlways: an inner error does not mean nothing changed (a replicated
// storage applies the primary and then reports the secondary's error).
func checkCorsCacheInvalidatesAlways(w *World, r *Run) {
	rule := r.Rule("cors-cache-invalidated-whatever-the-inner-call-returned", "F1",
		"in the CORS cache middleware's Put/DeleteBucketCORSConfiguration no return is reachable from the inner call without passing the cache invalidation", 2)
	for _, m := range []string{"PutBucketCORSConfiguration", "DeleteBucketCORSConfiguration"} {
		var fn *ssa.Function
		for _, f := range w.allFuncs {
			if f.Name() == m && f.Pkg != nil && strings.HasSuffix(pkgRel(f.Pkg.Pkg), "middlewares/corscache") {
				fn = f
			}
		}
		if fn == nil {
			r.Anchor(rule, "corscache."+m)
			continue
		}
		var inner ssa.Instruction
		allInstrs(fn, false, func(_ *ssa.Function, ins ssa.Instruction) {
			if c, ok := ins.(ssa.CallInstruction); ok && c.Common().IsInvoke() && c.Common().Method.Name() == m {
				inner = ins
			}
		})
		if inner == nil {
			r.Bad(rule, "corscache."+m+": invalidation after the inner call", fn.Pos(), "inner call not found")
			continue
		}
		esc := sinksReachable(inner, func(i ssa.Instruction) bool {
			c, ok := i.(ssa.CallInstruction)
			if !ok || calleeObj(c) == nil {
				return false
			}
			n := strings.ToLower(calleeObj(c).Name())
			return strings.Contains(n, "invalidate") || n == "delete" || n == "remove" || isBuiltinCall(valueOfCall(i), "delete")
		}, nil, func(i ssa.Instruction) bool { _, ok := i.(*ssa.Return); return ok })
		pos := fn.Pos()
		if len(esc) > 0 {
			pos = posOf(esc[0])
		}
		r.Check(len(esc) == 0, rule, "corscache."+m+": invalidation after the inner call", pos, "on every path", "a return is reached without invalidating the cached rules (e.g. on the inner error): when the inner storage applied the change and still reported an error, stale rules keep granting CORS headers no rule of the bucket allows")
	}
}

func valueOfCall(i ssa.Instruction) ssa.Value {
	if c, ok := i.(*ssa.Call); ok {
		return c
	}
	return nil
}

// checkCapabilitiesOverAllStores: a composite store can do without a transaction only what
// every store it writes to or reads from can — parity shards included.
func checkCapabilitiesOverAllStores(w *World, r *Run, rule string) {
	fn := w.SSAFunc(relErasure, "erasureCodingPartStore.Capabilities")
	if fn == nil {
		r.Anchor(rule, "erasureCodingPartStore.Capabilities")
		return
	}
	good, n := true, 0
	allInstrs(fn, false, func(_ *ssa.Function, ins ssa.Instruction) {
		sl, ok := ins.(*ssa.Slice)
		if !ok {
			return
		}
		if nm, _ := fieldLoadName(sl.X); nm != "partStores" {
			return
		}
		n++
		if sl.High != nil {
			good = false
		}
		if sl.Low != nil {
			if k, isC := intConst(sl.Low); !isC || k > 1 {
				good = false
			}
		}
	})
	r.Check(good, rule, "erasure-coding Capabilities intersects every shard store", fn.Pos(), "partStores[0] and partStores[1:]", "the intersection stops before the last store (e.g. at dataShards): a parity store that needs a transaction is ignored, tx-free streaming is chosen, and the first read that touches that shard fails after the metadata transaction ended")
	_ = n
}

// checkMigratorEmptyMetadata: sibling of C11's parser rule for the migrator's adapter.
func checkMigratorEmptyMetadata(w *World, r *Run) {
	rule := r.Rule("no-metadata-means-every-input-absent", "F3",
		"the nil result of migrator.objectMetadataFromSDKInput is dominated by a nil/empty test of every one of its parameters", 1)
	fn := w.SSAFunc("internal/storage/migrator", "objectMetadataFromSDKInput")
	if fn == nil {
		r.Anchor(rule, "migrator.objectMetadataFromSDKInput")
		return
	}
	n := 0
	for _, ret := range returnsOf(fn) {
		if len(ret.Results) != 1 || !isNilConst(stripConv(ret.Results[0])) {
			continue
		}
		n++
		tested := map[int]bool{}
		for _, f := range factsAt(ret.Block()) {
			if i := paramIndex(fn, f.Val); i >= 0 && f.Kind == IsNil {
				tested[i] = true
			}
			if f.Kind == EqConst && f.Const != nil {
				if c, ok := f.Val.(*ssa.Call); ok && isBuiltinCall(c, "len") {
					if i := paramIndex(fn, c.Call.Args[0]); i >= 0 {
						tested[i] = true
					}
				}
			}
		}
		var missing []string
		for i, p := range fn.Params {
			if !tested[i] {
				missing = append(missing, p.Name())
			}
		}
		r.Check(len(missing) == 0, rule, "objectMetadataFromSDKInput: nil result", ret.Pos(), "all inputs tested absent", "the object is treated as carrying no metadata although "+strings.Join(missing, ", ")+" was not tested: an object whose only metadata is that value is migrated without it")
	}
	if n == 0 {
		r.OK(rule, "objectMetadataFromSDKInput: nil result", fn.Pos(), "never returns nil")
	}
}

// checkCopySourceCodec: the client writes x-amz-copy-source with url.PathEscape; the server
// must read it with url.PathUnescape ('+' stays a plus), not with the query codec.
func checkCopySourceCodec(w *World, r *Run) {
	rule := r.Rule("copy-source-header-written-and-read-with-the-same-codec", "F7",
		"s3client.copySourceValue escapes the key with url.PathEscape and server.parseCopySource unescapes it with url.PathUnescape", 2)
	wfn := w.SSAFunc(relS3Client, "copySourceValue")
	rfn := w.SSAFunc(relServer, "parseCopySource")
	if wfn == nil || rfn == nil {
		r.Anchor(rule, "s3client.copySourceValue / server.parseCopySource")
		return
	}
	uses := func(fn *ssa.Function) map[string]bool {
		m := map[string]bool{}
		allInstrs(fn, true, func(_ *ssa.Function, ins ssa.Instruction) {
			if c, ok := ins.(*ssa.Call); ok && calleeObj(c) != nil && calleeObj(c).Pkg() != nil && calleeObj(c).Pkg().Path() == "net/url" {
				m[calleeObj(c).Name()] = true
			}
		})
		return m
	}
	wu, ru := uses(wfn), uses(rfn)
	r.Check(wu["PathEscape"], rule, "copySourceValue escapes the key as a path", wfn.Pos(), "url.PathEscape", "the writer no longer uses the path codec")
	r.Check(ru["PathUnescape"] && !ru["QueryUnescape"], rule, "parseCopySource unescapes the key as a path", rfn.Pos(), "url.PathUnescape", "the server decodes the copy source with the query codec: a '+' in a source key (which PathEscape leaves literal) is read as a space, so copies through the S3 client backend fail with NoSuchKey or copy a different object")
}

// checkEmptyPartOnlyForExistingEntry: the tx-free read answers "empty part" only for an entry
// that still exists; if the entry vanished between the two queries the read starts over.
func checkEmptyPartOnlyForExistingEntry(w *World, r *Run, rule string) {
	for _, name := range []string{"outboxPartStore.getPartTxFree", "outboxPartStore.GetPart"} {
		fn := w.SSAFunc(relPartOutbox, name)
		if fn == nil {
			r.Anchor(rule, relPartOutbox+"."+name)
			continue
		}
		var lookup *ssa.Call
		allInstrs(fn, false, func(_ *ssa.Function, ins ssa.Instruction) {
			if c, ok := ins.(*ssa.Call); ok && c.Call.IsInvoke() && c.Call.Method.Name() == "FindPartOutboxEntryChunkByIndexWithEntryPresence" {
				lookup = c
			}
		})
		if lookup == nil {
			continue
		}
		var chunk, exists ssa.Value
		for _, ref := range *lookup.Referrers() {
			if e, ok := ref.(*ssa.Extract); ok {
				switch e.Index {
				case 0:
					chunk = e
				case 1:
					exists = e
				}
			}
		}
		good := true
		for _, b := range fn.Blocks {
			for _, f := range factsAt(b) {
				if f.Kind == IsNil && chunk != nil && sameValue(f.Val, chunk) && f.If != nil && f.If.Block() == b.Idom() {
					// the block entered on "firstChunk == nil": entryExists must be known true
					known := false
					for _, g := range factsAt(b) {
						if exists != nil && sameValue(g.Val, exists) && g.Kind == IsTrue {
							known = true
						}
					}
					if !known {
						good = false
					}
				}
			}
		}
		r.Check(good, rule, "(*outboxPartStore)."+strings.TrimPrefix(name, "outboxPartStore.")+": empty part only for an entry that still exists", fn.Pos(), "entryExists checked before firstChunk == nil", "a missing first chunk is taken for an empty part before the entry's existence was checked: when the worker flushed the entry between the two queries the part reads as empty with a clean EOF and the download silently lacks that part")
	}
}

// checkSettingsLayersKeepLists: the trusted proxy list reaches the authorizer through the
// settings layers (command line, then environment). A layer that leaves a list unset must not
// erase the list an earlier layer configured — an erased list means "trust every proxy".
func checkSettingsLayersKeepLists(w *World, r *Run) {
	rule := r.Rule("an-unset-layer-does-not-erase-a-configured-list", "F1",
		"in Settings.merge every setUnexportedField that is not guarded by !isNilish(value) is reached only for field kinds other than Pointer and Slice", 1)
	fn := w.SSAFunc("internal/settings", "Settings.merge")
	if fn == nil {
		r.Anchor(rule, "settings.Settings.merge")
		return
	}
	n, good := 0, true
	allInstrs(fn, false, func(_ *ssa.Function, ins ssa.Instruction) {
		c, ok := ins.(*ssa.Call)
		if !ok || !isCallNamed(c, "setUnexportedField") {
			return
		}
		n++
		guarded := false
		notPtr, notSlice := false, false
		for _, f := range factsAt(c.Block()) {
			if cc, ok := f.Val.(*ssa.Call); ok && isCallNamed(cc, "isNilish") && f.Kind == IsFalse {
				guarded = true
			}
			if f.Kind == NeConst && f.Const != nil {
				if k, isC := intConst(f.Const); isC {
					if k == 22 {
						notPtr = true
					}
					if k == 23 {
						notSlice = true
					}
				}
			}
		}
		if !guarded && !(notPtr && notSlice) {
			good = false
		}
	})
	r.Check(good && n > 0, rule, "Settings.merge overwrites pointer and slice settings only with set values", fn.Pos(), "nil-guarded for Pointer and Slice kinds", "a nil slice of a later settings layer overwrites the earlier layer's value: -trustedProxyCIDRs given on the command line is erased when PITHOS_TRUSTED_PROXY_CIDRS is unset, and with forwarded headers trusted an empty list means every peer may set the client IP and scheme")
}

// checkHeaderEOFIsTruncation: a stored encrypted part always starts with its header; when the
// stream ends before the header is complete that is a truncated part, and must not surface as
// io.EOF (which every reader takes for a regular end of data).
func checkHeaderEOFIsTruncation(w *World, r *Run) {
	rule := r.Rule("end-of-stream-inside-the-part-header-is-an-error", "F8",
		"in readPartHeaderAndDEK no error result of io.ReadFull is returned as it is on a path where it may equal io.EOF: each such return is dominated by err != io.EOF or returns another error", 2)
	fn := w.SSAFunc("internal/storage/metadatapart/partstore/middlewares/encryption/tink", "TinkEncryptionPartStoreMiddleware.readPartHeaderAndDEK")
	if fn == nil {
		r.Anchor(rule, "tink.TinkEncryptionPartStoreMiddleware.readPartHeaderAndDEK")
		return
	}
	ei := errorResultIndex(fn)
	n := 0
	allInstrs(fn, false, func(_ *ssa.Function, ins ssa.Instruction) {
		c, ok := ins.(*ssa.Call)
		if !ok || !isCallNamed(c, "ReadFull") {
			return
		}
		n++
		var errv ssa.Value
		for _, ref := range *c.Referrers() {
			if e, ok := ref.(*ssa.Extract); ok && e.Index == 1 {
				errv = e
			}
		}
		bad := token.NoPos
		for _, ret := range returnsOf(fn) {
			rv := retResult(ret, ei)
			if rv == nil || !canReach(c, ret) {
				continue
			}
			// the raw error (possibly through a phi with ErrUnexpectedEOF on the EOF edge)
			raw := false
			if sameValue(rv, errv) {
				raw = true
			}
			if phi, ok := rv.(*ssa.Phi); ok {
				for i, e := range phi.Edges {
					if !sameValue(e, errv) {
						continue
					}
					// this edge carries the raw error: it must have established err != io.EOF
					pred := phi.Block().Preds[i]
					ne := false
					for _, f := range append(factsAt(pred), lastEdgeFacts(pred, phi.Block())...) {
						if f.Kind == NeConst && f.Other != nil && (globalErrLoaded(f.Other, "EOF") || globalErrLoaded(f.Val, "EOF")) {
							ne = true
						}
					}
					if !ne {
						raw = true
					}
				}
			}
			if !raw {
				continue
			}
			ne := false
			for _, f := range factsAt(ret.Block()) {
				if f.Kind == NeConst && f.Other != nil && (globalErrLoaded(f.Other, "EOF") || globalErrLoaded(f.Val, "EOF")) {
					ne = true
				}
			}
			if !ne && sameValue(rv, errv) {
				bad = ret.Pos()
			}
			if _, isPhi := rv.(*ssa.Phi); isPhi && raw {
				bad = ret.Pos()
			}
		}
		pos := c.Pos()
		if bad != token.NoPos {
			pos = bad
		}
		r.Check(bad == token.NoPos, rule, "readPartHeaderAndDEK: header read #"+strconv.Itoa(n), pos, "io.EOF mapped to io.ErrUnexpectedEOF", "the io.EOF of a header read is returned unchanged: a stored part cut to nothing (or to its 4 length bytes) reads back as an empty plaintext without any error")
	})
	if n == 0 {
		r.Bad(rule, "readPartHeaderAndDEK: header reads", fn.Pos(), "no io.ReadFull found")
	}
}
