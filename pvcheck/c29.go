package main

import (
	"fmt"
	"go/ast"
	"go/constant"
	"go/token"
	"go/types"
	"strings"

	"golang.org/x/tools/go/ssa"
)

// C29 — SDK-signed requests are accepted (narrow: escaping tables agree with the SDK's).
func init() { register("C29", checkC29) }

type byteSet [256]bool

func (s byteSet) String() string {
	var parts []string
	for i := 0; i < 256; {
		if !s[i] {
			i++
			continue
		}
		j := i
		for j+1 < 256 && s[j+1] {
			j++
		}
		if i == j {
			parts = append(parts, fmt.Sprintf("%q", rune(i)))
		} else {
			parts = append(parts, fmt.Sprintf("%q-%q", rune(i), rune(j)))
		}
		i = j + 1
	}
	return strings.Join(parts, " ")
}

// byteValueSet computes, by value-set propagation over the CFG (no execution), the set of
// parameter values for which a func(b byte|int) bool returns true. ok=false when the
// function has a shape outside comparisons of the parameter with constants.
func byteValueSet(fn *ssa.Function) (res byteSet, ok bool) {
	if fn == nil || len(fn.Params) != 1 || len(fn.Blocks) == 0 {
		return res, false
	}
	param := fn.Params[0]
	type edge struct{ from, to *ssa.BasicBlock }
	edgeSet := map[edge]*byteSet{}
	in := map[*ssa.BasicBlock]*byteSet{}
	all := &byteSet{}
	for i := range all {
		all[i] = true
	}
	in[fn.Blocks[0]] = all
	decided := true
	var eval func(v ssa.Value, at *ssa.BasicBlock, dom *byteSet) *byteSet
	eval = func(v ssa.Value, at *ssa.BasicBlock, dom *byteSet) *byteSet {
		out := &byteSet{}
		switch x := v.(type) {
		case *ssa.Const:
			if b, isB := boolConst(x); isB && b {
				*out = *dom
			}
			return out
		case *ssa.UnOp:
			if x.Op == token.NOT {
				t := eval(x.X, at, dom)
				for i := range out {
					out[i] = dom[i] && !t[i]
				}
				return out
			}
		case *ssa.BinOp:
			a, b := stripConv(x.X), stripConv(x.Y)
			flip := false
			if _, isC := a.(*ssa.Const); isC {
				a, b = b, a
				flip = true
			}
			c, isC := b.(*ssa.Const)
			if a == param && isC && c.Value != nil && c.Value.Kind() == constant.Int {
				k, _ := constant.Int64Val(c.Value)
				op := x.Op
				if flip {
					switch op {
					case token.LSS:
						op = token.GTR
					case token.GTR:
						op = token.LSS
					case token.LEQ:
						op = token.GEQ
					case token.GEQ:
						op = token.LEQ
					}
				}
				for i := range out {
					if !dom[i] {
						continue
					}
					v := int64(i)
					switch op {
					case token.EQL:
						out[i] = v == k
					case token.NEQ:
						out[i] = v != k
					case token.LSS:
						out[i] = v < k
					case token.LEQ:
						out[i] = v <= k
					case token.GTR:
						out[i] = v > k
					case token.GEQ:
						out[i] = v >= k
					default:
						decided = false
					}
				}
				return out
			}
		case *ssa.Phi:
			for i, e := range x.Edges {
				es := edgeSet[edge{x.Block().Preds[i], x.Block()}]
				if es == nil {
					continue
				}
				t := eval(e, x.Block().Preds[i], es)
				for j := range out {
					out[j] = out[j] || (t[j] && dom[j])
				}
			}
			return out
		}
		decided = false
		return out
	}
	// iterate in reverse postorder (function is loop-free for such predicates; bail otherwise)
	// reverse postorder = topological order of the (loop-free) CFG
	var order []*ssa.BasicBlock
	{
		seenB := map[*ssa.BasicBlock]bool{}
		var post []*ssa.BasicBlock
		var dfs func(b *ssa.BasicBlock)
		dfs = func(b *ssa.BasicBlock) {
			if seenB[b] {
				return
			}
			seenB[b] = true
			for _, s := range b.Succs {
				dfs(s)
			}
			post = append(post, b)
		}
		dfs(fn.Blocks[0])
		for i := len(post) - 1; i >= 0; i-- {
			order = append(order, post[i])
		}
	}
	for _, b := range order {
		set := in[b]
		if set == nil {
			set = &byteSet{}
			for _, p := range b.Preds {
				if es := edgeSet[edge{p, b}]; es != nil {
					for i := range set {
						set[i] = set[i] || es[i]
					}
				}
			}
			in[b] = set
		}
		if len(b.Instrs) == 0 {
			continue
		}
		switch t := b.Instrs[len(b.Instrs)-1].(type) {
		case *ssa.If:
			ts := eval(t.Cond, b, set)
			fs := &byteSet{}
			for i := range fs {
				fs[i] = set[i] && !ts[i]
			}
			edgeSet[edge{b, b.Succs[0]}] = ts
			edgeSet[edge{b, b.Succs[1]}] = fs
		case *ssa.Jump:
			edgeSet[edge{b, b.Succs[0]}] = set
		case *ssa.Return:
			ts := eval(t.Results[0], b, set)
			for i := range res {
				res[i] = res[i] || ts[i]
			}
		default:
			decided = false
		}
	}
	// a back edge (loop) would leave a predecessor edge unknown at visit time: undecided
	pos := map[*ssa.BasicBlock]int{}
	for i, b := range order {
		pos[b] = i
	}
	for _, b := range order {
		for _, p := range b.Preds {
			if pp, reach := pos[p]; reach && pp >= pos[b] {
				decided = false
			}
		}
	}
	return res, decided
}

func checkC29(w *World, r *Run) {
	ruleTable := r.Rule("unreserved-set-equals-sdk-noescape", "F7",
		"the byte set for which isUnreservedChar returns true (value-set analysis of its comparisons) equals the set smithy-go's httpbinding leaves unescaped (its noEscape initialiser, folded over 0..255) — the SDK signer canonicalises paths with that table", 1)
	ruleURI := r.Rule("canonical-uri-single-encoding", "F1",
		"generateCanonicalURI starts from r.URL.EscapedPath(), keeps '/', upper-cases existing %XX escapes, keeps unreserved bytes and percent-encodes everything else — no second encoding pass", 4)
	ruleQuery := r.Rule("query-encoding-replacements", "F7",
		"uriEncode is url.QueryEscape followed only by replacements between equivalent encodings, including '+' → %20 as the SDK signer applies", 2)

	isUnres := w.SSAFunc(relAuthn, "isUnreservedChar")
	mine, ok := byteValueSet(isUnres)
	if !ok {
		r.Unk(ruleTable, "isUnreservedChar value set", token.NoPos, "the predicate is not a pure combination of comparisons of its parameter with constants (undecided)")
	} else {
		sdk, found := sdkNoEscape(w)
		if !found {
			r.Unk(ruleTable, "smithy-go httpbinding.noEscape", token.NoPos, "the SDK's noEscape initialiser could not be located/folded in the loaded dependency (undecided)")
		} else {
			diff := ""
			for i := 0; i < 256; i++ {
				if mine[i] != sdk[i] {
					diff += fmt.Sprintf("%q(pithos=%v sdk=%v) ", rune(i), mine[i], sdk[i])
				}
			}
			r.Check(diff == "", ruleTable, "isUnreservedChar ≡ httpbinding.noEscape", isUnres.Pos(), "both: "+mine.String(), "the sets differ: "+diff+"— a key containing such a byte is canonicalised differently from the SDK and its signature is rejected")
		}
	}

	// canonical URI shape
	uri := w.SSAFunc(relAuthn, "generateCanonicalURI")
	if uri == nil {
		r.Anchor(ruleURI, "authentication.generateCanonicalURI")
	} else {
		var esc *ssa.Call
		allInstrs(uri, false, func(_ *ssa.Function, ins ssa.Instruction) {
			if c, ok := ins.(*ssa.Call); ok {
				if f := calleeObj(c); f != nil && f.Name() == "EscapedPath" {
					esc = c
				}
			}
		})
		r.Check(esc != nil, ruleURI, "generateCanonicalURI reads r.URL.EscapedPath()", uri.Pos(), "ok", "the canonical URI is not built from the escaped request path")
		// no call that re-encodes a whole string
		re := ""
		allInstrs(uri, false, func(_ *ssa.Function, ins ssa.Instruction) {
			if c, ok := ins.(*ssa.Call); ok {
				if f := calleeObj(c); f != nil && f.Pkg() != nil && f.Pkg().Path() == "net/url" && f.Name() != "EscapedPath" {
					re = f.Name()
				}
			}
		})
		r.Check(re == "", ruleURI, "generateCanonicalURI applies no second encoding pass", uri.Pos(), "byte-wise classification only", "net/url."+re+" is applied on top of the escaped path (double encoding)")
		// the unreserved test guards the raw WriteByte(ch); the fallback formats %%%02X
		unresGuard, pct := false, false
		allInstrs(uri, false, func(_ *ssa.Function, ins ssa.Instruction) {
			c, ok := ins.(*ssa.Call)
			if !ok {
				return
			}
			f := calleeObj(c)
			if f == nil {
				return
			}
			if f.Name() == "WriteByte" {
				for _, fa := range factsAt(c.Block()) {
					if cc, _ := callOf(fa.Val); cc != nil && fa.Kind == IsTrue && calleeObj(cc) != nil && calleeObj(cc).Name() == "isUnreservedChar" {
						unresGuard = true
					}
				}
			}
			if f.Name() == "Fprintf" && len(c.Call.Args) > 1 {
				if s, isStr := constString(c.Call.Args[1]); isStr && s == "%%%02X" {
					pct = true
				}
			}
		})
		r.Check(unresGuard, ruleURI, "generateCanonicalURI keeps a raw byte only under isUnreservedChar", uri.Pos(), "ok", "raw bytes are copied without the unreserved test")
		r.Check(pct, ruleURI, "generateCanonicalURI percent-encodes other bytes as %XX upper-case", uri.Pos(), "%%%02X", "the fallback encoding is not upper-case %XX")
	}

	// query encoding
	ue := w.SSAFunc(relAuthn, "uriEncode")
	if ue == nil {
		r.Anchor(ruleQuery, "authentication.uriEncode")
	} else {
		qe := false
		repl := map[string]string{}
		allInstrs(ue, false, func(_ *ssa.Function, ins ssa.Instruction) {
			c, ok := ins.(*ssa.Call)
			if !ok {
				return
			}
			f := calleeObj(c)
			if f == nil {
				return
			}
			if f.Name() == "QueryEscape" {
				qe = true
			}
			if f.Name() == "ReplaceAll" && len(c.Call.Args) == 3 {
				a, _ := constString(c.Call.Args[1])
				b, _ := constString(c.Call.Args[2])
				repl[a] = b
			}
		})
		r.Check(qe && repl["+"] == "%20", ruleQuery, "uriEncode = QueryEscape with '+' → %20", ue.Pos(), "as the SDK signer", "spaces are not canonicalised as %20 (the SDK replaces '+' by %20 after url.Values.Encode)")
		bad := ""
		for a, b := range repl {
			if a == "+" {
				continue
			}
			// a and b must denote the same byte: one is %XX of the other
			same := (len(a) == 3 && a[0] == '%' && len(b) == 1 && strings.EqualFold(a, fmt.Sprintf("%%%02X", b[0]))) ||
				(len(b) == 3 && b[0] == '%' && len(a) == 1 && strings.EqualFold(b, fmt.Sprintf("%%%02X", a[0])))
			if !same {
				bad += a + "→" + b + " "
				continue
			}
			// direction must follow the unreserved set: unreserved bytes raw, others escaped
			if ok {
				raw := a
				if len(a) == 3 {
					raw = b
				}
				wantRaw := mine[raw[0]]
				isRawTarget := len(b) == 1
				if wantRaw != isRawTarget {
					bad += a + "→" + b + "(direction contradicts the unreserved set) "
				}
			}
		}
		r.Check(bad == "", ruleQuery, "uriEncode's other replacements map between equivalent encodings", ue.Pos(), fmt.Sprint(repl), "replacement(s) "+bad+"change the value")
	}
	checkC29EscapeBound(w, r)
	// the server may insist on a signature only for headers the SDK signers do sign: x-amz-*
	// and content-md5. A wider pattern (a shorter prefix such as "x-amz", which also matches
	// X-Amzn-Trace-Id added by load balancers and tracing) rejects valid SDK requests.
	ruleMust := r.Rule("must-be-signed-set-is-not-wider-than-the-sdk-signs", "F7",
		"mustBeSignedHeader matches only the exact name content-md5 and the prefix x-amz- (with the dash)", 2)
	if must := w.SSAFunc(relAuthn, "mustBeSignedHeader"); must == nil {
		r.Anchor(ruleMust, relAuthn+".mustBeSignedHeader")
	} else {
		n := 0
		allInstrs(must, false, func(_ *ssa.Function, ins ssa.Instruction) {
			switch x := ins.(type) {
			case *ssa.BinOp:
				if x.Op == token.EQL {
					if sv, ok := constString(x.Y); ok {
						n++
						r.Check(sv == "content-md5", ruleMust, "mustBeSignedHeader: exact name \""+sv+"\"", x.Pos(), "content-md5", "SDK signers do not sign this header: valid requests carrying it unsigned are rejected")
					}
				}
			case *ssa.Call:
				if g := calleeObj(x); g != nil && (g.Name() == "HasPrefix" || g.Name() == "Contains" || g.Name() == "HasSuffix") && g.Pkg() != nil && g.Pkg().Path() == "strings" {
					sv, ok := constString(x.Call.Args[1])
					n++
					r.Check(ok && g.Name() == "HasPrefix" && sv == "x-amz-", ruleMust, "mustBeSignedHeader: pattern "+g.Name()+" \""+sv+"\"", x.Pos(), "prefix x-amz-", "the pattern is wider than the x-amz- prefix SDK signers sign: headers such as X-Amzn-Trace-Id, which SDK requests carry unsigned, make a valid request fail authentication")
				}
			}
		})
		if n == 0 {
			r.Bad(ruleMust, "mustBeSignedHeader: patterns", must.Pos(), "no string tests found")
		}
	}
	ruleCanon29 := r.Rule("canonical-header-value-covers-every-field-line", "F9", "collectSignedHeaders joins all values of a signed header with a comma, as the SDK signers do; no header value is taken with Header.Get (first line only)", 1)
	checkCanonicalHeaderValues(w, r, ruleCanon29)
	r.NotCovered("everything else: acceptance of all SDK-generated requests is a runtime comparison against the SDK signer; header canonicalisation (whitespace folding), presign query parameters, time handling")
	_ = types.Universe
}

// sdkNoEscape folds the initialiser `noEscape[i] = <expr over i>` of smithy-go's httpbinding
// package for i in 0..255.
func sdkNoEscape(w *World) (byteSet, bool) {
	var res byteSet
	p := w.ByPath["github.com/aws/smithy-go/encoding/httpbinding"]
	if p == nil {
		return res, false
	}
	var expr ast.Expr
	var loopVar string
	for _, f := range p.Syntax {
		ast.Inspect(f, func(n ast.Node) bool {
			as, ok := n.(*ast.AssignStmt)
			if !ok || len(as.Lhs) != 1 || len(as.Rhs) != 1 {
				return true
			}
			ix, ok := as.Lhs[0].(*ast.IndexExpr)
			if !ok {
				return true
			}
			if id, ok := ix.X.(*ast.Ident); ok && id.Name == "noEscape" {
				if iv, ok := ix.Index.(*ast.Ident); ok {
					expr = as.Rhs[0]
					loopVar = iv.Name
				}
			}
			return true
		})
	}
	if expr == nil {
		return res, false
	}
	ok := true
	var evalInt func(e ast.Expr, i int64) (int64, bool)
	evalInt = func(e ast.Expr, i int64) (int64, bool) {
		switch x := ast.Unparen(e).(type) {
		case *ast.Ident:
			if x.Name == loopVar {
				return i, true
			}
		case *ast.BasicLit:
			if tv, found := p.TypesInfo.Types[x]; found && tv.Value != nil {
				if k, exact := constant.Int64Val(constant.ToInt(tv.Value)); exact {
					return k, true
				}
			}
		}
		if tv, found := p.TypesInfo.Types[e]; found && tv.Value != nil {
			if k, exact := constant.Int64Val(constant.ToInt(tv.Value)); exact {
				return k, true
			}
		}
		return 0, false
	}
	var evalBool func(e ast.Expr, i int64) bool
	evalBool = func(e ast.Expr, i int64) bool {
		switch x := ast.Unparen(e).(type) {
		case *ast.BinaryExpr:
			switch x.Op {
			case token.LOR:
				return evalBool(x.X, i) || evalBool(x.Y, i)
			case token.LAND:
				return evalBool(x.X, i) && evalBool(x.Y, i)
			}
			a, oa := evalInt(x.X, i)
			b, ob := evalInt(x.Y, i)
			if !oa || !ob {
				ok = false
				return false
			}
			switch x.Op {
			case token.EQL:
				return a == b
			case token.NEQ:
				return a != b
			case token.LSS:
				return a < b
			case token.LEQ:
				return a <= b
			case token.GTR:
				return a > b
			case token.GEQ:
				return a >= b
			}
		case *ast.UnaryExpr:
			if x.Op == token.NOT {
				return !evalBool(x.X, i)
			}
		}
		ok = false
		return false
	}
	for i := 0; i < 256; i++ {
		res[i] = evalBool(expr, int64(i))
	}
	return res, ok
}
