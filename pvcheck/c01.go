package main

import (
	"fmt"
	"go/types"
	"sort"
	"strings"

	"golang.org/x/tools/go/ssa"
)

// C01 — acknowledged object writes are read back exactly.
func init() { register("C01", checkC01) }

const relMP = "internal/storage/metadatapart"

// guardedHereOrInCallers: the facts at site satisfy pred, or site sits in an unexported
// helper all of whose static call sites do (depth-bounded).
func guardedHereOrInCallers(w *World, site ssa.Instruction, pred func([]Fact) bool, depth int) bool {
	if pred(factsAt(site.Block())) {
		return true
	}
	fn := site.Parent()
	if depth > 3 || len(w.escapes[fn]) > 0 {
		return false
	}
	if fn.Parent() != nil { // function literal: guard must hold where it is created
		for _, c := range w.callers[fn] {
			if !guardedHereOrInCallers(w, c, pred, depth+1) {
				return false
			}
		}
		return len(w.callers[fn]) > 0
	}
	if obj, ok := fn.Object().(*types.Func); ok && obj.Exported() {
		return false
	}
	cs := w.callers[fn]
	if len(cs) == 0 {
		return false
	}
	for _, c := range cs {
		if !guardedHereOrInCallers(w, c, pred, depth+1) {
			return false
		}
	}
	return true
}

// mpTxInfo describes the transaction frame of one metadataPartStorage method.
type mpTxInfo struct {
	fn       *ssa.Function
	frames   []ssa.CallInstruction  // WithTx / WithTxReadClosers calls
	closures map[*ssa.Function]bool // function literals (transitively) run inside a frame
	readOnly []bool
}

func mpTxFrames(w *World, fn *ssa.Function) *mpTxInfo {
	info := &mpTxInfo{fn: fn, closures: map[*ssa.Function]bool{}}
	allInstrs(fn, false, func(_ *ssa.Function, ins ssa.Instruction) {
		c, ok := ins.(ssa.CallInstruction)
		if !ok {
			return
		}
		f := calleeObj(c)
		if f == nil || !(isFunc(f, relDB, "WithTx") || isFunc(f, relDB, "WithTxReadClosers")) {
			return
		}
		info.frames = append(info.frames, c)
		ro := false
		backSlice(c.Common().Args[2], false, func(v ssa.Value) {
			if a, ok := v.(*ssa.Alloc); ok {
				for _, ref := range *a.Referrers() {
					if fa, ok := ref.(*ssa.FieldAddr); ok && fieldName(fa.X.Type(), fa.Field) == "ReadOnly" {
						for _, st := range storesTo(fa) {
							if b, isB := boolConst(st); isB {
								ro = b
							}
						}
					}
				}
			}
		})
		info.readOnly = append(info.readOnly, ro)
		var mark func(v ssa.Value)
		mark = func(v ssa.Value) {
			var lit *ssa.Function
			switch x := v.(type) {
			case *ssa.MakeClosure:
				lit, _ = x.Fn.(*ssa.Function)
			case *ssa.Function:
				lit = x
			case *ssa.UnOp: // closure stored in a local first (getObjectInTx)
				for _, st := range storesTo(x.X) {
					mark(st)
				}
				return
			}
			if lit == nil || info.closures[lit] {
				return
			}
			info.closures[lit] = true
			var sub func(f *ssa.Function)
			sub = func(f *ssa.Function) {
				for _, a := range f.AnonFuncs {
					info.closures[a] = true
					sub(a)
				}
			}
			sub(lit)
		}
		mark(c.Common().Args[3])
	})
	return info
}

func isPartStoreMethod(name string) bool {
	switch name {
	case "PutPart", "GetPart", "DeletePart", "GetPartIds":
		return true
	}
	return false
}

func checkC01(w *World, r *Run) {
	iface := checkStorageTable(w, r)
	stmts := collectSQL(w)
	checkSQLSiblings(w, r, stmts, map[string]bool{"object": true, "bucket": true, "part": true}, 35)
	T := w.Named(relMP, "metadataPartStorage")
	ruleTx := r.Rule("one-transaction-per-operation", "F1",
		"every data method of *metadataPartStorage performs all its metadataStore.* and PartStore Put/Get/Delete calls inside the function literal of exactly one database.WithTx / WithTxReadClosers on each path; the transaction is writable exactly for mutating methods", 37)
	ruleBucket := r.Rule("bucket-existence-guards-repository-access", "F1",
		"in every exported *sqlMetadataStore method with a bucket parameter, each object/part/tag/user-metadata repository call is dominated by ExistsBucketByName == true or FindBucketByName != nil (directly, or at every call site of the unexported helper it sits in), the failing edge returning ErrNoSuchBucket", 60)
	ruleDelBucket := r.Rule("delete-bucket-only-when-empty", "F1",
		"DeleteBucketByName is dominated by ContainsBucketObjectsByBucketName == false (ErrBucketNotEmpty otherwise), and that statement counts every row of the bucket: current objects, old versions, delete markers and pending uploads", 3)
	ruleRows := r.Rule("row-selection-roles", "F4",
		"current-object lookups select upload_status = $n AND is_latest = ⊤; listings and their counts additionally is_delete_marker = ⊥; pending-upload lookups select by upload id and status; by-version lookups never filter on is_latest", 16)
	ruleDedup := r.Rule("dedup-deletes-fresh-part-only-when-shared", "F1",
		"dedupeFreshPart deletes the freshly written part only on the branch where tryShareDedupPart returned a shared id, and tryShareDedupPart returns an id only after TryAddPartReferences reported true for exactly that id", 2)
	ruleEmpty := r.Rule("whole-object-read-never-invalid-range", "F9",
		"createRangeReader can answer ErrInvalidRange only on paths that established an explicit range bound or a non-empty object: reading the whole of an empty object must yield an empty stream", 1)
	ruleReadBack := r.Rule("read-path-converts-every-field", "F3",
		"convertObject copies every field of metadatastore.Object that storage.Object has", 10)
	if iface == nil || T == nil {
		r.Anchor(ruleTx, relMP+".metadataPartStorage")
		return
	}
	mat := overrideMatrix(T, iface)
	var names []string
	for m := range storageMethods {
		names = append(names, m)
	}
	sort.Strings(names)
	for _, m := range names {
		cls := storageMethods[m]
		if cls == mLifecycle {
			continue
		}
		o := mat[m]
		cons := "(*metadataPartStorage)." + m
		if !o.Own {
			r.Bad(ruleTx, cons, T.Obj().Pos(), "not implemented by the type itself")
			continue
		}
		fn := w.Prog.FuncValue(o.Func)
		info := mpTxFrames(w, fn)
		why := ""
		switch len(info.frames) {
		case 0:
			why = "no database.WithTx / WithTxReadClosers: the operation is not atomic"
		case 1:
		default:
			// more than one frame is acceptable only when no frame can follow another
			for i, a := range info.frames {
				for j, b := range info.frames {
					if i != j && canReach(a, b) {
						why = "two transactions on one path: the operation is split"
					}
				}
			}
		}
		for i, ro := range info.readOnly {
			if ro == cls.mutating() {
				why += fmt.Sprintf("transaction #%d has ReadOnly=%v for a %s method; ", i+1, ro, cls)
			}
		}
		// calls outside the closures
		allInstrs(fn, true, func(in *ssa.Function, ins ssa.Instruction) {
			c, ok := ins.(ssa.CallInstruction)
			if !ok || !c.Common().IsInvoke() {
				return
			}
			name := c.Common().Method.Name()
			isMeta := false
			if n, _ := fieldLoadName(c.Common().Value); n == "metadataStore" {
				isMeta = true
			}
			isPart := isPartStoreMethod(name) && isNamedType(c.Common().Value.Type(), "PartStore")
			if !isMeta && !isPart {
				return
			}
			if !info.closures[in] {
				why += name + " at " + w.Pos(posOf(c)) + " runs outside the operation's transaction; "
			}
		})
		r.Check(why == "", ruleTx, cons, o.Func.Pos(), fmt.Sprintf("%d frame(s), readOnly=%v", len(info.frames), info.readOnly), why)
	}

	checkC01BucketGuards(w, r, ruleBucket, ruleDelBucket, stmts)
	checkC01Rows(w, r, ruleRows, stmts)
	checkC01Dedup(w, r, ruleDedup)

	// empty object
	if crr := w.SSAFunc(relMP, "metadataPartStorage.createRangeReader"); crr != nil {
		bad := ""
		n := 0
		for _, ret := range returnsOf(crr) {
			v := retResult(ret, 1)
			ld, ok := stripConv(v).(*ssa.UnOp)
			if !ok {
				continue
			}
			if g, ok := ld.X.(*ssa.Global); !ok || g.Name() != "ErrInvalidRange" {
				continue
			}
			n++
			okPath := everyPathEstablishes(ret.Block(), func(f Fact) bool {
				if f.Kind == NonNil {
					if n, _ := fieldLoadName(f.Val); n == "Start" || n == "End" {
						return true
					}
					// local copies startByte/endByte
					if fl, ok := f.Val.(*ssa.Field); ok {
						if nm := fieldName(fl.X.Type(), fl.Field); nm == "Start" || nm == "End" {
							return true
						}
					}
				}
				if f.Kind == NeConst && f.Const != nil {
					if k, isc := intConst(f.Const); isc && k == 0 {
						if nm, _ := fieldLoadName(f.Val); nm == "Size" {
							return true
						}
					}
				}
				return false
			})
			if !okPath {
				bad = w.Pos(posOf(ret))
			}
		}
		r.Check(bad == "" && n > 0, ruleEmpty, "(*metadataPartStorage).createRangeReader → ErrInvalidRange", crr.Pos(), "only with an explicit bound or a non-empty object", "the whole-object path (no range bounds) of an empty object reaches the ErrInvalidRange return at "+bad+": GET of a zero-byte object fails")
	} else {
		r.Anchor(ruleEmpty, "metadataPartStorage.createRangeReader")
	}

	// convertObject coverage
	if fd := w.Decl(w.Func(relMP, "convertObject")); fd != nil {
		info := w.InfoFor(fd)
		read := map[string]bool{}
		for f := range fieldsSelectedIn(info, fd.Body) {
			read[f.Name()] = true
		}
		so := w.Named("internal/storage", "Object")
		for _, f := range structFieldsOf(so) {
			r.Check(read[f.Name()], ruleReadBack, "convertObject copies Object."+f.Name(), fd.Pos(), "copied", "storage.Object."+f.Name()+" is never filled from the metadata store's object: reads return the zero value")
		}
	} else {
		r.Anchor(ruleReadBack, "metadatapart.convertObject")
	}
	// the object cache sits between the API and the storage: a mutation it does not see (or
	// does not invalidate) makes a later read return something other than the last write
	if c := c20Context(w, r); c != nil {
		checkCacheMutators(w, r, c)
	}
	checkOversizePartNotCached(w, r)
	checkVersionOrderRanksNull(w, r)
	checkRangeOverlapTests(w, r)
	checkTxFinalization(w, r)
	r.NotCovered("content equality of what is read back, sizes/ETags as values, the comparison with a reference S3 model over histories; part-store compositions (C15–C19)")
	_ = strings.ToLower
}

var bucketGuardWrapper = map[*ssa.Function]int{} // 0 unknown, 1 yes, 2 no

// establishesBucketGuard: every return of fn that may report success is dominated by the
// bucket-existence guard (a guard wrapper such as findObjectForTagging).
func establishesBucketGuard(fn *ssa.Function) bool {
	if fn == nil || len(fn.Blocks) == 0 {
		return false
	}
	if v := bucketGuardWrapper[fn]; v != 0 {
		return v == 1
	}
	bucketGuardWrapper[fn] = 2
	ok := true
	n := 0
	for _, ret := range returnsOf(fn) {
		if ret.Block() == fn.Recover || isFailureReturn(ret) {
			continue
		}
		n++
		if !bucketGuardPred(factsAt(ret.Block())) {
			ok = false
		}
	}
	if ok && n > 0 {
		bucketGuardWrapper[fn] = 1
		return true
	}
	return false
}

func bucketGuardPred(fs []Fact) bool {
	for _, f := range fs {
		if f.Kind == IsNil && isErrorType(f.Val.Type()) {
			if c, _ := callOf(f.Val); c != nil {
				if sc := c.Call.StaticCallee(); sc != nil && sc.Pkg != nil && pkgRel(sc.Pkg.Pkg) == relSQLStore && establishesBucketGuard(sc) {
					return true
				}
			}
		}
		switch f.Kind {
		case IsTrue:
			if ld, ok := f.Val.(*ssa.UnOp); ok {
				if c, _ := callOf(ld.X); c != nil && c.Call.IsInvoke() && c.Call.Method.Name() == "ExistsBucketByName" {
					return true
				}
			}
		case NonNil:
			if c, _ := callOf(f.Val); c != nil && c.Call.IsInvoke() && c.Call.Method.Name() == "FindBucketByName" {
				return true
			}
		}
	}
	return false
}

func checkC01BucketGuards(w *World, r *Run, rule, ruleDel string, stmts []*sqlStmt) {
	sp := w.SSA[w.Pkg(relSQLStore).Types]
	repos := map[string]bool{"objectRepository": true, "partRepository": true, "tagRepository": true, "userMetadataRepository": true, "partRegistryRepository": true, "partDedupIndexRepository": true}
	// maintenance methods without a bucket (dedup index / registry) are not bucket-scoped
	for _, fn := range w.allFuncs {
		if fn.Pkg != sp {
			continue
		}
		top := topFunc(fn)
		allInstrs(fn, false, func(_ *ssa.Function, ins ssa.Instruction) {
			c, ok := ins.(ssa.CallInstruction)
			if !ok || !c.Common().IsInvoke() {
				return
			}
			n, _ := fieldLoadName(c.Common().Value)
			if !repos[n] {
				return
			}
			// is the enclosing exported method bucket-scoped?
			scoped := false
			var walk func(f *ssa.Function, depth int)
			seen := map[*ssa.Function]bool{}
			walk = func(f *ssa.Function, depth int) {
				if seen[f] || depth > 4 {
					return
				}
				seen[f] = true
				for _, p := range f.Params {
					if isNamedType(p.Type(), "BucketName") {
						scoped = true
					}
				}
				if obj, ok := f.Object().(*types.Func); ok && obj.Exported() {
					return
				}
				for _, cs := range w.callers[f] {
					walk(topFunc(cs.Parent()), depth+1)
				}
			}
			walk(top, 0)
			if !scoped {
				return
			}
			cons := shortSQLFunc(fn) + " → " + n + "." + c.Common().Method.Name()
			if guardedHereOrInCallers(w, ins, bucketGuardPred, 0) {
				r.OK(rule, cons, posOf(c), "after the bucket-existence guard")
			} else {
				r.Bad(rule, cons, posOf(c), "repository access for a bucket whose existence was not established: rows of a deleted/never-created bucket can be read or written (NoSuchBucket is not reported)")
			}
		})
	}
	// DeleteBucket
	del := w.SSAFunc(relSQLStore, "sqlMetadataStore.DeleteBucket")
	if del == nil {
		r.Anchor(ruleDel, "sqlMetadataStore.DeleteBucket")
		return
	}
	ok := false
	allInstrs(del, false, func(_ *ssa.Function, ins ssa.Instruction) {
		c, isCall := ins.(ssa.CallInstruction)
		if !isCall || !c.Common().IsInvoke() || c.Common().Method.Name() != "DeleteBucketByName" {
			return
		}
		for _, f := range factsAt(c.Block()) {
			if f.Kind == IsFalse {
				if ld, isLoad := f.Val.(*ssa.UnOp); isLoad {
					if cc, _ := callOf(ld.X); cc != nil && cc.Call.IsInvoke() && cc.Call.Method.Name() == "ContainsBucketObjectsByBucketName" {
						ok = true
					}
				}
			}
		}
	})
	r.Check(ok, ruleDel, "(*sqlMetadataStore).DeleteBucket → DeleteBucketByName", del.Pos(), "after ContainsBucketObjectsByBucketName == false", "the bucket row is deleted without the emptiness check")
	for _, s := range stmts {
		if s.Entity == "object" && s.Name == "containsBucketObjectsByBucketNameStmt" {
			where := joinToks(sqlClause(normalizeDialect(s.Toks), "WHERE"))
			r.Check(where == "bucket_name = $1", ruleDel, s.Dialect+" object."+s.Name, s.Pos, "WHERE bucket_name = $1 only", "the emptiness check filters rows ("+where+"): versions, delete markers or pending uploads can be left behind in a deleted bucket")
		}
	}
}

func checkC01Rows(w *World, r *Run, rule string, stmts []*sqlStmt) {
	for _, s := range stmts {
		if s.Entity != "object" || stmtVerb(s) != "SELECT" {
			continue
		}
		where := sqlClause(normalizeDialect(s.Toks), "WHERE")
		j := joinToks(where)
		has := func(c string) bool { return hasConjunct(where, c) }
		hasStatus := strings.Contains(j, "upload_status = $")
		cons := s.Dialect + " object." + s.Name
		switch {
		case s.Name == "findObjectByBucketNameAndKeyStmt":
			r.Check(hasStatus && has("is_latest = 1") && !strings.Contains(j, "is_delete_marker"), rule, cons, s.Pos, j, "current-object lookup must select upload_status = $n AND is_latest = 1 and must see delete markers: "+j)
		case strings.HasPrefix(s.Name, "findObjectsByBucketNameAndPrefixAndStartAfter") || s.Name == "countObjectsByBucketNameAndPrefixAndStartAfterStmt":
			r.Check(hasStatus && has("is_latest = 1") && has("is_delete_marker = 0"), rule, cons, s.Pos, "status ∧ latest ∧ ¬delete-marker", "object listing must select completed, latest, non-delete-marker rows: "+j)
		case strings.Contains(s.Name, "UploadIdMarker"):
			r.Check(hasStatus && !strings.Contains(j, "is_latest"), rule, cons, s.Pos, "status only", "upload listing must select by upload_status only: "+j)
		case s.Name == "findObjectByBucketNameAndKeyAndUploadIdStmt":
			r.Check(hasStatus && strings.Contains(j, "upload_id = $"), rule, cons, s.Pos, j, "pending-upload lookup must select by upload id and status: "+j)
		case strings.HasPrefix(s.Name, "findObjectVersionsBy") || s.Name == "findObjectByBucketNameAndKeyAndVersionIDStmt" || s.Name == "findNullObjectVersionByBucketNameAndKeyStmt" || s.Name == "findLatestObjectByBucketNameAndKeyExcludingIDStmt":
			r.Check(hasStatus && !strings.Contains(j, "is_latest"), rule, cons, s.Pos, "status, all versions", "version lookups/listings must see every completed version (no is_latest filter): "+j)
		}
	}
}

func checkC01Dedup(w *World, r *Run, rule string) {
	dd := w.SSAFunc(relMP, "metadataPartStorage.dedupeFreshPart")
	ts := w.SSAFunc(relMP, "metadataPartStorage.tryShareDedupPart")
	if dd == nil || ts == nil {
		r.Anchor(rule, "metadataPartStorage.dedupeFreshPart / tryShareDedupPart")
		return
	}
	ok := false
	n := 0
	allInstrs(dd, false, func(_ *ssa.Function, ins ssa.Instruction) {
		c, isCall := ins.(ssa.CallInstruction)
		if !isCall || !c.Common().IsInvoke() || c.Common().Method.Name() != "DeletePart" {
			return
		}
		n++
		fresh := false
		for _, a := range c.Common().Args {
			if p, isParam := unspill(stripConv(a)).(*ssa.Parameter); isParam && p.Name() == "freshID" {
				fresh = true
			}
		}
		for _, f := range factsAt(c.Block()) {
			if f.Kind == NonNil {
				if cc, _ := callOf(f.Val); cc != nil && cc.Call.StaticCallee() == ts && fresh {
					ok = true
				}
			}
		}
	})
	r.Check(ok && n == 1, rule, "(*metadataPartStorage).dedupeFreshPart → store.DeletePart(freshID)", dd.Pos(), "only when tryShareDedupPart returned a shared id", "the freshly written part is deleted without a shared replacement having been secured")
	// tryShareDedupPart: non-nil return only under added == true, id = existing.PartId
	good := true
	cnt := 0
	for _, ret := range returnsOf(ts) {
		v := retResult(ret, 0)
		if isNilConst(v) {
			continue
		}
		cnt++
		added := false
		for _, f := range factsAt(ret.Block()) {
			if f.Kind == IsTrue {
				if cc, idx := callOf(f.Val); cc != nil && cc.Call.IsInvoke() && cc.Call.Method.Name() == "TryAddPartReferences" && idx == 0 {
					added = true
				}
			}
		}
		if !added {
			good = false
		}
	}
	r.Check(good && cnt == 1, rule, "(*metadataPartStorage).tryShareDedupPart returns an id only after TryAddPartReferences == true", ts.Pos(), "reference acquired", "a shared part id is handed out without a registry reference: a concurrent delete can condemn it")
}
