package main

import (
	"fmt"
	"go/ast"
	"go/token"
	"go/types"
	"strings"

	"golang.org/x/tools/go/ssa"
)

// C16 — encrypted parts are confidential-at-rest, tamper-evident and seekable.
func init() { register("C16", checkC16) }

const relTink = "internal/storage/metadatapart/partstore/middlewares/encryption/tink"

// binding sites: callee name → index of the associated-data / salt argument (counted
// from the end, so it is independent of invoke/static receivers)
var c16BindArg = map[string]int{
	"Encrypt":                     1, // masterAEAD.Encrypt(plaintext, associatedData)
	"Decrypt":                     1, // masterAEAD.Decrypt(ciphertext, associatedData)
	"NewEncryptingWriter":         1, // (w, aad)
	"NewDecryptingReader":         1, // (r, aad)
	"newSeekableDecryptingReader": 2, // (r, base, mainKey, aad, segmentSize)
	"deriveHybridKey":             1, // (classical, pq, salt)
}

func checkC16(w *World, r *Run) {
	ruleBind := r.Rule("part-id-binds-keys-and-streams", "F9",
		"every data-key wrap/unwrap, hybrid key derivation and stream encryption/decryption (sequential and seekable) in the tink middleware passes Bytes() of the enclosing operation's own partId as associated data / salt: ciphertext presented under another part id fails to decrypt", 7)
	ruleErr := r.Rule("decryption-failures-are-returned", "F8",
		"the errors of masterAEAD.Decrypt, Decapsulate, deriveHybridKey, NewAESGCMHKDF, NewDecryptingReader, newSeekableDecryptingReader, cipher.AEAD.Open, HKDF and header reads are returned to the caller on their non-nil edge", 10)
	ruleSeg := r.Rule("segment-nonce-and-last-segment-flag", "F1",
		"the seekable reader derives the segment key from mainKey, the header salt and the caller's aad; builds each nonce from the stored prefix and the segment index; sets the last-segment flag exactly for index numSegments-1 where numSegments follows from the ciphertext length measured with Seek(End); and decrypts with Open before any plaintext is served", 5)
	ruleSeek := r.Rule("seek-arithmetic-siblings-agree", "F7",
		"segmentForPlaintextOffset and plaintextStartOfSegment compute the per-segment plaintext sizes from the same expressions; Read loads the segment of the current position before copying from it", 3)

	// ---- 1. binding
	n := 0
	for _, fn := range w.allFuncs {
		if fn.Pkg == nil || pkgRel(fn.Pkg.Pkg) != relTink {
			continue
		}
		top := topFunc(fn)
		if top.Name() == "testKeyAvailability" {
			continue // start-up self test of the KMS key with a fixed plaintext, no part involved
		}
		for _, b := range fn.Blocks {
			for _, ins := range b.Instrs {
				c, ok := ins.(*ssa.Call)
				if !ok {
					continue
				}
				name := ""
				if c.Call.IsInvoke() {
					name = c.Call.Method.Name()
				} else if f := calleeObj(c); f != nil {
					name = f.Name()
				}
				back, ok := c16BindArg[name]
				if !ok {
					continue
				}
				if name == "Encrypt" || name == "Decrypt" {
					// only the master AEAD (tink.AEAD), not unrelated Encrypt methods
					if !c.Call.IsInvoke() || !strings.HasSuffix(c.Call.Value.Type().String(), "tink.AEAD") {
						continue
					}
				}
				args := c.Call.Args
				if len(args) < back+1 {
					continue
				}
				ad := args[len(args)-back]
				if name == "newSeekableDecryptingReader" {
					ad = args[len(args)-2]
				}
				n++
				cons := fmt.Sprintf("%s → %s #%d", funcName(top), name, n)
				bound := false
				var pid *ssa.Parameter
				for _, p := range top.Params {
					if nt, ok := types.Unalias(p.Type()).(*types.Named); ok && nt.Obj().Name() == "PartId" {
						pid = p
					}
				}
				if bc, _ := extractOf(ad); bc != nil && isCallNamed(bc, "Bytes") && pid != nil {
					recv := bc.Call.Args[0]
					if bc.Call.IsInvoke() {
						recv = bc.Call.Value
					}
					bound = sliceContains(recv, false, func(x ssa.Value) bool {
						if x == ssa.Value(pid) {
							return true
						}
						if fv, ok := x.(*ssa.FreeVar); ok {
							if bnd := bindingOf(fv); bnd != nil {
								return sliceContains(bnd, false, func(y ssa.Value) bool { return y == ssa.Value(pid) })
							}
						}
						return false
					})
				}
				r.Check(bound, ruleBind, cons, posOf(c), "associated data = partId.Bytes() of the operation's own part id", "the call is not bound to the part id of the operation: ciphertext (or a wrapped data key) copied from another part decrypts successfully under this id")
			}
		}
	}

	// ---- 2. errors returned
	errCallees := map[string]bool{"Decrypt": true, "Decapsulate": true, "deriveHybridKey": true, "NewAESGCMHKDF": true, "NewDecryptingReader": true,
		"newSeekableDecryptingReader": true, "Open": true, "ComputeHKDF": true, "readPartHeaderAndDEK": true, "ReadFull": true, "Unmarshal": true, "NewCipher": true, "NewGCMWithTagSize": true, "loadSegment": true}
	for _, fn := range w.allFuncs {
		if fn.Pkg == nil || pkgRel(fn.Pkg.Pkg) != relTink {
			continue
		}
		top := topFunc(fn)
		switch top.Name() {
		case "GetPart", "readPartHeaderAndDEK", "newSeekableDecryptingReader", "loadSegment", "Read":
		default:
			continue
		}
		if top.Name() == "Read" && !strings.Contains(funcName(top), "seekableDecryptingReader") {
			continue
		}
		ord := map[string]int{}
		for _, b := range fn.Blocks {
			for _, ins := range b.Instrs {
				c, ok := ins.(*ssa.Call)
				if !ok {
					continue
				}
				name := ""
				if c.Call.IsInvoke() {
					name = c.Call.Method.Name()
				} else if f := calleeObj(c); f != nil {
					name = f.Name()
				}
				if !errCallees[name] {
					continue
				}
				k, hasErr := lastResultIsError(c.Call.Signature())
				if !hasErr {
					continue
				}
				var errVal ssa.Value
				if k == 1 {
					errVal = c
				} else {
					for _, ref := range *c.Referrers() {
						if e, ok := ref.(*ssa.Extract); ok && e.Index == k-1 {
							errVal = e
						}
					}
				}
				key := funcName(top) + " → " + name
				ord[key]++
				cons := fmt.Sprintf("%s #%d", key, ord[key])
				good := false
				if errVal != nil {
					// the non-nil edge reaches only failing returns
					for _, bb := range fn.Blocks {
						for kk := range bb.Succs {
							if len(bb.Succs) != 2 {
								continue
							}
							for _, f := range edgeFacts(bb, kk) {
								if f.Kind == NonNil && f.Val == errVal {
									tgt := bb.Succs[kk]
									rets := sinksReachable(firstInstr(tgt), nil, nil, func(i ssa.Instruction) bool { _, isRet := i.(*ssa.Return); return isRet })
									if ret, isRet := firstInstr(tgt).(*ssa.Return); isRet {
										rets = append(rets, ret)
									}
									allFail := len(rets) > 0
									for _, rt := range rets {
										if !isFailureReturn(rt.(*ssa.Return)) {
											allFail = false
										}
									}
									if allFail {
										good = true
									}
								}
							}
						}
					}
					// or returned directly
					for _, ref := range *errVal.Referrers() {
						if _, isRet := ref.(*ssa.Return); isRet {
							good = true
						}
					}
				}
				r.Check(good, ruleErr, cons, posOf(c), "error returned on its non-nil edge", "a failed "+name+" does not fail the read: tampered or foreign ciphertext is not reported")
			}
		}
	}

	// ---- 3. segments
	ctor := w.SSAFunc(relTink, "newSeekableDecryptingReader")
	load := w.SSAFunc(relTink, "seekableDecryptingReader.loadSegment")
	read := w.SSAFunc(relTink, "seekableDecryptingReader.Read")
	if ctor == nil || load == nil || read == nil {
		r.Anchor(ruleSeg, "tink.newSeekableDecryptingReader / loadSegment / Read")
		return
	}
	// key derivation inputs
	var hk *ssa.Call
	allInstrs(ctor, false, func(_ *ssa.Function, ins ssa.Instruction) {
		if c, ok := ins.(*ssa.Call); ok && isCallNamed(c, "ComputeHKDF") {
			hk = c
		}
	})
	hkOK := false
	if hk != nil && len(hk.Call.Args) >= 4 {
		isParam := func(v ssa.Value, name string) bool {
			p, ok := unspill(stripConv(v)).(*ssa.Parameter)
			return ok && p.Name() == name
		}
		saltFromHeader := sliceContains(hk.Call.Args[2], false, func(x ssa.Value) bool { return isCallNamed(x, "ReadFull") }) || sliceContains(hk.Call.Args[2], false, func(x ssa.Value) bool {
			_, isMk := x.(*ssa.MakeSlice)
			return isMk
		})
		hkOK = isParam(hk.Call.Args[1], "mainKey") && isParam(hk.Call.Args[3], "aad") && saltFromHeader
	}
	r.Check(hkOK, ruleSeg, "seekable reader: segment key = HKDF(mainKey, header salt, aad)", posOrFn(hk, ctor), "ComputeHKDF(…, mainKey, salt from the stream header, aad, …)", "the segment key is not derived from the data key, the stored salt and the caller's associated data: the seekable path decrypts with a different key than the writer used (or ignores the part binding)")
	// numSegments from measured length
	nsOK := false
	for name, sts := range fieldStoresIn(ctor, false, "seekableDecryptingReader") {
		if name != "numSegments" {
			continue
		}
		for _, s := range sts {
			if bo, ok := s.val.(*ssa.BinOp); ok && bo.Op == token.QUO {
				if sliceContains(bo.X, false, func(x ssa.Value) bool { return isCallNamed(x, "Seek") }) {
					nsOK = true
				}
			}
		}
	}
	r.Check(nsOK, ruleSeg, "seekable reader: segment count follows from the measured ciphertext length", ctor.Pos(), "numSegments = ceil((Seek(End) − base) / segment size)", "the number of segments does not come from the actual ciphertext length: truncating or extending the stored part by whole segments goes unnoticed")
	// nonce: prefix copy, index, last flag
	var open *ssa.Call
	prefixCopied, idxPut, lastFlag, lastBad := false, false, false, ""
	jParam := load.Params[1]
	allInstrs(load, false, func(_ *ssa.Function, ins ssa.Instruction) {
		switch x := ins.(type) {
		case *ssa.Call:
			if isCallNamed(x, "Open") {
				open = x
			}
			if isBuiltinCall(x, "copy") {
				if nm, _ := fieldLoadName(x.Call.Args[1]); nm == "noncePrefix" {
					prefixCopied = true
				}
			}
			if isCallNamed(x, "PutUint32") {
				if sliceContains(x.Call.Args[len(x.Call.Args)-1], false, func(y ssa.Value) bool { return y == ssa.Value(jParam) }) {
					idxPut = true
				}
			}
		case *ssa.Store:
			if k, isc := intConst(x.Val); isc && k == 1 {
				if _, isIdx := x.Addr.(*ssa.IndexAddr); isIdx {
					ok := false
					for _, f := range factsAt(x.Block()) {
						if f.Kind == EqConst && f.Other != nil {
							a, b := f.Val, f.Other
							if unspill(a) != ssa.Value(jParam) {
								a, b = b, a
							}
							if unspill(a) == ssa.Value(jParam) {
								if bo, isBin := b.(*ssa.BinOp); isBin && bo.Op == token.SUB {
									if nm, _ := fieldLoadName(bo.X); nm == "numSegments" {
										if c1, isc := intConst(bo.Y); isc && c1 == 1 {
											ok = true
										}
									}
								}
							}
						}
					}
					if ok {
						lastFlag = true
					} else {
						lastBad = w.Pos(posOf(x))
					}
				}
			}
		}
	})
	r.Check(prefixCopied && idxPut, ruleSeg, "loadSegment: nonce = stored prefix ‖ segment index", load.Pos(), "copy(nonce, noncePrefix); PutUint32(nonce[prefix:], uint32(j))", "the nonce does not carry the segment index (or the stored prefix): segments can be reordered or replayed without failing authentication")
	r.Check(lastFlag && lastBad == "", ruleSeg, "loadSegment: last-segment flag set exactly for index numSegments−1", load.Pos(), "j == numSegments−1 → nonce[last] = 1", "the last-segment flag is not tied to the measured segment count ("+lastBad+"): a stream truncated at a segment boundary still authenticates")
	// Open's result guards the plaintext
	openOK := false
	if open != nil {
		var nonceArg, segArg ssa.Value = open.Call.Args[len(open.Call.Args)-3], open.Call.Args[len(open.Call.Args)-2]
		fromRead := sliceContains(segArg, false, func(x ssa.Value) bool { n, _ := fieldLoadName(x); return n == "segBuf" })
		_, nonceLocal := stripConv(nonceArg).(*ssa.MakeSlice)
		if sl, ok := stripConv(nonceArg).(*ssa.Slice); ok {
			if a, ok := sl.X.(*ssa.Alloc); ok && a.Comment == "makeslice" {
				nonceLocal = true // make([]byte, <constant>) is lowered to a fresh array
			}
		}
		for _, sts := range fieldStoresIn(load, false, "seekableDecryptingReader")["plaintext"] {
			for _, f := range factsAt(sts.ins.Block()) {
				if f.Kind == IsNil && sliceContains(f.Val, false, func(x ssa.Value) bool { return x == ssa.Value(open) }) {
					openOK = fromRead && nonceLocal
				}
			}
		}
	}
	r.Check(openOK, ruleSeg, "loadSegment: plaintext is published only after Open succeeded", posOrFn(open, load), "s.plaintext = result of cipher.Open(nonce, segment) on the nil-error edge", "plaintext is served without (or regardless of) authenticated decryption of the segment that was read")
	// Read loads before copying
	var ld, cp *ssa.Call
	allInstrs(read, false, func(_ *ssa.Function, ins ssa.Instruction) {
		if c, ok := ins.(*ssa.Call); ok {
			if isCallNamed(c, "loadSegment") {
				ld = c
			}
			if isBuiltinCall(c, "copy") {
				cp = c
			}
		}
	})
	rdOK := false
	if ld != nil && cp != nil {
		// the segment index handed to loadSegment is segmentForPlaintextOffset(s.pos) and the copy is
		// unreachable from a failed load
		fromPos := sliceContains(ld.Call.Args[len(ld.Call.Args)-1], false, func(x ssa.Value) bool { return isCallNamed(x, "segmentForPlaintextOffset") })
		reach := len(sinksReachable(ld, nil, func(d *ssa.BasicBlock, k int) bool {
			for _, f := range edgeFacts(d, k) {
				if f.Kind == IsNil && f.Val == ssa.Value(ld) {
					return true
				}
			}
			return false
		}, func(i ssa.Instruction) bool { return i == ssa.Instruction(cp) })) == 0
		rdOK = fromPos && reach && canReach(ld, cp)
	}
	r.Check(rdOK, ruleSeek, "seekable Read decrypts the segment of the current position before copying from it", read.Pos(), "loadSegment(segmentForPlaintextOffset(pos)) succeeded on every path that copies", "bytes are copied from a segment that was not (successfully) loaded for the current position")

	// a clean EOF only after the final segment was authenticated
	eofOK, nEOF := true, 0
	for _, ret := range returnsOf(read) {
		ei := errorResultIndex(read)
		if ei < 0 || !globalErrLoaded(retResult(ret, ei), "EOF") {
			continue
		}
		nEOF++
		ok := everyPathEstablishes(ret.Block(), func(f Fact) bool {
			if n, _ := fieldLoadName(f.Val); n == "endVerified" && f.Kind == IsTrue {
				return true
			}
			if c, _ := extractOf(f.Val); c != nil && f.Kind == IsNil && isCallNamed(c, "loadSegment") {
				// loadSegment(numSegments − 1)
				if bo, isBin := c.Call.Args[len(c.Call.Args)-1].(*ssa.BinOp); isBin && bo.Op == token.SUB {
					if nm, _ := fieldLoadName(bo.X); nm == "numSegments" {
						return true
					}
				}
			}
			return false
		})
		if !ok {
			eofOK = false
		}
	}
	r.Check(eofOK && nEOF > 0, ruleSeg, "seekable Read reports EOF only after the final segment was authenticated", read.Pos(), "endVerified, or loadSegment(numSegments−1) succeeded, on every path to io.EOF", "a final segment that holds no (or few) plaintext bytes is never loaded: a stored part cut just past a segment boundary is read as a clean, shorter plaintext")
	flagOK := false
	for _, st := range fieldStoresIn(load, false, "seekableDecryptingReader")["endVerified"] {
		if b, isb := boolConst(st.val); isb && b {
			for _, f := range factsAt(st.ins.Block()) {
				if f.Kind == EqConst && f.Other != nil {
					if bo, isBin := f.Other.(*ssa.BinOp); isBin && bo.Op == token.SUB {
						if nm, _ := fieldLoadName(bo.X); nm == "numSegments" {
							flagOK = true
						}
					}
					if bo, isBin := f.Val.(*ssa.BinOp); isBin && bo.Op == token.SUB {
						if nm, _ := fieldLoadName(bo.X); nm == "numSegments" {
							flagOK = true
						}
					}
				}
			}
			if open != nil && !instrDominates(open, st.ins) {
				flagOK = false
			}
		}
	}
	r.Check(flagOK, ruleSeg, "endVerified is set only after the last segment decrypted", load.Pos(), "set under j == numSegments−1 after Open", "the end-of-stream flag is set without the last segment having been authenticated")

	// sibling arithmetic (AST: the two helper functions define pss and firstPss identically)
	fa, fb := w.Decl(w.Func(relTink, "seekableDecryptingReader.segmentForPlaintextOffset")), w.Decl(w.Func(relTink, "seekableDecryptingReader.plaintextStartOfSegment"))
	if fa == nil || fb == nil {
		r.Anchor(ruleSeek, "tink.segmentForPlaintextOffset / plaintextStartOfSegment")
	} else {
		defs := func(fd *ast.FuncDecl) map[string]string {
			out := map[string]string{}
			ast.Inspect(fd.Body, func(n ast.Node) bool {
				if as, ok := n.(*ast.AssignStmt); ok && as.Tok == token.DEFINE && len(as.Lhs) == 1 && len(as.Rhs) == 1 {
					if id, ok := as.Lhs[0].(*ast.Ident); ok {
						out[id.Name] = types.ExprString(as.Rhs[0])
					}
				}
				return true
			})
			return out
		}
		da, db := defs(fa), defs(fb)
		same := len(da) > 0
		diff := ""
		for k, v := range da {
			if vb, ok := db[k]; ok && vb != v {
				same = false
				diff = k + ": " + v + " vs " + vb
			}
		}
		shared := 0
		for k := range da {
			if _, ok := db[k]; ok {
				shared++
			}
		}
		r.Check(same && shared >= 2, ruleSeek, "segmentForPlaintextOffset and plaintextStartOfSegment share their size definitions", fa.Pos(), fmt.Sprintf("%d shared definitions identical", shared), "the two helpers disagree on the plaintext size of a segment ("+diff+"): seeking lands in a different segment than the one whose start offset is subtracted")
		// both special-case the first segment by the header length
		hdrBoth := strings.Contains(da["firstPss"], "tinkHeaderLen") && strings.Contains(db["firstPss"], "tinkHeaderLen")
		r.Check(hdrBoth, ruleSeek, "both helpers shorten the first segment by the stream header", fa.Pos(), "firstPss = pss − tinkHeaderLen", "the first segment's plaintext size ignores the stream header in one of the helpers")
	}
	checkHeaderEOFIsTruncation(w, r)
	r.NotCovered("the cryptographic strength of AES-GCM-HKDF and of the KMS back ends; segment arithmetic for every length and offset (runtime values); confidentiality of key material in memory; that the header's SegmentSize and PQ fields, which are stored in clear, cannot be altered without failing decryption is a consequence of the binding and tag checks above, not separately decided")
}
