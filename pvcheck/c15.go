package main

import (
	"fmt"
	"go/ast"
	"go/constant"
	"go/token"
	"go/types"
	"sort"
	"strconv"
	"strings"

	"golang.org/x/tools/go/ssa"
)

// C15 — every part store returns exactly the bytes it was given.
// C17 — erasure coding tolerates parity-many shard faults and never lies.
func init() {
	register("C15", checkC15)
	register("C17", checkC17)
}

const (
	relCompression = "internal/storage/metadatapart/partstore/middlewares/compression"
	relErasure     = "internal/storage/metadatapart/partstore/middlewares/erasurecoding"
	relSQLPart     = "internal/storage/metadatapart/partstore/sql"
)

// partStoreImpls lists the non-interface named types of pithos implementing PartStore.
func partStoreImpls(w *World) []*types.Named {
	PS := w.Iface(relPartStore, "PartStore")
	if PS == nil {
		return nil
	}
	var impls []*types.Named
	for _, p := range w.All {
		if !strings.HasPrefix(pkgRel(p.Types), "internal/") {
			continue
		}
		sc := p.Types.Scope()
		for _, n := range sc.Names() {
			tn, ok := sc.Lookup(n).(*types.TypeName)
			if !ok || tn.IsAlias() {
				continue
			}
			named, ok := tn.Type().(*types.Named)
			if !ok {
				continue
			}
			if _, isIface := named.Underlying().(*types.Interface); isIface {
				continue
			}
			if types.Implements(types.NewPointer(named), PS) || types.Implements(named, PS) {
				impls = append(impls, named)
			}
		}
	}
	sort.Slice(impls, func(i, j int) bool { return impls[i].String() < impls[j].String() })
	return impls
}

func innerStoreFields(T *types.Named) []string {
	var inner []string
	if st, ok := T.Underlying().(*types.Struct); ok {
		for i := 0; i < st.NumFields(); i++ {
			ft := st.Field(i).Type()
			if sl, ok := ft.Underlying().(*types.Slice); ok {
				ft = sl.Elem()
			}
			if n, ok := types.Unalias(ft).(*types.Named); ok && n.Obj().Name() == "PartStore" && n.Obj().Pkg() != nil && pkgRel(n.Obj().Pkg()) == relPartStore {
				inner = append(inner, st.Field(i).Name())
			}
		}
	}
	return inner
}

// sliceBounds collects, for the byte-slice identifier `name` in fd, the constant [lo:hi]
// windows together with the accessor applied to them (Uint16, PutUint32, copy, ==, …).
func sliceBounds(info *types.Info, fd *ast.FuncDecl, name string) []string {
	var out []string
	cval := func(e ast.Expr) (int64, bool) {
		if e == nil {
			return 0, false
		}
		if tv, ok := info.Types[e]; ok && tv.Value != nil && tv.Value.Kind() == constant.Int {
			v, exact := constant.Int64Val(tv.Value)
			return v, exact
		}
		return 0, false
	}
	width := func(call *ast.CallExpr) string {
		if se, ok := call.Fun.(*ast.SelectorExpr); ok {
			n := strings.TrimPrefix(se.Sel.Name, "Put")
			if strings.HasPrefix(n, "Uint") {
				return n
			}
		}
		return ""
	}
	var stack []ast.Node
	ast.Inspect(fd.Body, func(n ast.Node) bool {
		if n == nil {
			stack = stack[:len(stack)-1]
			return true
		}
		stack = append(stack, n)
		switch x := n.(type) {
		case *ast.SliceExpr:
			if id, ok := x.X.(*ast.Ident); ok && id.Name == name {
				lo, ok1 := cval(x.Low)
				hi, ok2 := cval(x.High)
				if x.Low == nil {
					lo, ok1 = 0, true
				}
				if ok1 && ok2 {
					acc := "bytes"
					for i := len(stack) - 2; i >= 0 && i >= len(stack)-4; i-- {
						if c, ok := stack[i].(*ast.CallExpr); ok {
							if wd := width(c); wd != "" {
								acc = wd
								break
							}
						}
					}
					out = append(out, fmt.Sprintf("[%d:%d]%s", lo, hi, acc))
				}
			}
		case *ast.IndexExpr:
			if id, ok := x.X.(*ast.Ident); ok && id.Name == name {
				if i, ok := cval(x.Index); ok {
					out = append(out, fmt.Sprintf("[%d]byte", i))
				}
			}
		}
		return true
	})
	sort.Strings(out)
	// de-duplicate
	var ded []string
	for i, s := range out {
		if i == 0 || out[i-1] != s {
			ded = append(ded, s)
		}
	}
	return ded
}

// switchTable reads `switch x { case A: return B … }` of a function into a map from the
// constant value of A to the constant value (or callee package) of B.
func switchTable(info *types.Info, fd *ast.FuncDecl, resultPkg bool) map[string]string {
	out := map[string]string{}
	ast.Inspect(fd.Body, func(n ast.Node) bool {
		sw, ok := n.(*ast.SwitchStmt)
		if !ok {
			return true
		}
		for _, st := range sw.Body.List {
			cc := st.(*ast.CaseClause)
			for _, e := range cc.List {
				tv, ok := info.Types[e]
				if !ok || tv.Value == nil {
					continue
				}
				key := tv.Value.ExactString()
				val := ""
				ast.Inspect(cc, func(m ast.Node) bool {
					if val != "" {
						return false
					}
					if resultPkg {
						if c, ok := m.(*ast.CallExpr); ok {
							if f := calleeOfExpr(info, c); f != nil && f.Pkg() != nil {
								val = f.Pkg().Name()
							}
						}
						return true
					}
					if rs, ok := m.(*ast.ReturnStmt); ok && len(rs.Results) > 0 {
						if tv2, ok := info.Types[rs.Results[0]]; ok && tv2.Value != nil {
							val = tv2.Value.ExactString()
						}
					}
					return true
				})
				out[key] = val
			}
		}
		return false
	})
	return out
}

func checkC15(w *World, r *Run) {
	ruleFwd := r.Rule("wrappers-forward-the-same-part-id", "F2",
		"every part store wrapping other stores synchronously (compression, encryption, cache, erasure coding) performs Put/Get/DeletePart on its inner store(s) with exactly its own partId parameter, and each of those operations reaches the same-named inner operation; erasure coding addresses every shard store", 12)
	ruleCodec := r.Rule("writer-and-reader-tables-agree", "F7",
		"compression: algorithmToId and algorithmFromId are inverse over every declared Algorithm, the compression writer and decompression reader have the same algorithm cases backed by the same package, and the header writer and parser touch the same offsets; erasure coding: shard and frame header writers and parsers use identical windows and widths", 5)
	ruleSQL := r.Rule("sql-part-store-is-scoped-to-its-store-id", "F3",
		"every part-content repository call of sqlPartStore (including its lazy chunk reader) passes the store's own partStoreId and the operation's own part id", 5)

	// ---- 1. forwarding
	for _, T := range partStoreImpls(w) {
		inner := innerStoreFields(T)
		if len(inner) == 0 {
			continue
		}
		short := pkgRel(T.Obj().Pkg())
		short = short[strings.LastIndex(short, "/")+1:] + "." + T.Obj().Name()
		if strings.HasSuffix(pkgRel(T.Obj().Pkg()), "partstore/outbox") {
			r.Exempt(ruleFwd, short+" forwards operations", T.Obj().Pos(), "defers Put/Delete to its replay worker by design; decided under C18 (inner-store-mutated-only-by-replay, getpart-prefers-latest-outbox-entry)")
			continue
		}
		ms := types.NewMethodSet(types.NewPointer(T))
		for _, op := range []string{"PutPart", "GetPart", "DeletePart"} {
			sel := ms.Lookup(T.Obj().Pkg(), op)
			if sel == nil {
				continue
			}
			fn := w.Prog.FuncValue(sel.Obj().(*types.Func))
			if fn == nil || len(fn.Blocks) == 0 {
				continue
			}
			var pid *ssa.Parameter
			for _, p := range fn.Params {
				if n, ok := types.Unalias(p.Type()).(*types.Named); ok && n.Obj().Name() == "PartId" {
					pid = p
				}
			}
			cons := short + "." + op
			if pid == nil {
				r.Unk(ruleFwd, cons, fn.Pos(), "no PartId parameter")
				continue
			}
			isOwnId := func(v ssa.Value) bool {
				v = unspill(stripConv(v))
				if v == ssa.Value(pid) {
					return true
				}
				if p, ok := v.(*ssa.Parameter); ok {
					// helper of the same type taking the id through: its callers pass their own id (checked there)
					return p.Name() == pid.Name()
				}
				ok := false
				backSlice(v, false, func(x ssa.Value) {
					if x == ssa.Value(pid) {
						ok = true
					}
					if fv, isFV := x.(*ssa.FreeVar); isFV {
						if b := bindingOf(fv); b != nil && sliceContains(b, false, func(y ssa.Value) bool {
							p, isP := y.(*ssa.Parameter)
							return y == ssa.Value(pid) || (isP && p.Name() == pid.Name())
						}) {
							ok = true
						}
					}
				})
				return ok
			}
			// follow same-package helpers (getPartWithHealing, openPartReaders, newPartReader …)
			seen := map[*ssa.Function]bool{}
			sameOp, bad := 0, ""
			var walk func(f *ssa.Function)
			walk = func(f *ssa.Function) {
				if f == nil || seen[f] || len(seen) > 40 {
					return
				}
				seen[f] = true
				allInstrs(f, true, func(_ *ssa.Function, ins ssa.Instruction) {
					c, ok := ins.(ssa.CallInstruction)
					if !ok {
						return
					}
					if c.Common().IsInvoke() {
						if rn := recvNamedOfInvoke(c); rn != nil && rn.Obj().Name() == "PartStore" && isPartStoreMethod(c.Common().Method.Name()) && c.Common().Method.Name() != "GetPartIds" {
							for _, a := range c.Common().Args {
								if n, ok := types.Unalias(a.Type()).(*types.Named); ok && n.Obj().Name() == "PartId" {
									if !isOwnId(a) {
										bad = c.Common().Method.Name() + " at " + w.Pos(posOf(ins)) + " uses a different part id"
									}
								}
							}
							if c.Common().Method.Name() == op {
								sameOp++
							}
						}
						return
					}
					if sc := c.Common().StaticCallee(); sc != nil && sc.Pkg == fn.Pkg && sc.Signature.Recv() != nil {
						walk(sc)
					}
				})
			}
			walk(fn)
			switch {
			case bad != "":
				r.Bad(ruleFwd, cons, fn.Pos(), bad+": the bytes are stored under, read from or deleted at another part's name")
			case sameOp == 0:
				r.Bad(ruleFwd, cons, fn.Pos(), "the operation never reaches "+op+" of the wrapped store")
			default:
				r.OK(ruleFwd, cons, fn.Pos(), fmt.Sprintf("%d inner %s call(s), own part id throughout", sameOp, op))
			}
		}
	}
	// erasure coding addresses every shard: loops bounded by totalShards
	for _, op := range []string{"PutPart", "openPartReaders", "DeletePart", "GetPartIds"} {
		fn := w.SSAFunc(relErasure, "erasureCodingPartStore."+op)
		if fn == nil {
			r.Anchor(ruleFwd, "erasureCodingPartStore."+op)
			continue
		}
		all := false
		allInstrs(fn, true, func(f2 *ssa.Function, ins ssa.Instruction) {
			c, ok := ins.(ssa.CallInstruction)
			if !ok || !c.Common().IsInvoke() || !isPartStoreMethod(c.Common().Method.Name()) {
				return
			}
			// receiver e.partStores[i] with i ranging to totalShards / over partStores
			if ld, ok := c.Common().Value.(*ssa.UnOp); ok {
				if ia, ok := ld.X.(*ssa.IndexAddr); ok {
					if n, _ := fieldLoadName(ia.X); n == "partStores" {
						idx := ia.Index
						bounded := false
						check := func(v ssa.Value) {
							for _, ref := range *v.Referrers() {
								if bo, ok := ref.(*ssa.BinOp); ok && bo.Op == token.LSS {
									if nm, _ := fieldLoadName(bo.Y); nm == "totalShards" {
										bounded = true
									}
									if isLenOf(bo.Y, func(x ssa.Value) bool { nn, _ := fieldLoadName(x); return nn == "partStores" }) {
										bounded = true
									}
								}
							}
						}
						backSlice(idx, false, func(x ssa.Value) {
							if x.Referrers() != nil {
								check(x)
							}
							if fv, isFV := x.(*ssa.FreeVar); isFV {
								_ = fv
							}
							if p, isP := x.(*ssa.Parameter); isP {
								// goroutine body taking the loop index: callers pass the loop variable
								for _, ci := range w.callers[p.Parent()] {
									if cc, ok := ci.(ssa.CallInstruction); ok {
										for _, a := range cc.Common().Args {
											backSlice(a, false, func(y ssa.Value) {
												if y.Referrers() != nil {
													check(y)
												}
											})
										}
									}
								}
							}
						})
						// no further condition on the shard index besides the loop bound
						filtered := false
						for _, f := range factsAt(ins.Block()) {
							if f.If != nil && isLoopTest(f.If) {
								continue
							}
							if bo, ok := f.Val.(*ssa.BinOp); ok {
								if sameValue(bo.X, idx) || sameValue(bo.Y, idx) {
									filtered = true
								}
							}
							if sameValue(f.Val, idx) || (f.Other != nil && sameValue(f.Other, idx)) {
								filtered = true
							}
						}
						if bounded && !filtered {
							all = true
						}
					}
				}
			}
		})
		r.Check(all, ruleFwd, "erasurecoding."+op+" addresses every shard store", fn.Pos(), "index ranges over all of partStores / totalShards", "not every shard store is written, read or cleaned: the part cannot be reconstructed from (or leaves data in) the stores that were skipped")
	}

	// ---- 2. codec tables
	if p := w.Pkg(relCompression); p == nil {
		r.Anchor(ruleCodec, relCompression)
	} else {
		decl := func(name string) *ast.FuncDecl {
			if f := w.Func(relCompression, name); f != nil {
				return w.Decl(f)
			}
			return nil
		}
		toId, fromId := decl("algorithmToId"), decl("algorithmFromId")
		if toId == nil || fromId == nil {
			r.Anchor(ruleCodec, "compression.algorithmToId / algorithmFromId")
		} else {
			info := w.InfoFor(toId)
			fwd := switchTable(info, toId, false)
			rev := switchTable(w.InfoFor(fromId), fromId, false)
			// declared algorithms
			var algs []string
			sc := p.Types.Scope()
			for _, n := range sc.Names() {
				if c, ok := sc.Lookup(n).(*types.Const); ok {
					if nt, ok := c.Type().(*types.Named); ok && nt.Obj().Name() == "Algorithm" {
						algs = append(algs, c.Val().ExactString())
					}
				}
			}
			sort.Strings(algs)
			var uniq []string
			for i, a := range algs {
				if i == 0 || algs[i-1] != a {
					uniq = append(uniq, a) // defaultAlgorithm re-declares one of the values
				}
			}
			algs = uniq
			good, why := len(algs) > 0, ""
			ids := map[string]bool{}
			for _, a := range algs {
				id, ok := fwd[a]
				if !ok || id == "" {
					good, why = false, "algorithm "+a+" has no id"
					continue
				}
				if ids[id] {
					good, why = false, "id "+id+" is used for two algorithms"
				}
				ids[id] = true
				if rev[id] != a {
					good, why = false, "id "+id+" of "+a+" is decoded as "+rev[id]
				}
			}
			r.Check(good, ruleCodec, "compression: algorithmToId ∘ algorithmFromId = identity over declared algorithms", toId.Pos(), fmt.Sprintf("%d algorithms, ids distinct, inverse", len(algs)), why+": a part written with one algorithm is read back with another (or rejected)")
		}
		cw, dr := w.Decl(w.Func(relCompression, "PartStoreMiddleware.newCompressionWriter")), w.Decl(w.Func(relCompression, "PartStoreMiddleware.newDecompressionReader"))
		if cw == nil || dr == nil {
			r.Anchor(ruleCodec, "compression.newCompressionWriter / newDecompressionReader")
		} else {
			a := switchTable(w.InfoFor(cw), cw, true)
			b := switchTable(w.InfoFor(dr), dr, true)
			good, why := len(a) > 0, ""
			for k, v := range a {
				if b[k] != v {
					good, why = false, fmt.Sprintf("algorithm %s is written with package %s and read with %q", k, v, b[k])
				}
			}
			for k := range b {
				if _, ok := a[k]; !ok {
					good, why = false, "the reader handles "+k+" which the writer never produces"
				}
			}
			r.Check(good, ruleCodec, "compression: writer and reader handle the same algorithms with the same codec", cw.Pos(), fmt.Sprintf("%d cases", len(a)), why)
		}
		nh, ph := decl("newHeader"), decl("parseHeader")
		if nh == nil || ph == nil {
			r.Anchor(ruleCodec, "compression.newHeader / parseHeader")
		} else {
			wr := sliceBounds(w.InfoFor(nh), nh, "header")
			rd := sliceBounds(w.InfoFor(ph), ph, "header")
			missing := ""
			rdSet := map[string]bool{}
			for _, s := range rd {
				rdSet[s] = true
			}
			for _, s := range wr {
				if !rdSet[s] {
					missing = s
				}
			}
			// the algorithm id position
			pos := func(fd *ast.FuncDecl, callee string, assign bool) string {
				res := ""
				ast.Inspect(fd.Body, func(n ast.Node) bool {
					switch x := n.(type) {
					case *ast.AssignStmt:
						if assign && len(x.Lhs) == 1 && len(x.Rhs) == 1 {
							if c, ok := x.Rhs[0].(*ast.CallExpr); ok {
								if id, ok := c.Fun.(*ast.Ident); ok && id.Name == callee {
									if ie, ok := x.Lhs[0].(*ast.IndexExpr); ok {
										if tv, ok := w.InfoFor(fd).Types[ie.Index]; ok && tv.Value != nil {
											res = tv.Value.ExactString()
										}
									}
								}
							}
						}
					case *ast.CallExpr:
						if !assign {
							if id, ok := x.Fun.(*ast.Ident); ok && id.Name == callee && len(x.Args) == 1 {
								if ie, ok := x.Args[0].(*ast.IndexExpr); ok {
									if tv, ok := w.InfoFor(fd).Types[ie.Index]; ok && tv.Value != nil {
										res = tv.Value.ExactString()
									}
								}
							}
						}
					}
					return true
				})
				return res
			}
			wp, rp := pos(nh, "algorithmToId", true), pos(ph, "algorithmFromId", false)
			r.Check(missing == "" && wp != "" && wp == rp, ruleCodec, "compression: header writer and parser use the same offsets", nh.Pos(), fmt.Sprintf("windows %v; algorithm id at [%s]", wr, wp), fmt.Sprintf("the parser does not read window %s the writer fills, or the algorithm id is written at [%s] and read at [%s]", missing, wp, rp))
		}
	}
	// the compression header is written for every part, compressed or not: GetPart tells the
	// two apart by the header alone, so a raw part whose bytes look like a header is misread
	if fn := w.SSAFunc(relCompression, "PartStoreMiddleware.PutPart"); fn == nil {
		r.Anchor(ruleCodec, "compression.PutPart")
	} else {
		good, why := false, "no header write found"
		allInstrs(fn, true, func(lit *ssa.Function, ins ssa.Instruction) {
			c, ok := ins.(*ssa.Call)
			if !ok || !isCallNamed(c, "Write") {
				return
			}
			if !sliceContains(c.Call.Args[len(c.Call.Args)-1], false, func(x ssa.Value) bool { return isCallNamed(x, "newHeader") }) {
				return
			}
			// dominates every body copy of the same function literal
			good, why = true, ""
			allInstrs(lit, false, func(_ *ssa.Function, i2 ssa.Instruction) {
				if cp, ok := i2.(*ssa.Call); ok && isCallNamed(cp, "Copy") && !instrDominates(c, cp) {
					good, why = false, "the body copy at "+w.Pos(posOf(cp))+" is not preceded by the header write on every path"
				}
			})
		})
		// and nothing reaches the inner store except through that pipe
		allInstrs(fn, true, func(_ *ssa.Function, ins ssa.Instruction) {
			c, ok := ins.(ssa.CallInstruction)
			if !ok || !c.Common().IsInvoke() || c.Common().Method.Name() != "PutPart" {
				return
			}
			if n, _ := fieldLoadName(c.Common().Value); n != "innerPartStore" {
				return
			}
			args := c.Common().Args
			body := args[len(args)-1]
			piped := sliceContains(body, false, func(x ssa.Value) bool {
				e, ok := x.(*ssa.Extract)
				return ok && e.Index == 0 && isCallNamed(e.Tuple, "Pipe")
			})
			raw := sliceContains(body, true, func(x ssa.Value) bool {
				p, ok := x.(*ssa.Parameter)
				return ok && p.Parent() == fn && strings.HasSuffix(p.Type().String(), "io.Reader")
			})
			if !piped || raw {
				good, why = false, "the inner PutPart at "+w.Pos(posOf(c))+" is fed from the caller's reader, not from the pipe that carries the header"
			}
		})
		r.Check(good, ruleCodec, "compression: PutPart writes the header before every body, compressed or not", fn.Pos(), "Write(newHeader(algorithm)) dominates both Copy calls", why+": an uncompressed part stored without header whose first 32 bytes happen to form a valid header loses them (or fails to decode) on read")
	}
	for _, pair := range [][2]string{{"erasureCodingPartStore.shardHeader", "parseShardHeader"}, {"encodeFrameHeader", "parseFrameHeader"}} {
		wf, rf := w.Func(relErasure, pair[0]), w.Func(relErasure, pair[1])
		if wf == nil || rf == nil {
			r.Anchor(ruleCodec, "erasurecoding."+pair[0]+" / "+pair[1])
			continue
		}
		wd, rd := w.Decl(wf), w.Decl(rf)
		a := sliceBounds(w.InfoFor(wd), wd, "b")
		b := sliceBounds(w.InfoFor(rd), rd, "b")
		same := len(a) > 0 && strings.Join(a, " ") == strings.Join(b, " ")
		r.Check(same, ruleCodec, "erasurecoding: "+pair[0]+" and "+pair[1]+" use identical windows and widths", wd.Pos(), strings.Join(a, " "), fmt.Sprintf("writer %v vs reader %v: a field is read from bytes another field was written to", a, b))
	}

	// ---- 3. sql part store
	for _, fn := range w.allFuncs {
		if fn.Pkg == nil || pkgRel(fn.Pkg.Pkg) != relSQLPart {
			continue
		}
		ord := 0
		for _, b := range fn.Blocks {
			for _, ins := range b.Instrs {
				c, ok := ins.(ssa.CallInstruction)
				if !ok || !c.Common().IsInvoke() {
					continue
				}
				rn := recvNamedOfInvoke(c)
				if rn == nil || rn.Obj().Pkg() == nil || !strings.Contains(rn.Obj().Pkg().Path(), "repository/partcontent") {
					continue
				}
				ord++
				cons := fmt.Sprintf("%s → %s #%d", funcName(topFunc(fn)), c.Common().Method.Name(), ord)
				okStore := false
				for _, a := range c.Common().Args {
					if n, _ := fieldLoadName(a); n == "partStoreId" {
						okStore = true
					}
				}
				r.Check(okStore, ruleSQL, cons, posOf(ins), "scoped by the store's partStoreId", "the repository call is not scoped by this store's id: two SQL part stores sharing a database read, overwrite or delete each other's parts")
			}
		}
	}
	ruleKeep := r.Rule("bytes-delivered-with-an-error-are-kept", "F1",
		"every Read wrapper of the repository returns 0 after its inner Read only where the inner n is known to be 0, and ioutils.ReadChunk extends its buffer by n before looking at err (io.Reader may return n > 0 together with io.EOF)", 8)
	checkReadersKeepBytes(w, r, ruleKeep)
	ruleScope5 := r.Rule("outbox-listing-subqueries-are-scoped", "F4", "every SELECT inside a statement over the part outbox table carries its own outbox_id predicate (GetPartIds of an outbox part store must see exactly its own pending entries)", 1)
	checkEverySubqueryScoped(w, r, ruleScope5)
	r.NotCovered("byte equality across chunk, segment and stripe boundaries, for every content and size (runtime values); the cloud-drive and sftp stores' remote behaviour; GetPartIds exactness; the empty-part behaviour of the SQL part store; encryption is C16, erasure-coding fault tolerance C17, the cache C19, the outbox C18")
}

func checkC17(w *World, r *Run) {
	ruleAuth := r.Rule("frame-fields-are-authenticated-before-use", "F9",
		"in the erasure-coding reader a payload enters the reconstruction only on the true edge of bytes.Equal(expected hash, sha256(payload)); every value parseFrameHeader returns is, before it influences the output, compared for equality with an independent value or covered by that hash", 5)
	ruleQuorum := r.Rule("reconstruction-needs-a-quorum", "F1",
		"ReconstructData is reached only where available >= dataShards (the other edge fails the read); a shard whose header does not parse or whose geometry differs from the store's configuration is closed and marked for healing, never read; a shard ending inside a frame header counts as faulty", 4)

	fn := w.SSAFunc(relErasure, "erasureCodingPartStore.newPartReader")
	if fn == nil {
		r.Anchor(ruleAuth, "erasureCodingPartStore.newPartReader")
		return
	}
	var parse *ssa.Call
	var lit *ssa.Function
	allInstrs(fn, true, func(f2 *ssa.Function, ins ssa.Instruction) {
		if c, ok := ins.(*ssa.Call); ok && isCallNamed(c, "parseFrameHeader") {
			parse, lit = c, f2
		}
	})
	if parse == nil {
		r.Bad(ruleAuth, "newPartReader → parseFrameHeader", fn.Pos(), "no parseFrameHeader call found")
		return
	}
	// payload admission
	admitted, n := true, 0
	allInstrs(lit, false, func(_ *ssa.Function, ins ssa.Instruction) {
		st, ok := ins.(*ssa.Store)
		if !ok {
			return
		}
		ia, ok := st.Addr.(*ssa.IndexAddr)
		if !ok || !strings.HasSuffix(st.Val.Type().String(), "[]byte") {
			return
		}
		if _, isSlice := ia.X.Type().Underlying().(*types.Slice); !isSlice {
			return
		}
		if el, ok := ia.X.Type().Underlying().(*types.Slice).Elem().Underlying().(*types.Slice); !ok || !types.Identical(el.Elem(), types.Typ[types.Uint8]) {
			return
		}
		n++
		ok2 := false
		for _, f := range factsAt(st.Block()) {
			if c, isCall := f.Val.(*ssa.Call); isCall && f.Kind == IsTrue && isCallNamed(c, "Equal") {
				// one side the header's hash, the other sha256 of this payload
				hdr := sliceContains(c.Call.Args[0], false, func(x ssa.Value) bool { e, ok := x.(*ssa.Extract); return ok && e.Tuple == ssa.Value(parse) }) ||
					sliceContains(c.Call.Args[1], false, func(x ssa.Value) bool { e, ok := x.(*ssa.Extract); return ok && e.Tuple == ssa.Value(parse) })
				sum := sliceContains(c.Call.Args[0], true, func(x ssa.Value) bool {
					return isCallNamed(x, "Sum256") && sliceContains(x.(*ssa.Call).Call.Args[0], false, func(y ssa.Value) bool { return y == st.Val })
				}) ||
					sliceContains(c.Call.Args[1], true, func(x ssa.Value) bool {
						return isCallNamed(x, "Sum256") && sliceContains(x.(*ssa.Call).Call.Args[0], false, func(y ssa.Value) bool { return y == st.Val })
					})
				if hdr && sum {
					ok2 = true
				}
			}
		}
		if !ok2 {
			admitted = false
		}
	})
	r.Check(admitted && n > 0, ruleAuth, "payload enters shards[] only after its hash matched", posOf(parse), "shards[i] = payload under bytes.Equal(expectedHash, sha256(payload))", "a shard payload is used for reconstruction without its SHA-256 having matched the frame header: a corrupted shard yields different bytes instead of being healed")
	// header fields
	names := []string{"stripe index", "dataBytes", "payloadLen", "payload hash"}
	for _, ref := range *parse.Referrers() {
		e, ok := ref.(*ssa.Extract)
		if !ok || e.Index > 3 {
			continue
		}
		authed := forwardReaches(e, func(u ssa.Instruction, via ssa.Value) bool {
			switch x := u.(type) {
			case *ssa.BinOp:
				if x.Op == token.EQL || x.Op == token.NEQ {
					other := x.X
					if other == via {
						other = x.Y
					}
					if _, isConst := other.(*ssa.Const); !isConst {
						return true
					}
				}
			case *ssa.Call:
				if isCallNamed(x, "Equal") {
					return true
				}
			case *ssa.MakeSlice:
				// sizes the buffer whose content is hashed
				return forwardReaches(x, func(u2 ssa.Instruction, v2 ssa.Value) bool {
					c, ok := u2.(*ssa.Call)
					return ok && isCallNamed(c, "Sum256")
				})
			}
			return false
		})
		cons := "parseFrameHeader result " + names[e.Index] + " is authenticated"
		r.Check(authed, ruleAuth, cons, posOf(parse), "compared with an independent value or covered by the payload hash", "the "+names[e.Index]+" field of a frame header reaches the output without being compared or hashed: flipping it in one shard (within the parity budget) changes the bytes returned — e.g. dataBytes truncates the stripe — and the read still succeeds")
	}

	// a shard that ends early — on a frame boundary or in the middle of a frame header — is a
	// faulty shard, not a failed read: both io.EOF and io.ErrUnexpectedEOF of the frame-header
	// read must lead to healing
	var hdrRead *ssa.Call
	allInstrs(lit, false, func(_ *ssa.Function, ins ssa.Instruction) {
		c, ok := ins.(*ssa.Call)
		if !ok || !isCallNamed(c, "ReadFull") || hdrRead != nil {
			return
		}
		// the buffer later handed to parseFrameHeader
		if sliceContains(parse.Call.Args[0], false, func(x ssa.Value) bool { return x == c.Call.Args[1] }) || sameValue(parse.Call.Args[0], c.Call.Args[1]) {
			hdrRead = c
		}
	})
	tolerated := map[string]bool{}
	if hdrRead != nil {
		for _, b := range lit.Blocks {
			for k := range b.Succs {
				if len(b.Succs) != 2 {
					continue
				}
				for _, f := range edgeFacts(b, k) {
					c, ok := f.Val.(*ssa.Call)
					if !ok || f.Kind != IsTrue || !isCallNamed(c, "Is") {
						continue
					}
					if e, _ := extractOf(c.Call.Args[0]); e != hdrRead {
						continue
					}
					// the true edge marks the shard and goes on (no CloseWithError before the next shard)
					aborts := false
					for _, ins := range b.Succs[k].Instrs {
						if cc, ok := ins.(*ssa.Call); ok && isCallNamed(cc, "CloseWithError") {
							aborts = true
						}
					}
					if aborts {
						continue
					}
					for _, name := range []string{"EOF", "ErrUnexpectedEOF"} {
						if globalErrLoaded(c.Call.Args[1], name) {
							tolerated[name] = true
						}
					}
				}
			}
		}
	}
	r.Check(hdrRead != nil && tolerated["EOF"] && tolerated["ErrUnexpectedEOF"], ruleQuorum, "a shard truncated inside a frame header is healed, not fatal", posOrFn(hdrRead, fn), "errors.Is(err, io.EOF) and errors.Is(err, io.ErrUnexpectedEOF) of the header read both mark the shard", "a shard cut in the middle of a frame header aborts the whole read although at most parity-many shards are faulty")

	// quorum
	var recon *ssa.Call
	allInstrs(lit, false, func(_ *ssa.Function, ins ssa.Instruction) {
		if c, ok := ins.(*ssa.Call); ok && isCallNamed(c, "ReconstructData") {
			recon = c
		}
	})
	q := false
	if recon != nil {
		for _, f := range factsAt(recon.Block()) {
			if bo, ok := f.Val.(*ssa.BinOp); ok && f.Kind == IsFalse && bo.Op == token.LSS {
				if n, _ := fieldLoadName(bo.Y); n == "dataShards" {
					q = true
				}
			}
			if bo, ok := f.Val.(*ssa.BinOp); ok && f.Kind == IsTrue && bo.Op == token.GEQ {
				if n, _ := fieldLoadName(bo.Y); n == "dataShards" {
					q = true
				}
			}
		}
	}
	// … and always: a shard dropped while its stripe was being read leaves a nil data shard
	// although its reader was open when the stripe started, so reconstruction may not be
	// skipped on any path that goes on to emit the stripe
	if recon != nil {
		skipped := token.NoPos
		allInstrs(lit, false, func(_ *ssa.Function, ins ssa.Instruction) {
			c, ok := ins.(*ssa.Call)
			if !ok || !isCallNamed(c, "Write") || !canReach(recon, c) && !canReach(firstInstr(recon.Block()), c) {
				return
			}
			// writes of the stripe: reachable from the quorum test's success edge
			qb := recon.Block()
			for d := qb; d != nil; d = d.Idom() {
				if len(d.Instrs) == 0 {
					continue
				}
				if iff, ok := d.Instrs[len(d.Instrs)-1].(*ssa.If); ok {
					if bo, ok := iff.Cond.(*ssa.BinOp); ok {
						if n, _ := fieldLoadName(bo.Y); n == "dataShards" {
							qb = d
							break
						}
					}
				}
			}
			if qb.Dominates(c.Block()) && qb != c.Block() && !instrDominates(recon, c) {
				skipped = c.Pos()
			}
		})
		r.Check(skipped == token.NoPos, ruleQuorum, "every emitted stripe went through ReconstructData", func() token.Pos {
			if skipped != token.NoPos {
				return skipped
			}
			return recon.Pos()
		}(), "ReconstructData dominates the stripe's writes", "a stripe can be written out (to the caller or to healing shards) without ReconstructData: a data shard found corrupt or truncated while the stripe was read stays nil and the stripe is emitted short — wrong bytes, no error, with a single faulty shard")
	}
	r.Check(q, ruleQuorum, "ReconstructData only with at least dataShards verified shards", posOrFn(recon, fn), "available >= dataShards dominates ReconstructData", "reconstruction is attempted with fewer verified shards than data shards (or the count is not checked): the read returns garbage instead of failing")
	failOK := false
	if recon != nil {
		for _, b := range lit.Blocks {
			for _, f := range factsAt(b) {
				if bo, ok := f.Val.(*ssa.BinOp); ok && f.Kind == IsTrue && bo.Op == token.LSS {
					if n, _ := fieldLoadName(bo.Y); n == "dataShards" {
						for _, ins := range b.Instrs {
							if c, ok := ins.(*ssa.Call); ok && isCallNamed(c, "CloseWithError") {
								failOK = true
							}
						}
					}
				}
			}
		}
	}
	// healing writes back what was read: the frame written for a healed shard restates the
	// stripe's index and data length as authenticated frames gave them; the bytes returned
	// are cut to that data length
	ruleHeal := r.Rule("healed-frames-restate-the-stripe", "F9",
		"every frame header the reader writes for a healed shard carries the stripe's dataBytes as read from the verified frames (not a length recomputed from padded shards) and the stripe index those frames were compared with; the bytes handed to the caller are cut to that dataBytes", 2)
	fromParse := func(v ssa.Value, idx int) bool {
		return sliceContains(v, false, func(x ssa.Value) bool {
			e, ok := x.(*ssa.Extract)
			return ok && e.Tuple == ssa.Value(parse) && e.Index == idx
		})
	}
	recomputed := func(v ssa.Value) bool {
		return sliceContains(v, false, func(x ssa.Value) bool {
			if isBuiltinCall(x, "len") {
				return true
			}
			bo, ok := x.(*ssa.BinOp)
			return ok && (bo.Op == token.MUL || bo.Op == token.ADD || bo.Op == token.SUB || bo.Op == token.QUO)
		})
	}
	nHeal := 0
	allInstrs(lit, false, func(_ *ssa.Function, ins ssa.Instruction) {
		c, ok := ins.(*ssa.Call)
		if !ok || !isCallNamed(c, "encodeFrameHeader") || len(c.Call.Args) != 3 {
			return
		}
		nHeal++
		cons := "newPartReader: healed frame header restates dataBytes"
		if nHeal > 1 {
			cons += " #" + strconv.Itoa(nHeal)
		}
		r.Check(fromParse(c.Call.Args[1], 1) && !recomputed(c.Call.Args[1]), ruleHeal, cons, c.Pos(),
			"dataBytes of the verified frames", "the healed shard's frame records a data length other than the one read from the verified frames: once that shard is the first readable one, later reads return padded or truncated bytes without any fault present")
	})
	if nHeal == 0 {
		r.Bad(ruleHeal, "newPartReader: healed frame header restates dataBytes", fn.Pos(), "no encodeFrameHeader call in the healing reader")
	}
	cut := false
	allInstrs(lit, false, func(_ *ssa.Function, ins ssa.Instruction) {
		sl, ok := ins.(*ssa.Slice)
		if !ok || sl.High == nil || !fromParse(sl.High, 1) || recomputed(sl.High) {
			return
		}
		if forwardReaches(sl, func(u ssa.Instruction, via ssa.Value) bool {
			cc, ok := u.(*ssa.Call)
			return ok && isCallNamed(cc, "Write")
		}) {
			cut = true
		}
	})
	r.Check(cut, ruleHeal, "newPartReader: returned stripe is cut to dataBytes", posOf(parse), "out[:dataBytes] reaches the pipe write", "the reconstructed stripe is written out without being cut to the recorded data length: the padding of the last stripe is returned as content")
	r.Check(failOK, ruleQuorum, "too few shards fail the read", posOrFn(recon, fn), "available < dataShards → CloseWithError", "with more faults than parity shards the reader does not end with an error")
	if of := w.SSAFunc(relErasure, "erasureCodingPartStore.openPartReaders"); of == nil {
		r.Anchor(ruleQuorum, "erasureCodingPartStore.openPartReaders")
	} else {
		// readers[i] = rc only where the header parsed and all four geometry fields matched
		good, cnt := true, 0
		allInstrs(of, false, func(_ *ssa.Function, ins ssa.Instruction) {
			st, ok := ins.(*ssa.Store)
			if !ok {
				return
			}
			if _, isIdx := st.Addr.(*ssa.IndexAddr); !isIdx || isNilConst(stripConv(st.Val)) {
				return
			}
			if !strings.Contains(st.Val.Type().String(), "ReadCloser") {
				return
			}
			cnt++
			have := map[string]bool{}
			for _, f := range factsAt(st.Block()) {
				if f.Kind == IsNil && isErrorType(f.Val.Type()) {
					if c, _ := extractOf(f.Val); c != nil && isCallNamed(c, "parseShardHeader") {
						have["parsed"] = true
					}
				}
				if f.Kind == EqConst && f.Other != nil {
					for _, side := range []ssa.Value{f.Val, f.Other} {
						if n, _ := fieldLoadName(side); n != "" {
							have[n] = true
						}
					}
					for _, side := range []ssa.Value{f.Val, f.Other} {
						if _, isPhi := side.(*ssa.Phi); isPhi {
							have["index"] = true
						}
					}
				}
			}
			for _, k := range []string{"parsed", "dataShards", "totalShards", "stripeShardSz", "index"} {
				if !have[k] {
					good = false
				}
			}
		})
		r.Check(good && cnt > 0, ruleQuorum, "a shard is read only if its header parses and matches the store's geometry and position", of.Pos(), "parse ok ∧ data/total/stripe equal the configuration ∧ idx == i", "a shard with a foreign or damaged header is read as if it belonged to this part at this position")
	}
	checkErasureConfigArgOrder(w, r, ruleQuorum)
	checkTruncatingCreate(w, r)
	r.NotCovered("Reed-Solomon arithmetic; stale shards whose frames are internally consistent (an older write of the same part id); healing writes; every combination of faults — the rules decide that nothing unauthenticated is fed to the reconstruction and that the quorum test guards it")
}
