#!/usr/bin/env bash
# usage: mkmutant.sh <Cnn> <name> <expect-regex>
# Captures /repo's current uncommitted diff as a mutant patch, checks that the mutated tree
# still builds (go build ./... + go vet -run none for tests compile), and restores /repo.
set -eu
id="$1"; name="$2"; expect="$3"
export PATH=/opt/veriftools/go1.27.0/bin:$PATH GOFLAGS=-mod=mod GOPROXY=off GOSUMDB=off GOTOOLCHAIN=local GOWORK=off
cd "${MUTREPO:-/repo}"   # MUTREPO: a scratch worktree at /repo HEAD, for when /repo is busy
if git diff --quiet; then echo "no diff in /repo" >&2; exit 1; fi
if ! go build ./... ; then echo "mutant does not build" >&2; git checkout -- .; exit 1; fi
mkdir -p /verif/selftest/$id
{ echo "# expect: $expect"; git diff; } > /verif/selftest/$id/$name.patch
git checkout -- .
echo "wrote /verif/selftest/$id/$name.patch"
