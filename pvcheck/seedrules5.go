package main

import (
	"go/ast"
	"go/token"
	"go/types"
	"strings"

	"golang.org/x/tools/go/ssa"
)

// Rules added after the fifth (targeted) round of seeded changes.

// checkPartInsertIsPlain: a part row is inserted, never silently replaced: the unique index
// on (object_id, sequence_number) is what refuses an append that would land on an existing
// sequence number.
func checkPartInsertIsPlain(w *World, r *Run) {
	rule := r.Rule("part-rows-are-inserted-never-replaced", "F4",
		"insertPartStmt of both dialects is a plain INSERT: no OR REPLACE / OR IGNORE / ON CONFLICT clause", 2)
	n := 0
	for _, s := range collectSQL(w) {
		if s.Entity != "part" || s.Name != "insertPartStmt" {
			continue
		}
		n++
		up := " " + strings.ToUpper(joinToks(s.Toks)) + " "
		r.Check(!strings.Contains(up, " OR REPLACE ") && !strings.Contains(up, " OR IGNORE ") && !strings.Contains(up, " ON CONFLICT "), rule, s.Dialect+"/part.insertPartStmt is a plain INSERT", s.Pos, "INSERT INTO parts", "the insert replaces (or ignores) an existing row with the same object and sequence number: an in-place append whose sequence number collides with a stored part is acknowledged and overwrites that part's row — the object's bytes change under the acknowledged size")
	}
	if n == 0 {
		r.Anchor(rule, "part.insertPartStmt")
	}
}

// checkOversizePartNotCached: a part larger than the cache limit must not be cached at all —
// not even its tail.
func checkOversizePartNotCached(w *World, r *Run) {
	rule := r.Rule("oversize-part-is-not-cache-eligible", "F1",
		"cacheBufferingReader.Read clears cacheEligible on the branch where the buffered size exceeds maxPartSizeBytes", 1)
	var fn *ssa.Function
	for _, f := range w.allFuncs {
		if f.Name() == "Read" && f.Pkg != nil && pkgRel(f.Pkg.Pkg) == relCacheStore && recvNamedOfSig(f.Signature) != nil && recvNamedOfSig(f.Signature).Obj().Name() == "cacheBufferingReader" {
			fn = f
		}
	}
	if fn == nil {
		r.Anchor(rule, relCacheStore+".cacheBufferingReader.Read")
		return
	}
	cleared := false
	allInstrs(fn, false, func(_ *ssa.Function, ins ssa.Instruction) {
		if v, ok := isFieldStore(ins, "cacheEligible"); ok {
			if b, isB := boolConst(v); isB && !b {
				cleared = true
			}
		}
	})
	r.Check(cleared, rule, "cacheBufferingReader.Read gives up caching an oversize part", fn.Pos(), "cacheEligible = false", "the reader drops its buffer for an oversize part but stays cache-eligible: what is buffered afterwards (the tail) is stored as the whole part and every later read returns a short body")
}

// checkS3ClientForwardsSuffixRanges: a range with only an End (suffix range bytes=-N) is a
// range too.
func checkS3ClientForwardsSuffixRanges(w *World, r *Run) {
	rule := r.Rule("s3client-forwards-every-range-form", "F1",
		"in s3ClientStorage.GetObject the Range header is built whenever Start or End is set: the call of byteRangeToAWSRange is not dominated by a nil test of Start alone", 1)
	fn := w.SSAFunc(relS3Client, "s3ClientStorage.GetObject")
	if fn == nil {
		r.Anchor(rule, relS3Client+".s3ClientStorage.GetObject")
		return
	}
	found, bad := false, ""
	allInstrs(fn, false, func(_ *ssa.Function, ins ssa.Instruction) {
		c, ok := ins.(*ssa.Call)
		if !ok || !isCallNamed(c, "byteRangeToAWSRange") {
			return
		}
		found = true
		for _, f := range factsAt(c.Block()) {
			if f.Kind != NonNil {
				continue
			}
			if n, _ := fieldLoadName(f.Val); n == "Start" || n == "End" {
				bad = n
			}
			if ex, ok := f.Val.(*ssa.Field); ok {
				if n := fieldName(ex.X.Type(), ex.Field); n == "Start" || n == "End" {
					bad = n
				}
			}
		}
	})
	r.Check(found && bad == "", rule, "s3client GetObject forwards suffix and open-ended ranges", fn.Pos(), "Start != nil || End != nil", "the Range header is sent only where "+bad+" is set: the other form goes upstream without a Range header, the whole object comes back, and the first bytes are served as the requested range under a Content-Range describing the right one")
}

// checkAuthorizerPathIsDecodedPath: the path the authorizer sees is the decoded URL path, which
// is the same for both addressing styles after the virtual-host rewrite (RawPath is not).
func checkAuthorizerPathIsDecodedPath(w *World, r *Run) {
	rule := r.Rule("authorizer-sees-the-decoded-path", "F9",
		"makeAuthorizationHTTPRequest fills HTTPRequest.Path from r.URL.Path, not from EscapedPath/RawPath/RequestURI", 1)
	fn := w.SSAFunc(relServer, "makeAuthorizationHTTPRequest")
	if fn == nil {
		r.Anchor(rule, relServer+".makeAuthorizationHTTPRequest")
		return
	}
	good, n := true, 0
	for _, st := range fieldStoresIn(fn, false, "HTTPRequest")["Path"] {
		n++
		if nm, _ := fieldLoadName(st.val); nm != "Path" {
			good = false
		}
	}
	r.Check(good && n > 0, rule, "makeAuthorizationHTTPRequest: Path ← r.URL.Path", fn.Pos(), "URL.Path", "the authorizer receives an encoded form of the path: after the virtual-host rewrite the raw path is stale, so the same request is shown to the policy with different paths in the two addressing styles and a path-based policy allows one and refuses the other")
}

// checkErasureConfigArgOrder: the JSON configuration's dataShards/parityShards reach
// NewWithPartStores in that order.
func checkErasureConfigArgOrder(w *World, r *Run, rule string) {
	var fn *ssa.Function
	for _, f := range w.allFuncs {
		if f.Name() == "Instantiate" && f.Pkg != nil && strings.HasSuffix(pkgRel(f.Pkg.Pkg), "partstore/config") && recvNamedOfSig(f.Signature) != nil && strings.HasPrefix(recvNamedOfSig(f.Signature).Obj().Name(), "ErasureCoded") {
			fn = f
		}
	}
	if fn == nil {
		r.Anchor(rule, "partstore/config.ErasureCoded…Instantiate")
		return
	}
	ok := false
	allInstrs(fn, false, func(_ *ssa.Function, ins ssa.Instruction) {
		c, isC := ins.(*ssa.Call)
		if !isC || !isCallNamed(c, "NewWithPartStores") || len(c.Call.Args) < 2 {
			return
		}
		ok = derivesFromFieldOf(c.Call.Args[0], "DataShards", nil) && !derivesFromFieldOf(c.Call.Args[0], "ParityShards", nil) &&
			derivesFromFieldOf(c.Call.Args[1], "ParityShards", nil) && !derivesFromFieldOf(c.Call.Args[1], "DataShards", nil)
	})
	r.Check(ok, rule, "configuration passes (dataShards, parityShards) in order", fn.Pos(), "NewWithPartStores(DataShards, ParityShards, …)", "data and parity counts are swapped on the way from the configuration: a store configured 1+2 is built 2+1 and tolerates one fault instead of two — reads fail although at most parityShards shards are faulty")
}

// checkCacheStoreChecksCopy: a cache value is published only if the whole source was copied.
func checkCacheStoreChecksCopy(w *World, r *Run) {
	rule := r.Rule("cache-file-published-only-after-a-complete-copy", "F1",
		"in the filesystem cache persistor's Store the rename into place is dominated by the nil-error edge of io.Copy", 1)
	fn := w.SSAFunc("internal/cache/persistor/filesystem", "filesystemCachePersistor.Store")
	if fn == nil {
		r.Anchor(rule, "filesystem.filesystemCachePersistor.Store")
		return
	}
	var cp *ssa.Call
	allInstrs(fn, false, func(_ *ssa.Function, ins ssa.Instruction) {
		if c, ok := ins.(*ssa.Call); ok && isCallNamed(c, "Copy") {
			cp = c
		}
	})
	good, n := cp != nil, 0
	allInstrs(fn, false, func(_ *ssa.Function, ins ssa.Instruction) {
		c, ok := ins.(*ssa.Call)
		if !ok || !isCallNamed(c, "Rename") {
			return
		}
		n++
		okEdge := false
		for _, f := range factsAt(c.Block()) {
			if f.Kind == IsNil {
				if cc, idx := callOf(f.Val); cc == cp && idx == 1 {
					okEdge = true
				}
				if sliceContains(f.Val, false, func(x ssa.Value) bool {
					e, ok := x.(*ssa.Extract)
					return ok && cp != nil && e.Tuple == ssa.Value(cp) && e.Index == 1
				}) {
					okEdge = true
				}
			}
		}
		if !okEdge {
			good = false
		}
	})
	r.Check(good && n > 0, rule, "filesystem cache Store renames only after io.Copy succeeded", fn.Pos(), "err == nil of io.Copy dominates os.Rename", "the copy error is not checked before the file is renamed into place: a fill whose source failed mid-stream (the part cache signals \"do not cache\" that way) is published as the complete value and later reads end early without error")
}

// checkJSONNumericWidths: the JSON DTO must not be wider than the audit field it is decoded
// into, or a tampered value outside the field's range wraps back to the original.
func checkJSONNumericWidths(w *World, r *Run) {
	rule := r.Rule("json-dto-numeric-fields-have-the-width-of-the-audit-fields", "F3",
		"every integer field of the json* DTO structs of the serialization package has the same type as the auditlog field it is converted to in JsonDecoder.Decode", 1)
	pkg := w.Pkg("internal/auditlog/serialization")
	if pkg == nil {
		r.Anchor(rule, "internal/auditlog/serialization")
		return
	}
	n := 0
	for _, fn := range w.allFuncs {
		if fn.Pkg == nil || fn.Pkg.Pkg != pkg.Types || !strings.Contains(strings.ToLower(fn.Name()), "decode") {
			continue
		}
		allInstrs(fn, true, func(_ *ssa.Function, ins ssa.Instruction) {
			cv, ok := ins.(*ssa.Convert)
			if !ok {
				return
			}
			from, ok1 := cv.X.Type().Underlying().(*types.Basic)
			to, ok2 := cv.Type().Underlying().(*types.Basic)
			if !ok1 || !ok2 || from.Info()&types.IsInteger == 0 || to.Info()&types.IsInteger == 0 {
				return
			}
			// the source is a field carrying a `json:"…"` tag (the DTO structs are partly anonymous)
			var stT types.Type
			idx := -1
			src := cv.X
			if ld, ok := src.(*ssa.UnOp); ok && ld.Op == token.MUL {
				src = ld.X
			}
			switch x := src.(type) {
			case *ssa.FieldAddr:
				stT, idx = x.X.Type(), x.Field
			case *ssa.Field:
				stT, idx = x.X.Type(), x.Field
			}
			if stT == nil {
				return
			}
			if p, ok := stT.Underlying().(*types.Pointer); ok {
				stT = p.Elem()
			}
			st, ok := stT.Underlying().(*types.Struct)
			if !ok || idx < 0 || idx >= st.NumFields() || !strings.Contains(st.Tag(idx), "json:") {
				return
			}
			nm := st.Field(idx).Name()
			n++
			size := func(b *types.Basic) int64 { return types.SizesFor("gc", "amd64").Sizeof(b) }
			r.Check(size(from) <= size(to), rule, "JsonDecoder: DTO field "+nm+" not wider than its audit field", cv.Pos(), to.Name(), "the DTO field ("+from.Name()+") is wider than the audit field ("+to.Name()+") and is narrowed on decode: a recorded value replaced by value + k·2^32 decodes to the original, so the tampered log verifies")
		})
	}
	if n == 0 {
		r.OK(rule, "JsonDecoder: integer DTO fields", token.NoPos, "no narrowing conversion from a DTO field")
	}
}

// checkEverySubqueryScoped: a statement over an outbox table that contains sub-selects must
// scope each of them by outbox_id, or "the newest entry per part" is computed across all
// outboxes sharing the database.
func checkEverySubqueryScoped(w *World, r *Run, rule string) {
	n := 0
	for _, s := range collectSQL(w) {
		if s.Entity != "partoutboxentry" && s.Entity != "storageoutboxentry" {
			continue
		}
		up := strings.ToUpper(joinToks(s.Toks))
		froms := strings.Count(up, "FROM PART_OUTBOX_ENTRIES") + strings.Count(up, "FROM STORAGE_OUTBOX_ENTRIES")
		if froms < 2 {
			continue
		}
		n++
		scopes := strings.Count(up, "OUTBOX_ID = $")
		r.Check(scopes >= froms, rule, s.Dialect+"/"+s.Entity+"."+s.Name+": every sub-select scoped by outbox_id", s.Pos, "one outbox_id predicate per SELECT", "a sub-select over the outbox table is not scoped by outbox_id: the newest entry per part is taken across all outboxes of the database, so an outbox loses sight of its own pending put or delete (GetPartIds omits committed parts or lists deleted ones)")
	}
	if n == 0 {
		r.OK(rule, "outbox statements with sub-selects", token.NoPos, "none")
	}
}

// checkQueuedPutMetadataGuard: a queued PutObject is replayed with the metadata read back from
// the outbox row; the "entry carries metadata" test must mention every variable the metadata
// literal is then built from, or an entry whose only metadata is the unmentioned field is
// replayed without it.
func checkQueuedPutMetadataGuard(w *World, r *Run, rule string) {
	n := 0
	for _, d := range []string{"sqlite", "pgx"} {
		pkg := w.Pkg(relDBRepo + "/" + d + "/repository/storageoutboxentry")
		if pkg == nil {
			r.Anchor(rule, d+"/storageoutboxentry")
			continue
		}
		for _, file := range pkg.Syntax {
			ast.Inspect(file, func(nd ast.Node) bool {
				ifs, ok := nd.(*ast.IfStmt)
				if !ok {
					return true
				}
				var lit *ast.CompositeLit
				ast.Inspect(ifs.Body, func(x ast.Node) bool {
					if cl, ok := x.(*ast.CompositeLit); ok && lit == nil {
						if tv, ok := pkg.TypesInfo.Types[cl]; ok && strings.HasSuffix(tv.Type.String(), "ObjectMetadata") {
							lit = cl
						}
					}
					return true
				})
				if lit == nil {
					return true
				}
				tested := map[string]bool{}
				ast.Inspect(ifs.Cond, func(x ast.Node) bool {
					if id, ok := x.(*ast.Ident); ok {
						tested[id.Name] = true
					}
					return true
				})
				var missing []string
				for _, e := range lit.Elts {
					kv, ok := e.(*ast.KeyValueExpr)
					if !ok {
						continue
					}
					if id, ok := kv.Value.(*ast.Ident); ok && !tested[id.Name] {
						missing = append(missing, id.Name)
					}
				}
				n++
				r.Check(len(missing) == 0, rule, d+"/storageoutboxentry: metadata of a queued put is rebuilt whenever any field is set", ifs.Pos(), "every literal value is tested in the guard", "the guard does not mention "+strings.Join(missing, ", ")+": a queued PutObject whose only metadata is that field is replayed without metadata, so the secondary (or the inner storage) diverges from what was acknowledged")
				return true
			})
		}
	}
	if n == 0 {
		r.Bad(rule, "storageoutboxentry: metadata guard", token.NoPos, "no guarded ObjectMetadata literal found")
	}
}

// checkCompressionChainsSource: the compression middleware samples the start of a part and
// then reads on from the source; the source must stay chained behind the sample on every
// path, because an error it still has to deliver (a truncated aws-chunked body ends with
// ErrUnexpectedEOF, exactly like a short sample read) must fail the write.
func checkCompressionChainsSource(w *World, r *Run, rule string) {
	fn := w.SSAFunc(relCompression, "PartStoreMiddleware.PutPart")
	if fn == nil {
		r.Anchor(rule, "compression.PartStoreMiddleware.PutPart")
		return
	}
	var src *ssa.Parameter
	for _, p := range fn.Params {
		if strings.HasSuffix(p.Type().String(), "io.Reader") {
			src = p
		}
	}
	n, good := 0, true
	allInstrs(fn, false, func(_ *ssa.Function, ins ssa.Instruction) {
		al, ok := ins.(*ssa.Alloc)
		if !ok || al.Comment != "bodyReader" {
			return
		}
		for _, v := range storesTo(al) {
			n++
			if !sliceContains(v, true, func(x ssa.Value) bool { return x == ssa.Value(src) }) {
				good = false
			}
		}
	})
	if n == 0 {
		// not captured by reference: every MultiReader in the function must include the source
		allInstrs(fn, false, func(_ *ssa.Function, ins ssa.Instruction) {
			if c, ok := ins.(*ssa.Call); ok && isCallNamed(c, "MultiReader") {
				n++
				if !sliceContains(c, true, func(x ssa.Value) bool { return x == ssa.Value(src) }) {
					good = false
				}
			}
		})
	}
	r.Check(good && n > 0 && src != nil, rule, "compression PutPart always reads on from the source after the sample", fn.Pos(), "bodyReader = MultiReader(sample, reader) on every path", "on some path the body is the sample alone: an error the source would still deliver (a short sample read looks the same as a broken chunked upload) is swallowed and the partial bytes are stored as a complete part")
}

// checkSinkRecoveryTracksValidator: when a log file is reopened the sink replays it through
// the validator and must take over the validator's block buffer after every entry — also after
// a GROUNDING entry, which empties it.
func checkSinkRecoveryTracksValidator(w *World, r *Run) {
	rule := r.Rule("recovered-block-buffer-follows-the-validator-after-every-entry", "F1",
		"in sink.NewFileSink the assignment of the validator's HashBuffer to the recovered buffer does not depend on the entry's type", 1)
	fn := w.SSAFunc("internal/auditlog/sink", "NewFileSink")
	if fn == nil {
		r.Anchor(rule, "sink.NewFileSink")
		return
	}
	n, bad := 0, false
	allInstrs(fn, true, func(_ *ssa.Function, ins ssa.Instruction) {
		st, ok := ins.(*ssa.Store)
		if !ok {
			return
		}
		if nm, _ := fieldLoadName(st.Val); nm != "HashBuffer" {
			return
		}
		n++
		for _, f := range factsAt(st.Block()) {
			for _, v := range []ssa.Value{f.Val, f.Other} {
				if v == nil {
					continue
				}
				if nm, _ := fieldLoadName(v); nm == "Type" {
					bad = true
				}
			}
		}
	})
	if n == 0 {
		// value flow without a cell: look at phis fed by a HashBuffer load
		allInstrs(fn, true, func(_ *ssa.Function, ins ssa.Instruction) {
			if ld, ok := ins.(*ssa.UnOp); ok {
				if nm, _ := fieldLoadName(ld); nm == "HashBuffer" {
					n++
					for _, f := range factsAt(ld.Block()) {
						for _, v := range []ssa.Value{f.Val, f.Other} {
							if v == nil {
								continue
							}
							if nm2, _ := fieldLoadName(v); nm2 == "Type" {
								bad = true
							}
						}
					}
				}
			}
		})
	}
	r.Check(n > 0 && !bad, rule, "NewFileSink takes over the validator's block buffer after every recovered entry", fn.Pos(), "unconditional", "the recovered buffer is refreshed only for some entry types: after a GROUNDING entry the validator's buffer is empty but the sink keeps the previous block, so a restart right after a grounding makes the next grounding appear after a single entry and the log fails verification")
}
