package main

import (
	"go/ast"
	"go/types"
	"sort"
	"strings"

	"golang.org/x/tools/go/ssa"
)

// C37 — migration copies every object faithfully.
func init() { register("C37", checkC37) }

const relMigrator = "internal/storage/migrator"

// fields of storage.Object that describe content carried by other means or recomputed by
// the destination; everything else must be read by migrateSingleObject.
var c37ObjectExempt = map[string]string{
	"Key":               "taken from the listing entry that drives the migration",
	"LastModified":      "assigned by the destination at write time",
	"VersionID":         "only current objects are migrated; version ids are assigned by the destination",
	"IsDeleteMarker":    "delete markers are not listed as objects",
	"ETag":              "recomputed by the destination from the copied bytes",
	"ChecksumCRC32":     "recomputed by the destination",
	"ChecksumCRC32C":    "recomputed by the destination",
	"ChecksumCRC64NVME": "recomputed by the destination",
	"ChecksumSHA1":      "recomputed by the destination",
	"ChecksumSHA256":    "recomputed by the destination",
	"ChecksumType":      "recomputed by the destination",
	"Size":              "follows from the copied bytes",
	"Tags":              "fetched with GetObjectTagging because listings/GetObject need not carry tags (checked separately)",
}

func fieldsSelectedIn(info *types.Info, n ast.Node) map[*types.Var]bool {
	out := map[*types.Var]bool{}
	ast.Inspect(n, func(x ast.Node) bool {
		if se, ok := x.(*ast.SelectorExpr); ok {
			if f := selField(info, se); f != nil {
				out[f] = true
			}
		}
		return true
	})
	return out
}

// fieldsAssignedIn: struct fields written through assignment or composite-literal keys.
func fieldsAssignedIn(info *types.Info, n ast.Node) map[*types.Var]bool {
	out := map[*types.Var]bool{}
	ast.Inspect(n, func(x ast.Node) bool {
		switch s := x.(type) {
		case *ast.AssignStmt:
			for _, l := range s.Lhs {
				if f := selField(info, l); f != nil {
					out[f] = true
				}
			}
		case *ast.KeyValueExpr:
			if id, ok := s.Key.(*ast.Ident); ok {
				if f, ok := info.ObjectOf(id).(*types.Var); ok && f.IsField() {
					out[f] = true
				}
			}
		}
		return true
	})
	return out
}

func ownerStructName(w *World, f *types.Var) string {
	// find the named struct declaring f (linear scan over the package scope)
	if f.Pkg() == nil {
		return ""
	}
	sc := f.Pkg().Scope()
	for _, n := range sc.Names() {
		tn, ok := sc.Lookup(n).(*types.TypeName)
		if !ok {
			continue
		}
		st, ok := tn.Type().Underlying().(*types.Struct)
		if !ok {
			continue
		}
		for i := 0; i < st.NumFields(); i++ {
			if st.Field(i) == f {
				return tn.Name()
			}
		}
	}
	return ""
}

func checkC37(w *World, r *Run) {
	ruleEmpty := r.Rule("destination-bucket-must-be-empty", "F1",
		"every call of migrateSingleObject is dominated by len(ListAllObjectsOfBucket(ctx, destination, bucket)) == 0, the other edge returning ErrDestinationNotEmpty", 1)
	ruleRead := r.Rule("migrator-reads-every-content-field", "F3",
		"migrateSingleObject reads every content-describing field of the source storage.Object and every field of its ObjectMetadata (frozen exemptions: identity/derived fields), fetches the tag set and hands all of them to the upload input", 12)
	ruleAdapter := r.Rule("adapter-honours-every-field-the-migrator-sets", "F3",
		"every field of s3.PutObjectInput that migrateSingleObject sets is read by the upload adapter's PutObject and — where the field exists — by its CreateMultipartUpload (the uploader copies the input into the multipart request for large objects)", 20)
	ruleOpts := r.Rule("adapter-forwards-into-storage-options", "F3",
		"the adapter's PutObject/CreateMultipartUpload assign Tags, Metadata and StorageClass of the storage options they pass on", 6)

	// 1. emptiness guard
	single := w.SSAFunc(relMigrator, "migrateSingleObject")
	if single == nil {
		r.Anchor(ruleEmpty, "migrator.migrateSingleObject")
		return
	}
	cs := w.callers[single]
	okAll := len(cs) > 0
	for _, c := range cs {
		good := false
		for _, f := range factsAt(c.Block()) {
			if f.Kind == EqConst && f.Const != nil {
				if k, isc := intConst(f.Const); isc && k == 0 && isLenOf(f.Val, func(v ssa.Value) bool {
					found := false
					backSlice(v, false, func(x ssa.Value) {
						if cc, ok := x.(*ssa.Call); ok {
							if g := calleeObj(cc); g != nil && g.Name() == "ListAllObjectsOfBucket" && len(cc.Call.Args) >= 2 {
								if p, isParam := cc.Call.Args[1].(*ssa.Parameter); isParam && strings.Contains(strings.ToLower(p.Name()), "dest") {
									found = true
								}
							}
						}
					})
					return found
				}) {
					good = true
				}
			}
		}
		if !good {
			okAll = false
		}
	}
	r.Check(okAll, ruleEmpty, "migrateObjectsOfBucket… → migrateSingleObject", single.Pos(), "dominated by an empty destination listing", "objects are written into a destination bucket that was not checked to be empty: existing objects can be overwritten")

	// 2. fields read
	fd := w.Decl(w.Func(relMigrator, "migrateSingleObject"))
	info := w.InfoFor(fd)
	read := fieldsSelectedIn(info, fd.Body)
	objT := w.Named("internal/storage", "Object")
	mdT := w.Named("internal/storage/metadatapart/metadatastore", "ObjectMetadata")
	if objT == nil || mdT == nil {
		r.Anchor(ruleRead, "storage.Object / metadatastore.ObjectMetadata")
		return
	}
	for _, f := range structFieldsOf(objT) {
		cons := "migrateSingleObject reads Object." + f.Name()
		if why, ex := c37ObjectExempt[f.Name()]; ex {
			r.Exempt(ruleRead, cons, f.Pos(), why)
			continue
		}
		r.Check(read[f], ruleRead, cons, fd.Pos(), "read", "the source object's "+f.Name()+" is never read: it cannot reach the destination")
	}
	for _, f := range structFieldsOf(mdT) {
		r.Check(read[f], ruleRead, "migrateSingleObject reads ObjectMetadata."+f.Name(), fd.Pos(), "read", "the source object's metadata field "+f.Name()+" is never read")
	}
	// tags fetched and encoded into input.Tagging
	tagOK := false
	ast.Inspect(fd.Body, func(n ast.Node) bool {
		if kv, ok := n.(*ast.KeyValueExpr); ok {
			if id, ok := kv.Key.(*ast.Ident); ok && id.Name == "Tagging" {
				ast.Inspect(kv.Value, func(y ast.Node) bool {
					if id2, ok := y.(*ast.Ident); ok && id2.Name == "tags" {
						tagOK = true
					}
					return true
				})
			}
		}
		return true
	})
	getTags := false
	ast.Inspect(fd.Body, func(n ast.Node) bool {
		if c, ok := n.(*ast.CallExpr); ok {
			if se, ok := c.Fun.(*ast.SelectorExpr); ok && se.Sel.Name == "GetObjectTagging" {
				getTags = true
			}
		}
		return true
	})
	r.Check(tagOK && getTags, ruleRead, "migrateSingleObject carries the tag set", fd.Pos(), "GetObjectTagging → input.Tagging", "the source tag set is not fetched or not handed to the upload input")

	// 3. adapter agreement
	set := fieldsAssignedIn(info, fd.Body)
	var setNames []string
	for f := range set {
		if ownerStructName(w, f) == "PutObjectInput" {
			setNames = append(setNames, f.Name())
		}
	}
	sort.Strings(setNames)
	for _, m := range []struct{ method, input string }{{"PutObject", "PutObjectInput"}, {"CreateMultipartUpload", "CreateMultipartUploadInput"}} {
		ad := w.Decl(w.Func(relMigrator, "StorageToS3UploadAPIClientAdapter."+m.method))
		if ad == nil {
			r.Anchor(ruleAdapter, "StorageToS3UploadAPIClientAdapter."+m.method)
			continue
		}
		ainfo := w.InfoFor(ad)
		aread := map[string]bool{}
		var inputStruct *types.Struct
		for f := range fieldsSelectedIn(ainfo, ad.Body) {
			if ownerStructName(w, f) == m.input {
				aread[f.Name()] = true
			}
		}
		// locate the input struct type to know which fields exist
		if p := w.ByPath["github.com/aws/aws-sdk-go-v2/service/s3"]; p != nil {
			if tn, ok := p.Types.Scope().Lookup(m.input).(*types.TypeName); ok {
				inputStruct, _ = tn.Type().Underlying().(*types.Struct)
			}
		}
		exists := map[string]bool{}
		if inputStruct != nil {
			for i := 0; i < inputStruct.NumFields(); i++ {
				exists[inputStruct.Field(i).Name()] = true
			}
		}
		for _, name := range setNames {
			cons := "adapter." + m.method + " reads " + m.input + "." + name
			if !exists[name] {
				if name == "Body" {
					continue
				}
				r.Exempt(ruleAdapter, cons, ad.Pos(), "field does not exist on "+m.input)
				continue
			}
			r.Check(aread[name], ruleAdapter, cons, ad.Pos(), "read", "the migrator sets PutObjectInput."+name+" but the adapter's "+m.method+" never reads it: the value is silently dropped on this path")
		}
		// 4. options assigned
		optsName := map[string]string{"PutObject": "PutObjectOptions", "CreateMultipartUpload": "CreateMultipartUploadOptions"}[m.method]
		assigned := map[string]bool{}
		for f := range fieldsAssignedIn(ainfo, ad.Body) {
			if ownerStructName(w, f) == optsName {
				assigned[f.Name()] = true
			}
		}
		for _, of := range []string{"Tags", "Metadata", "StorageClass"} {
			r.Check(assigned[of], ruleOpts, "adapter."+m.method+" sets "+optsName+"."+of, ad.Pos(), "assigned", optsName+"."+of+" is never assigned by the adapter")
		}
	}
	{
		rule := r.Rule("adapter-options-built-whenever-a-value-exists", "F1", "the upload adapter leaves the storage options nil only on paths that established tags, metadata and storage class to be absent", 3)
		checkOptionsGuard(w, r, rule, relMigrator)
	}
	checkMigratorEmptyMetadata(w, r)
	r.NotCovered("byte-for-byte content equality; Expires values that do not parse as HTTP dates (dropped by parseExpires); versions, delete markers and pending uploads of the source (only current objects are migrated by design)")
}
