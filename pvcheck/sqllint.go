package main

import (
	"go/ast"
	"go/constant"
	"go/token"
	"go/types"
	"sort"
	"strings"
	"unicode"
)

// ---- F4: SQL literal lint + dialect sibling agreement --------------------------------------

type sqlStmt struct {
	Dialect string // sqlite | pgx
	Entity  string // repository package name (object, part, ...)
	Name    string // constant name
	Text    string
	Toks    []string
	Pos     token.Pos
	Obj     *types.Const
	UsedBy  []*types.Func // repository methods referencing the constant
}

const relDBRepo = "internal/storage/database"

// collectSQL gathers every string constant whose name ends in "Stmt" (or that starts with a
// SQL verb) from the sqlite and pgx repository packages.
func collectSQL(w *World) []*sqlStmt {
	var out []*sqlStmt
	for _, p := range w.All {
		rel := pkgRel(p.Types)
		var dialect string
		switch {
		case strings.HasPrefix(rel, relDBRepo+"/sqlite/repository/"):
			dialect = "sqlite"
		case strings.HasPrefix(rel, relDBRepo+"/pgx/repository/"):
			dialect = "pgx"
		default:
			continue
		}
		entity := rel[strings.LastIndex(rel, "/")+1:]
		byObj := map[*types.Const]*sqlStmt{}
		sc := p.Types.Scope()
		for _, n := range sc.Names() {
			c, ok := sc.Lookup(n).(*types.Const)
			if !ok || c.Val().Kind() != constant.String {
				continue
			}
			text := constant.StringVal(c.Val())
			if !looksLikeSQL(text) {
				continue
			}
			s := &sqlStmt{Dialect: dialect, Entity: entity, Name: n, Text: text, Toks: sqlTokens(text), Pos: c.Pos(), Obj: c}
			byObj[c] = s
			out = append(out, s)
		}
		// usage: which functions mention the constant
		for _, f := range p.Syntax {
			for _, d := range f.Decls {
				fd, ok := d.(*ast.FuncDecl)
				if !ok || fd.Body == nil {
					continue
				}
				fobj, _ := p.TypesInfo.Defs[fd.Name].(*types.Func)
				ast.Inspect(fd.Body, func(n ast.Node) bool {
					if id, ok := n.(*ast.Ident); ok {
						if c, ok := p.TypesInfo.Uses[id].(*types.Const); ok {
							if s := byObj[c]; s != nil && fobj != nil {
								s.UsedBy = append(s.UsedBy, fobj)
							}
						}
					}
					return true
				})
			}
		}
	}
	sort.Slice(out, func(i, j int) bool {
		a, b := out[i], out[j]
		if a.Entity != b.Entity {
			return a.Entity < b.Entity
		}
		if a.Name != b.Name {
			return a.Name < b.Name
		}
		return a.Dialect < b.Dialect
	})
	return out
}

func looksLikeSQL(s string) bool {
	t := strings.ToUpper(strings.TrimSpace(s))
	for _, v := range []string{"SELECT ", "INSERT ", "UPDATE ", "DELETE ", "WITH "} {
		if strings.HasPrefix(t, v) {
			return true
		}
	}
	return false
}

// sqlTokens splits a statement into upper-cased keywords/identifiers (identifiers keep
// their case folded to lower), parameters ($n), quoted literals and operators.
func sqlTokens(s string) []string {
	var toks []string
	rs := []rune(s)
	for i := 0; i < len(rs); {
		c := rs[i]
		switch {
		case unicode.IsSpace(c):
			i++
		case c == '\'':
			j := i + 1
			for j < len(rs) {
				if rs[j] == '\'' {
					if j+1 < len(rs) && rs[j+1] == '\'' {
						j += 2
						continue
					}
					break
				}
				j++
			}
			toks = append(toks, string(rs[i:min(j+1, len(rs))]))
			i = j + 1
		case c == '$' && i+1 < len(rs) && unicode.IsDigit(rs[i+1]):
			j := i + 1
			for j < len(rs) && unicode.IsDigit(rs[j]) {
				j++
			}
			toks = append(toks, string(rs[i:j]))
			i = j
		case unicode.IsLetter(c) || c == '_':
			j := i
			for j < len(rs) && (unicode.IsLetter(rs[j]) || unicode.IsDigit(rs[j]) || rs[j] == '_' || rs[j] == '.') {
				j++
			}
			word := string(rs[i:j])
			if sqlKeywords[strings.ToUpper(word)] {
				toks = append(toks, strings.ToUpper(word))
			} else {
				toks = append(toks, strings.ToLower(word))
			}
			i = j
		case unicode.IsDigit(c):
			j := i
			for j < len(rs) && (unicode.IsDigit(rs[j]) || rs[j] == '.') {
				j++
			}
			toks = append(toks, string(rs[i:j]))
			i = j
		default:
			// multi-char operators
			two := ""
			if i+1 < len(rs) {
				two = string(rs[i : i+2])
			}
			switch two {
			case "||", "<>", "!=", "<=", ">=", "::":
				toks = append(toks, two)
				i += 2
			default:
				toks = append(toks, string(c))
				i++
			}
		}
	}
	return toks
}

var sqlKeywords = func() map[string]bool {
	m := map[string]bool{}
	for _, k := range strings.Fields("SELECT FROM WHERE AND OR NOT IN IS NULL LIKE ILIKE GLOB ESCAPE ORDER BY ASC DESC LIMIT OFFSET INSERT INTO VALUES UPDATE SET DELETE ON CONFLICT DO NOTHING REPLACE FOR SKIP LOCKED RETURNING COUNT COALESCE NULLIF TRUE FALSE AS DISTINCT GROUP HAVING JOIN LEFT INNER OUTER EXISTS CASE WHEN THEN ELSE END UNION ALL WITH MAX MIN SUM EXCLUDED IGNORE") {
		m[k] = true
	}
	return m
}()

// normalizeDialect maps a pgx statement's tokens onto the sqlite spelling using the frozen
// dialect table: TRUE/FALSE ↔ 1/0, trailing FOR UPDATE [SKIP LOCKED] dropped, ::type casts
// dropped.
func normalizeDialect(toks []string) []string {
	var out []string
	for i := 0; i < len(toks); i++ {
		t := toks[i]
		switch t {
		case "TRUE":
			out = append(out, "1")
		case "FALSE":
			out = append(out, "0")
		case "::":
			i++ // skip type name
		case "FOR":
			if i+1 < len(toks) && toks[i+1] == "UPDATE" {
				i++
				if i+2 < len(toks) && toks[i+1] == "SKIP" && toks[i+2] == "LOCKED" {
					i += 2
				}
				continue
			}
			out = append(out, t)
		default:
			out = append(out, t)
		}
	}
	return out
}

// normalizeUpsert strips the dialect-specific conflict handling of an INSERT and reports its
// kind: sqlite "INSERT OR REPLACE|IGNORE INTO" ↔ pgx "... ON CONFLICT (..) DO UPDATE SET ..|DO NOTHING".
func normalizeUpsert(toks []string) ([]string, string) {
	kind := ""
	if len(toks) > 3 && toks[0] == "INSERT" && toks[1] == "OR" {
		switch toks[2] {
		case "REPLACE":
			kind = "replace"
		case "IGNORE":
			kind = "ignore"
		}
		toks = append([]string{"INSERT"}, toks[3:]...)
	}
	depth := 0
	for i := 0; i+1 < len(toks); i++ {
		switch toks[i] {
		case "(":
			depth++
		case ")":
			depth--
		}
		if depth == 0 && toks[i] == "ON" && toks[i+1] == "CONFLICT" {
			tail := toks[i:]
			n := len(tail)
			if n >= 2 && tail[n-2] == "DO" && tail[n-1] == "NOTHING" {
				kind = "ignore"
			} else if containsTok(tail, "UPDATE") {
				kind = "replace"
			}
			return toks[:i], kind
		}
	}
	return toks, kind
}

// clause returns the tokens of the top-level clause that starts after keyword kw (e.g. WHERE)
// and ends before the next top-level clause keyword.
func sqlClause(toks []string, kw ...string) []string {
	depth := 0
	start := -1
	for i := 0; i < len(toks); i++ {
		switch toks[i] {
		case "(":
			depth++
		case ")":
			depth--
		}
		if depth != 0 {
			continue
		}
		if start < 0 {
			if matchSeq(toks, i, kw) {
				start = i + len(kw)
				i += len(kw) - 1
			}
			continue
		}
		if isClauseStart(toks, i) {
			return toks[start:i]
		}
	}
	if start < 0 {
		return nil
	}
	return toks[start:]
}

func matchSeq(toks []string, i int, seq []string) bool {
	if i+len(seq) > len(toks) {
		return false
	}
	for k, s := range seq {
		if toks[i+k] != s {
			return false
		}
	}
	return true
}

func isClauseStart(toks []string, i int) bool {
	switch toks[i] {
	case "WHERE", "LIMIT", "OFFSET", "RETURNING", "GROUP", "HAVING", "SET", "VALUES", "FROM":
		return true
	case "ORDER":
		return i+1 < len(toks) && toks[i+1] == "BY"
	case "FOR":
		return i+1 < len(toks) && toks[i+1] == "UPDATE"
	case "ON":
		return i+1 < len(toks) && toks[i+1] == "CONFLICT"
	}
	return false
}

// splitTop splits tokens at top-level occurrences of sep (e.g. AND or ",").
func splitTop(toks []string, sep string) [][]string {
	var out [][]string
	depth := 0
	cur := []string{}
	for _, t := range toks {
		switch t {
		case "(":
			depth++
		case ")":
			depth--
		}
		if depth == 0 && t == sep {
			out = append(out, cur)
			cur = []string{}
			continue
		}
		cur = append(cur, t)
	}
	if len(cur) > 0 {
		out = append(out, cur)
	}
	return out
}

func joinToks(t []string) string { return strings.Join(t, " ") }

// hasConjunct reports whether the WHERE clause has a top-level conjunct equal to want
// (token-joined, case-normalised).
func hasConjunct(where []string, want string) bool {
	for _, c := range splitTop(where, "AND") {
		if joinToks(c) == want {
			return true
		}
	}
	return false
}

func containsTok(toks []string, t string) bool {
	for _, x := range toks {
		if x == t {
			return true
		}
	}
	return false
}

func stmtVerb(s *sqlStmt) string {
	if len(s.Toks) == 0 {
		return ""
	}
	return s.Toks[0]
}

// stmtTable returns the table a statement operates on.
func stmtTable(s *sqlStmt) string {
	t := s.Toks
	for i := 0; i+1 < len(t); i++ {
		switch {
		case t[i] == "FROM", t[i] == "INTO":
			return t[i+1]
		case t[i] == "UPDATE" && i == 0:
			return t[i+1]
		}
	}
	return ""
}

// siblings pairs statements of the same entity and constant name across dialects.
func sqlSiblings(stmts []*sqlStmt) map[string][2]*sqlStmt {
	out := map[string][2]*sqlStmt{}
	for _, s := range stmts {
		k := s.Entity + "." + s.Name
		p := out[k]
		if s.Dialect == "sqlite" {
			p[0] = s
		} else {
			p[1] = s
		}
		out[k] = p
	}
	return out
}
