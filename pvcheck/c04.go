package main

import (
	"fmt"
	"go/constant"
	"go/token"
	"go/types"
	"sort"
	"strings"

	"golang.org/x/tools/go/ssa"
)

// C04 — ETags and checksums always describe the stored bytes.
// C35 — checksum arithmetic is exact (the structural part: see checkChecksumUtils).
func init() {
	register("C04", checkC04)
	register("C35", checkC35)
}

const relChecksum = "internal/checksumutils"

var checksumFieldNames = map[string]bool{
	"ETag": true, "ChecksumCRC32": true, "ChecksumCRC32C": true, "ChecksumCRC64NVME": true, "ChecksumSHA1": true, "ChecksumSHA256": true,
}

// the write methods of storage.Storage / MetadataStore that receive a *ChecksumInput
var checksumMethods = map[string]bool{"PutObject": true, "AppendObject": true, "UploadPart": true, "CompleteMultipartUpload": true}

func isChecksumInputPtr(t types.Type) bool {
	p, ok := types.Unalias(t).(*types.Pointer)
	if !ok {
		return false
	}
	n, ok := types.Unalias(p.Elem()).(*types.Named)
	return ok && n.Obj().Name() == "ChecksumInput"
}

// structNameOf: the named struct a FieldAddr/Field selects from.
func structNameOf(t types.Type) string {
	if p, ok := types.Unalias(t).(*types.Pointer); ok {
		t = p.Elem()
	}
	if n, ok := types.Unalias(t).(*types.Named); ok {
		return n.Obj().Name()
	}
	return ""
}

func checkC04(w *World, r *Run) {
	ruleUse := r.Rule("supplied-checksums-are-validated-or-forwarded", "F1",
		"every implementation of PutObject / AppendObject / UploadPart / CompleteMultipartUpload that receives a *ChecksumInput hands it unchanged to the same operation of the storage it wraps, validates it with ValidateChecksums, or (S3 client) encodes its fields into the request; no inner call of the same operation receives anything else in that position", 30)
	ruleGate := r.Rule("validation-gates-the-metadata-write", "F1",
		"where ValidateChecksums is called its arguments are the method's own checksumInput and the checksums calculated over the written stream, its error is returned, and every metadata write of the function is dominated by its success", 5)
	ruleSame := r.Rule("checksum-fields-copied-by-name", "F3",
		"a value loaded from an ETag/Checksum* field is only ever stored into the field of the same name (no swapped algorithms between calculated values, part rows, object rows and results)", 150)
	ruleCalc := r.Rule("recorded-values-come-from-the-hashed-stream", "F9",
		"in package metadatapart the doRead callback of CalculateChecksumsStreaming stores exactly the reader it is handed (the hashed stream is the stored stream) and the Size/ETag/Checksum* recorded for a new part derive from that call's results", 12)
	ruleVal := r.Rule("validate-compares-all-six", "F3",
		"ValidateChecksums compares each of the six supplied values with the calculated value of the same name and answers ErrBadDigest on a difference", 6)
	ruleMP := r.Rule("multipart-checksum-inputs", "F3",
		"CompleteMultipartUpload feeds CalculateMultipartChecksums one PartChecksums per part row, every field taken from the same-named column, in the order of a statement that sorts by sequence_number ascending", 9)

	// ---- 1. use of the parameter
	var fns []*ssa.Function
	for _, fn := range w.allFuncs {
		if fn.Parent() != nil || fn.Signature.Recv() == nil || !checksumMethods[fn.Name()] {
			continue
		}
		fns = append(fns, fn)
	}
	for _, fn := range fns {
		var p *ssa.Parameter
		pi := -1
		for i, x := range fn.Params {
			if isChecksumInputPtr(x.Type()) {
				p, pi = x, i
			}
		}
		if p == nil {
			continue
		}
		cons := funcName(fn) + " checksumInput"
		forwarded, validated, fieldsRead := false, false, false
		forwardReaches(p, func(u ssa.Instruction, via ssa.Value) bool {
			switch x := u.(type) {
			case ssa.CallInstruction:
				name := ""
				if x.Common().IsInvoke() {
					name = x.Common().Method.Name()
				} else if f := calleeObj(x); f != nil {
					name = f.Name()
				}
				for _, a := range x.Common().Args {
					if a == via {
						if name == fn.Name() {
							forwarded = true
						}
						if name == "ValidateChecksums" {
							validated = true
						}
					}
				}
			case *ssa.FieldAddr:
				if x.X == via {
					fieldsRead = true
				}
			}
			return false
		})
		// inner calls of the same operation must receive the parameter
		wrong := ""
		allInstrs(fn, true, func(_ *ssa.Function, ins ssa.Instruction) {
			c, ok := ins.(ssa.CallInstruction)
			if !ok || !c.Common().IsInvoke() || c.Common().Method.Name() != fn.Name() {
				return
			}
			sig := c.Common().Signature()
			for i := 0; i < sig.Params().Len(); i++ {
				if !isChecksumInputPtr(sig.Params().At(i).Type()) {
					continue
				}
				a := c.Common().Args[i]
				if !sliceContains(a, false, func(x ssa.Value) bool { return x == ssa.Value(p) }) {
					wrong = w.Pos(posOf(ins))
				}
			}
		})
		_ = pi
		rel := pkgRel(fn.Pkg.Pkg)
		switch {
		case wrong != "":
			r.Bad(ruleUse, cons, fn.Pos(), "the inner "+fn.Name()+" at "+wrong+" does not receive the caller's checksumInput: a supplied checksum that disagrees with the body is no longer rejected")
		case forwarded:
			r.OK(ruleUse, cons, fn.Pos(), "forwarded unchanged")
		case validated:
			r.OK(ruleUse, cons, fn.Pos(), "validated with ValidateChecksums")
		case rel == relS3Client && fieldsRead:
			r.OK(ruleUse, cons, fn.Pos(), "encoded into the S3 request (field coverage: C38)")
		case rel == relS3Client && !fieldsRead:
			// AppendObject is unimplemented in the S3 client (C38 finding); nothing is written
			if allReturnsFail(fn) {
				r.Exempt(ruleUse, cons, fn.Pos(), "the method performs no write (always fails)")
			} else {
				r.Bad(ruleUse, cons, fn.Pos(), "checksumInput is ignored")
			}
		default:
			r.Bad(ruleUse, cons, fn.Pos(), "checksumInput is neither forwarded nor validated: a supplied checksum or Content-MD5 that disagrees with the body does not fail the write")
		}
	}

	// ---- 2. gate
	var valFn *types.Func = w.Func(relMDStore, "ValidateChecksums")
	if valFn == nil {
		r.Anchor(ruleGate, "metadatastore.ValidateChecksums")
		return
	}
	for _, fn := range w.allFuncs {
		for _, c := range callsTo(fn, false, func(f *types.Func) bool { return f == valFn }) {
			call, ok := c.(*ssa.Call)
			top := topFunc(fn)
			cons := funcName(top) + " → ValidateChecksums"
			if !ok {
				r.Bad(ruleGate, cons, posOf(c), "deferred or go'd validation cannot gate anything")
				continue
			}
			// arg0: the enclosing method's own parameter
			a0ok := sliceContains(call.Call.Args[0], false, func(x ssa.Value) bool {
				if prm, isP := x.(*ssa.Parameter); isP && isChecksumInputPtr(prm.Type()) && prm.Parent() == top {
					return true
				}
				if fv, isFV := x.(*ssa.FreeVar); isFV {
					if b := bindingOf(fv); b != nil {
						return sliceContains(b, false, func(y ssa.Value) bool {
							prm, isP := y.(*ssa.Parameter)
							return isP && isChecksumInputPtr(prm.Type()) && prm.Parent() == top
						})
					}
				}
				return false
			})
			a1ok := sliceContains(call.Call.Args[1], false, func(x ssa.Value) bool {
				return isCallNamed(x, "CalculateChecksumsStreaming", "CalculateMultipartChecksums")
			})
			// error handled: returned directly, or the non-nil edge only fails
			handled := false
			for _, ref := range *call.Referrers() {
				if ret, isRet := ref.(*ssa.Return); isRet && isErrorType(call.Type()) {
					_ = ret
					handled = true
				}
			}
			if !handled {
				for _, b := range fn.Blocks {
					for k := range b.Succs {
						if len(b.Succs) != 2 {
							continue
						}
						for _, f := range edgeFacts(b, k) {
							if f.Kind == NonNil && sliceContains(f.Val, false, func(x ssa.Value) bool { return x == ssa.Value(call) }) {
								tgt := b.Succs[k]
								allFail := true
								sinks := sinksReachable(firstInstr(tgt), nil, nil, func(i ssa.Instruction) bool { _, isRet := i.(*ssa.Return); return isRet })
								if ret, isRet := firstInstr(tgt).(*ssa.Return); isRet {
									sinks = append(sinks, ret)
								}
								for _, s := range sinks {
									if !isFailureReturn(s.(*ssa.Return)) {
										allFail = false
									}
								}
								if allFail && len(sinks) > 0 {
									handled = true
								}
							}
						}
					}
				}
			}
			// writes dominated
			undominated := ""
			allInstrs(fn, false, func(_ *ssa.Function, ins ssa.Instruction) {
				isWrite := false
				if mc, m := mdStoreInvoke(ins); mc != nil && c08PartWriters[m] {
					isWrite = true
				}
				if ci, ok := ins.(ssa.CallInstruction); ok && ci.Common().IsInvoke() && pkgRel(fn.Pkg.Pkg) == relSQLStore {
					if n := recvNamedOfInvoke(ci); n != nil && n.Obj().Pkg() != nil && strings.HasSuffix(n.Obj().Pkg().Path(), "repository/object") {
						mn := ci.Common().Method.Name()
						if strings.HasPrefix(mn, "Save") || strings.HasPrefix(mn, "Update") || strings.HasPrefix(mn, "Delete") {
							isWrite = true
						}
					}
				}
				if !isWrite {
					return
				}
				okDom := false
				if instrDominates(call, ins) {
					for _, f := range factsAt(ins.Block()) {
						if f.Kind == IsNil && sliceContains(f.Val, false, func(x ssa.Value) bool { return x == ssa.Value(call) }) {
							okDom = true
						}
					}
				}
				if !okDom {
					undominated = w.Pos(posOf(ins))
				}
			})
			switch {
			case !a0ok:
				r.Bad(ruleGate, cons, posOf(c), "the validated input is not the method's own checksumInput parameter")
			case !a1ok:
				r.Bad(ruleGate, cons, posOf(c), "the values validated against are not the result of CalculateChecksumsStreaming / CalculateMultipartChecksums")
			case !handled:
				r.Bad(ruleGate, cons, posOf(c), "the validation result is not returned: a bad digest does not fail the write")
			case undominated != "":
				r.Bad(ruleGate, cons, posOf(c), "the metadata write at "+undominated+" is not dominated by a successful validation")
			default:
				r.OK(ruleGate, cons, posOf(c), "own input × calculated values, error returned, writes dominated")
			}
		}
	}

	checkChecksumFieldNames(w, r, ruleSame)
	checkC04Calc(w, r, ruleCalc)
	checkC04Validate(w, r, ruleVal)
	checkC04Multipart(w, r, ruleMP)
	checkC04AppendRow(w, r)
	checkChecksumUtils(w, r, "C04")
	r.NotCovered("the digest values themselves (that md5/crc/sha of the bytes equal the strings recorded); the chunking independence of the parallel hash writer beyond flush-before-sum; ETag '-N' arithmetic for appended objects over arbitrary histories; what wrapped remote storages (S3 client) do with the checksums")
}

func firstInstr(b *ssa.BasicBlock) ssa.Instruction { return b.Instrs[0] }

// checkC04AppendRow: the in-place append rewrites ETag and Size of the existing row; the
// whole-content checksum columns of that row describe the content before the append and
// must not survive it.
func checkC04AppendRow(w *World, r *Run) {
	rule := r.Rule("appended-row-carries-no-stale-checksums", "F9",
		"the row sqlMetadataStore.AppendObject writes back for an in-place append takes none of ChecksumCRC32/CRC32C/CRC64NVME/SHA1/SHA256 from the row it read (they describe the content before the append)", 1)
	fn := w.SSAFunc(relSQLStore, "sqlMetadataStore.AppendObject")
	if fn == nil {
		r.Anchor(rule, "sqlMetadataStore.AppendObject")
		return
	}
	var cas *ssa.Call
	allInstrs(fn, false, func(_ *ssa.Function, ins ssa.Instruction) {
		if c, ok := ins.(*ssa.Call); ok && isCallNamed(c, "UpdateObjectByIdAndOptimisticLockVersion") {
			cas = c
		}
	})
	if cas == nil {
		r.Anchor(rule, "sqlMetadataStore.AppendObject → UpdateObjectByIdAndOptimisticLockVersion")
		return
	}
	ent, ok := stripConv(cas.Call.Args[len(cas.Call.Args)-2]).(*ssa.Alloc)
	if !ok {
		// the loaded row itself is written back: all its columns survive
		r.Bad(rule, "AppendObject in-place row", posOf(cas), "the row that was read is written back as a whole: its checksum columns still describe the content before the append")
		return
	}
	isRow := func(x ssa.Value) bool { return isCallNamed(x, "FindObjectByBucketNameAndKey") }
	wholeFromRow := false
	for _, v := range storesTo(ent) {
		// a whole-struct copy *oldRow (not a literal whose fields merely mention the row)
		if ld, ok := stripConv(v).(*ssa.UnOp); ok && ld.Op == token.MUL {
			if _, isLit := ld.X.(*ssa.Alloc); !isLit && sliceContains(ld.X, false, isRow) {
				wholeFromRow = true
			}
		}
	}
	stale := ""
	for name := range checksumFieldNames {
		if name == "ETag" {
			continue
		}
		overwritten, fromRow := false, false
		for _, ref := range *ent.Referrers() {
			fa, ok := ref.(*ssa.FieldAddr)
			if !ok || fieldName(fa.X.Type(), fa.Field) != name {
				continue
			}
			for _, v := range storesTo(fa) {
				overwritten = true
				if sliceContains(v, false, isRow) {
					fromRow = true
				}
			}
		}
		if fromRow || (wholeFromRow && !overwritten) {
			stale = name
		}
	}
	r.Check(stale == "", rule, "AppendObject in-place row", posOf(cas), "checksum columns are not inherited from the previous row", "the appended row keeps "+stale+" of the row it read: HEAD/GET keep reporting the checksum of the content before the append")
}

func allReturnsFail(fn *ssa.Function) bool {
	rets := returnsOf(fn)
	for _, ret := range rets {
		if !isFailureReturn(ret) {
			return false
		}
	}
	return len(rets) > 0
}

// checkChecksumFieldNames: the same-name copy rule over the whole tree.
func checkChecksumFieldNames(w *World, r *Run, rule string) {
	type key struct{ fn, dst, src string }
	seen := map[key]bool{}
	for _, fn := range w.allFuncs {
		if fn.Pkg == nil {
			continue
		}
		rel := pkgRel(fn.Pkg.Pkg)
		if strings.HasPrefix(rel, "internal/storage/database/") && strings.Contains(rel, "/repository/") {
			continue // row scanning: columns are paired with fields by the SQL rules (C01/C06)
		}
		for _, b := range fn.Blocks {
			for _, ins := range b.Instrs {
				st, ok := ins.(*ssa.Store)
				if !ok {
					continue
				}
				fa, ok := st.Addr.(*ssa.FieldAddr)
				if !ok {
					continue
				}
				dst := fieldName(fa.X.Type(), fa.Field)
				if !checksumFieldNames[dst] {
					continue
				}
				// nearest checksum-field loads feeding the value
				srcs := checksumSources(st.Val, 0, map[ssa.Value]bool{})
				for _, src := range srcs {
					k := key{funcName(topFunc(fn)), structNameOf(fa.X.Type()) + "." + dst, src}
					if seen[k] {
						continue
					}
					seen[k] = true
					cons := k.fn + ": " + k.dst + " ← " + src
					srcField := src[strings.LastIndex(src, ".")+1:]
					r.Check(srcField == dst, rule, cons, posOf(st), "same name", "a "+srcField+" value is recorded as "+dst+": readers are told a checksum of a different algorithm")
				}
			}
		}
	}
}

// checksumSources lists "Struct.Field" for the checksum-named field loads a value is copied
// from (through loads, derefs, conversions and phis; not through calls or arithmetic).
func checksumSources(v ssa.Value, depth int, seen map[ssa.Value]bool) []string {
	if v == nil || seen[v] || depth > 12 {
		return nil
	}
	seen[v] = true
	switch x := v.(type) {
	case *ssa.UnOp:
		if x.Op != token.MUL {
			return nil
		}
		if fa, ok := x.X.(*ssa.FieldAddr); ok {
			n := fieldName(fa.X.Type(), fa.Field)
			if checksumFieldNames[n] {
				return []string{structNameOf(fa.X.Type()) + "." + n}
			}
			return nil
		}
		var out []string
		out = append(out, checksumSources(x.X, depth+1, seen)...)
		if a, ok := x.X.(*ssa.Alloc); ok {
			for _, s := range storesTo(a) {
				out = append(out, checksumSources(s, depth+1, seen)...)
			}
		}
		return out
	case *ssa.Field:
		n := fieldName(x.X.Type(), x.Field)
		if checksumFieldNames[n] {
			return []string{structNameOf(x.X.Type()) + "." + n}
		}
	case *ssa.Phi:
		var out []string
		for _, e := range x.Edges {
			out = append(out, checksumSources(e, depth+1, seen)...)
		}
		return out
	case *ssa.ChangeType:
		return checksumSources(x.X, depth+1, seen)
	case *ssa.Convert:
		return checksumSources(x.X, depth+1, seen)
	case *ssa.MakeInterface:
		return checksumSources(x.X, depth+1, seen)
	case *ssa.Alloc:
		var out []string
		for _, s := range storesTo(x) {
			out = append(out, checksumSources(s, depth+1, seen)...)
		}
		return out
	case *ssa.Call:
		// ptrutils.ToPtr(x) and friends: a generic pointer-maker of one argument
		if f := calleeObj(x); f != nil && f.Name() == "ToPtr" && len(x.Call.Args) == 1 {
			return checksumSources(x.Call.Args[0], depth+1, seen)
		}
	}
	return nil
}

func checkC04Calc(w *World, r *Run, rule string) {
	ccs := w.Func(relChecksum, "CalculateChecksumsStreaming")
	if ccs == nil {
		r.Anchor(rule, "checksumutils.CalculateChecksumsStreaming")
		return
	}
	ord := map[string]int{}
	for _, fn := range w.allFuncs {
		if fn.Pkg == nil || pkgRel(fn.Pkg.Pkg) != relMP {
			continue
		}
		for _, c := range callsTo(fn, false, func(f *types.Func) bool { return f == ccs }) {
			top := funcName(topFunc(fn))
			ord[top]++
			cons := fmt.Sprintf("%s: CalculateChecksumsStreaming #%d stores the hashed reader", top, ord[top])
			var lit *ssa.Function
			switch x := c.Common().Args[2].(type) {
			case *ssa.MakeClosure:
				lit, _ = x.Fn.(*ssa.Function)
			case *ssa.Function:
				lit = x
			}
			if lit == nil {
				r.Unk(rule, cons, posOf(c), "doRead is not a function literal")
				continue
			}
			puts := 0
			good := true
			allInstrs(lit, false, func(_ *ssa.Function, ins ssa.Instruction) {
				ci, ok := ins.(ssa.CallInstruction)
				if !ok || !ci.Common().IsInvoke() || ci.Common().Method.Name() != "PutPart" {
					return
				}
				puts++
				args := ci.Common().Args
				if unspill(args[len(args)-1]) != ssa.Value(lit.Params[0]) {
					good = false
				}
			})
			r.Check(good && puts == 1, rule, cons, posOf(c), "PutPart(…, the callback's reader)", "the bytes stored with PutPart are not read from the reader the checksums are calculated over: the recorded ETag/checksums describe a different stream than the stored part")
		}
	}
	// recorded Size / checksum fields of new parts and objects
	allowedLeaf := func(x ssa.Value) (bool, bool) { // (recognised, fromCalc)
		switch y := x.(type) {
		case *ssa.Extract:
			if c, ok := y.Tuple.(*ssa.Call); ok {
				if f := calleeObj(c); f == ccs {
					return true, true
				}
				if isCallNamed(c, "CalculateMultipartChecksums") {
					return true, true
				}
			}
		case *ssa.Const:
			return true, false
		}
		return false, false
	}
	n := map[string]int{}
	for _, fn := range w.allFuncs {
		if fn.Pkg == nil || pkgRel(fn.Pkg.Pkg) != relMP {
			continue
		}
		for _, b := range fn.Blocks {
			for _, ins := range b.Instrs {
				st, ok := ins.(*ssa.Store)
				if !ok {
					continue
				}
				fa, ok := st.Addr.(*ssa.FieldAddr)
				if !ok {
					continue
				}
				sn := structNameOf(fa.X.Type())
				if sn != "Part" && sn != "Object" {
					continue
				}
				dst := fieldName(fa.X.Type(), fa.Field)
				if dst != "Size" && !checksumFieldNames[dst] {
					continue
				}
				top := funcName(topFunc(fn))
				kcons := top + ": " + sn + "." + dst
				n[kcons]++
				cons := fmt.Sprintf("%s #%d", kcons, n[kcons])
				// leaves of the value
				fromCalc, fromField, other := false, false, ""
				backSlice(st.Val, false, func(x ssa.Value) {
					if rec, calc := allowedLeaf(x); rec {
						if calc {
							fromCalc = true
						}
						return
					}
					switch y := x.(type) {
					case *ssa.FieldAddr:
						fn2 := fieldName(y.X.Type(), y.Field)
						if fn2 == dst && structNameOf(y.X.Type()) != "ChecksumValues" {
							fromField = true
						}
					case *ssa.Field:
						if fieldName(y.X.Type(), y.Field) == dst {
							fromField = true
						}
					case *ssa.Parameter:
						if y.Parent() == topFunc(fn) && !isChecksumInputPtr(y.Type()) && y.Name() != "mbs" {
							other = "parameter " + y.Name()
						}
					case *ssa.Call:
						if !isCallNamed(y, "CalculateChecksumsStreaming", "CalculateMultipartChecksums", "len") {
							if f := calleeObj(y); f != nil {
								// results of metadata lookups carry recorded values (copied by name)
								if _, m := mdStoreInvoke(y); m == "" {
									other = "call " + f.Name()
								}
							}
						}
					}
				})
				switch {
				case other != "" && !fromCalc && !fromField:
					r.Bad(rule, cons, posOf(st), "recorded from "+other+", not from the checksums calculated over the stored stream nor copied from an existing row")
				case fromCalc || fromField:
					r.OK(rule, cons, posOf(st), "calculated over the stored stream or copied from the same-named recorded field")
				default:
					r.Bad(rule, cons, posOf(st), "the recorded value has no recognised origin (neither calculated nor copied)")
				}
			}
		}
	}
}

func checkC04Validate(w *World, r *Run, rule string) {
	fn := w.SSAFunc(relMDStore, "ValidateChecksums")
	if fn == nil {
		r.Anchor(rule, "metadatastore.ValidateChecksums")
		return
	}
	found := map[string]bool{}
	for _, b := range fn.Blocks {
		if len(b.Succs) != 2 || len(b.Instrs) == 0 {
			continue
		}
		iff, ok := b.Instrs[len(b.Instrs)-1].(*ssa.If)
		if !ok {
			continue
		}
		bo, ok := iff.Cond.(*ssa.BinOp)
		if !ok || bo.Op != token.NEQ {
			continue
		}
		side := func(v ssa.Value) (string, int) {
			name, pidx := "", -1
			backSlice(v, false, func(x ssa.Value) {
				if fa, ok := x.(*ssa.FieldAddr); ok {
					name = fieldName(fa.X.Type(), fa.Field)
				}
				if f, ok := x.(*ssa.Field); ok {
					name = fieldName(f.X.Type(), f.Field)
				}
				if p, ok := x.(*ssa.Parameter); ok {
					pidx = paramIndex(fn, p)
				}
			})
			return name, pidx
		}
		n0, p0 := side(bo.X)
		n1, p1 := side(bo.Y)
		if n0 == "" || n0 != n1 || p0 == p1 || p0 < 0 || p1 < 0 {
			continue
		}
		// true edge returns ErrBadDigest
		tgt := b.Succs[0]
		bad := false
		for _, ins := range tgt.Instrs {
			if ret, ok := ins.(*ssa.Return); ok {
				if ld, ok := stripConv(retResult(ret, 0)).(*ssa.UnOp); ok {
					if g, ok := ld.X.(*ssa.Global); ok && g.Name() == "ErrBadDigest" {
						bad = true
					}
				}
			}
		}
		if bad {
			found[n0] = true
		}
	}
	var names []string
	for n := range checksumFieldNames {
		names = append(names, n)
	}
	sort.Strings(names)
	for _, n := range names {
		r.Check(found[n], rule, "ValidateChecksums compares "+n, fn.Pos(), "*input."+n+" != *calculated."+n+" → ErrBadDigest", "a supplied "+n+" that disagrees with the calculated value does not fail with ErrBadDigest")
	}
}

func checkC04Multipart(w *World, r *Run, rule string) {
	fn := w.SSAFunc(relSQLStore, "sqlMetadataStore.CompleteMultipartUpload")
	if fn == nil {
		r.Anchor(rule, "sqlMetadataStore.CompleteMultipartUpload")
		return
	}
	pc := w.Named(relChecksum, "PartChecksums")
	if pc == nil {
		r.Anchor(rule, "checksumutils.PartChecksums")
		return
	}
	assigned := map[string]string{}
	allInstrs(fn, false, func(_ *ssa.Function, ins ssa.Instruction) {
		st, ok := ins.(*ssa.Store)
		if !ok {
			return
		}
		fa, ok := st.Addr.(*ssa.FieldAddr)
		if !ok || structNameOf(fa.X.Type()) != "PartChecksums" {
			return
		}
		dst := fieldName(fa.X.Type(), fa.Field)
		src := ""
		backSlice(st.Val, false, func(x ssa.Value) {
			if f2, ok := x.(*ssa.FieldAddr); ok && structNameOf(f2.X.Type()) == "Entity" {
				src = fieldName(f2.X.Type(), f2.Field)
			}
			if f2, ok := x.(*ssa.Field); ok && structNameOf(f2.X.Type()) == "Entity" {
				src = fieldName(f2.X.Type(), f2.Field)
			}
		})
		assigned[dst] = src
	})
	for _, f := range structFieldsOf(pc) {
		src, ok := assigned[f.Name()]
		r.Check(ok && src == f.Name(), rule, "CompleteMultipartUpload: PartChecksums."+f.Name()+" ← part row", fn.Pos(), "from the same-named column", "PartChecksums."+f.Name()+" is not filled from the part row's "+f.Name()+" (got '"+src+"'): the object checksum is computed over the wrong inputs")
	}
	// the list handed over is the full list of part rows, in sequence order
	var calc *ssa.Call
	allInstrs(fn, false, func(_ *ssa.Function, ins ssa.Instruction) {
		if c, ok := ins.(*ssa.Call); ok && isCallNamed(c, "CalculateMultipartChecksums") {
			calc = c
		}
	})
	ordered := false
	if calc != nil {
		ordered = sliceContains(calc.Call.Args[0], true, func(x ssa.Value) bool {
			return isCallNamed(x, "FindPartsByObjectIdOrderBySequenceNumberAsc")
		})
	}
	r.Check(ordered, rule, "CompleteMultipartUpload: checksum inputs come from the ordered part listing", fn.Pos(), "FindPartsByObjectIdOrderBySequenceNumberAsc", "the parts fed to CalculateMultipartChecksums are not the rows listed in sequence order")
	for _, s := range collectSQL(w) {
		if s.Entity != "part" {
			continue
		}
		used := false
		for _, u := range s.UsedBy {
			if u.Name() == "FindPartsByObjectIdOrderBySequenceNumberAsc" {
				used = true
			}
		}
		if !used {
			continue
		}
		ob := strings.ToUpper(joinToks(sqlClause(normalizeDialect(s.Toks), "ORDER", "BY")))
		r.Check(strings.Contains(ob, "SEQUENCE_NUMBER") && !strings.Contains(ob, "DESC"), rule, s.Dialect+"/part."+s.Name+" orders by sequence_number ascending", s.Pos, "ORDER BY sequence_number ASC", "the part listing is not ordered by sequence_number ascending: the ETag of ETags and the combined CRCs are computed in the wrong order")
	}
}

// ---- checksumutils internals (shared by C04 and C35) --------------------------------------

func checkC35(w *World, r *Run) {
	checkChecksumUtils(w, r, "C35")
	r.NotCovered("the arithmetic itself: that combine() computes the CRC of a concatenation (GF(2) matrix exponentiation) and that the block hand-over of the parallel writer preserves byte order under every scheduling; the rules decide the necessary conditions visible in the code shape — every hash is fed the tee'd stream, nothing is summed before Flush, each result is taken from the hash of its own algorithm, Write consumes all of p, and the combine polynomials are the bit-reversals of the table polynomials")
}

func bitrevN(x uint64, n uint) uint64 {
	var y uint64
	for i := uint(0); i < n; i++ {
		y = (y << 1) | (x & 1)
		x >>= 1
	}
	return y
}

func uintConst(v ssa.Value) (uint64, bool) {
	c, ok := v.(*ssa.Const)
	if !ok || c.Value == nil || c.Value.Kind() != constant.Int {
		return 0, false
	}
	u, exact := constant.Uint64Val(c.Value)
	return u, exact
}

func checkChecksumUtils(w *World, r *Run, who string) {
	ruleStream := r.Rule("streaming-hash-wiring", "F9",
		"CalculateChecksumsStreaming hands doRead a reader that tees the caller's reader into the parallel writer built over all six hashes; Flush is called before any Sum; each returned field is the encoded Sum of the hash of its own algorithm; the byte count is the counting reader's", 10)
	rulePoly := r.Rule("crc-polynomial-agreement", "F7",
		"for CRC32, CRC32C and CRC64NVME the polynomial given to the combine function is the bit-reversal of the polynomial of the table the streaming hash uses, with the matching width and an all-ones xor-out", 3)
	ruleWriter := r.Rule("parallel-writer-consumes-and-waits", "F1",
		"parallelHashWriter.Write loops until p is empty and reports len(p); Flush dispatches the active buffer and waits for both buffers; dispatchActive sends the block to every input and waits for the buffer it switches to", 5)

	fn := w.SSAFunc(relChecksum, "CalculateChecksumsStreaming")
	if fn == nil {
		r.Anchor(ruleStream, "checksumutils.CalculateChecksumsStreaming")
		return
	}
	// hashes
	ctorOf := func(v ssa.Value) string {
		name := ""
		backSlice(v, false, func(x ssa.Value) {
			c, ok := x.(*ssa.Call)
			if !ok {
				return
			}
			f := calleeObj(c)
			if f == nil || f.Pkg() == nil {
				return
			}
			switch f.Pkg().Path() + "." + f.Name() {
			case "crypto/md5.New":
				name = "md5"
			case "crypto/sha1.New":
				name = "sha1"
			case "crypto/sha256.New":
				name = "sha256"
			case "hash/crc32.NewIEEE":
				name = "crc32"
			case "hash/crc32.New":
				if g := globalLoaded(c.Call.Args[0]); g != "" {
					name = "crc32:" + g
				}
			case "hash/crc64.New":
				if g := globalLoaded(c.Call.Args[0]); g != "" {
					name = "crc64:" + g
				}
			}
		})
		return name
	}
	want := map[string]string{
		"ETag": "md5", "ChecksumCRC32": "crc32", "ChecksumCRC32C": "crc32:crc32CastagnoliTable",
		"ChecksumCRC64NVME": "crc64:crc64NvmeTable", "ChecksumSHA1": "sha1", "ChecksumSHA256": "sha256",
	}
	var flush *ssa.Call
	var sums []*ssa.Call
	var pw *ssa.Call
	var doRead ssa.CallInstruction
	allInstrs(fn, false, func(_ *ssa.Function, ins ssa.Instruction) {
		c, ok := ins.(*ssa.Call)
		if !ok {
			return
		}
		switch {
		case isCallNamed(c, "Flush"):
			flush = c
		case isCallNamed(c, "Sum"):
			sums = append(sums, c)
		case isCallNamed(c, "newParallelHashWriter"):
			pw = c
		}
		if _, isParam := c.Call.Value.(*ssa.Parameter); isParam {
			doRead = c
		}
	})
	// field ← hash
	got := map[string]string{}
	allInstrs(fn, false, func(_ *ssa.Function, ins ssa.Instruction) {
		st, ok := ins.(*ssa.Store)
		if !ok {
			return
		}
		fa, ok := st.Addr.(*ssa.FieldAddr)
		if !ok || structNameOf(fa.X.Type()) != "ChecksumValues" {
			return
		}
		dst := fieldName(fa.X.Type(), fa.Field)
		// the Sum call feeding the stored string
		backSlice(st.Val, true, func(x ssa.Value) {
			if c, ok := x.(*ssa.Call); ok && isCallNamed(c, "Sum") && c.Call.IsInvoke() {
				got[dst] = ctorOf(c.Call.Value)
			}
		})
	})
	var names []string
	for n := range want {
		names = append(names, n)
	}
	sort.Strings(names)
	for _, n := range names {
		r.Check(got[n] == want[n], ruleStream, "CalculateChecksumsStreaming: "+n+" ← "+want[n], fn.Pos(), "Sum of the "+want[n]+" hash", fmt.Sprintf("%s is taken from the hash '%s' instead of '%s'", n, got[n], want[n]))
	}
	// flush before sum
	fl := flush != nil && len(sums) == 6
	for _, s := range sums {
		if flush == nil || !instrDominates(flush, s) {
			fl = false
		}
	}
	r.Check(fl, ruleStream, "CalculateChecksumsStreaming: Flush dominates every Sum", fn.Pos(), "parallelWriter.Flush() before the six Sum calls", "a hash is summed before the parallel writer was flushed: bytes still buffered (up to one block) are missing from the digest, depending on chunking")
	// all six hashes handed to the writer
	hs := map[string]bool{}
	if pw != nil {
		backSlice(pw.Call.Args[0], false, func(x ssa.Value) {
			if c, ok := x.(*ssa.Call); ok {
				if n := ctorOf(c); n != "" {
					hs[n] = true
				}
			}
		})
	}
	all := pw != nil
	for _, n := range names {
		if !hs[want[n]] {
			all = false
		}
	}
	r.Check(all, ruleStream, "CalculateChecksumsStreaming: all six hashes are fed", fn.Pos(), "newParallelHashWriter(md5, crc32, crc32c, crc64nvme, sha1, sha256)", "a hash whose Sum is reported is not among the hashes the stream is written to: its digest is that of the empty string")
	// doRead's reader: counting reader over TeeReader(param reader, pw)
	teeOK, countOK := false, false
	if doRead != nil && len(doRead.Common().Args) == 1 {
		backSlice(doRead.Common().Args[0], true, func(x ssa.Value) {
			c, ok := x.(*ssa.Call)
			if !ok {
				return
			}
			if isCallNamed(c, "TeeReader") && len(c.Call.Args) == 2 {
				_, isParam := unspill(c.Call.Args[0]).(*ssa.Parameter)
				toPW := sliceContains(c.Call.Args[1], false, func(y ssa.Value) bool { return y == ssa.Value(pw) })
				teeOK = isParam && toPW
			}
			if isCallNamed(c, "NewCountingReader") {
				countOK = true
			}
		})
	}
	r.Check(teeOK, ruleStream, "CalculateChecksumsStreaming: doRead reads through the tee", fn.Pos(), "doRead(counting(TeeReader(reader, parallelWriter)))", "the reader handed to doRead does not tee the caller's reader into the hashes: what is stored is not what is hashed")
	// size: returned pointer is the counter the counting reader was given
	sizeOK := false
	for _, ret := range returnsOf(fn) {
		if isFailureReturn(ret) {
			continue
		}
		v := retResult(ret, 0)
		if doRead != nil {
			backSlice(doRead.Common().Args[0], true, func(x ssa.Value) {
				if c, ok := x.(*ssa.Call); ok && isCallNamed(c, "NewCountingReader") && len(c.Call.Args) == 2 && c.Call.Args[1] == v {
					sizeOK = true
				}
			})
		}
	}
	r.Check(sizeOK && countOK, ruleStream, "CalculateChecksumsStreaming: size is the counting reader's count", fn.Pos(), "&bytesRead shared with NewCountingReader", "the returned size is not the number of bytes that went through the hashed reader")

	// ---- polynomials
	tables := map[string]uint64{}
	if p := w.Pkg(relChecksum); p != nil {
		if c, ok := p.Types.Scope().Lookup("crcNvmePolynomial").(*types.Const); ok {
			if u, exact := constant.Uint64Val(c.Val()); exact {
				tables["crc64NvmeTable"] = u
			}
		}
	}
	if p := w.ByPath["hash/crc32"]; p != nil {
		for name, tbl := range map[string]string{"Castagnoli": "crc32CastagnoliTable", "IEEE": "ieee"} {
			if c, ok := p.Types.Scope().Lookup(name).(*types.Const); ok {
				if u, exact := constant.Uint64Val(c.Val()); exact {
					tables[tbl] = u
				}
			}
		}
	}
	// verify the table globals are built from those constants
	if init := w.SSAFuncInit(relChecksum); init != nil {
		allInstrs(init, false, func(_ *ssa.Function, ins ssa.Instruction) {
			st, ok := ins.(*ssa.Store)
			if !ok {
				return
			}
			g, ok := st.Addr.(*ssa.Global)
			if !ok {
				return
			}
			if c, _ := extractOf(st.Val); c != nil && isCallNamed(c, "MakeTable") {
				if u, ok := uintConst(c.Call.Args[0]); ok {
					if exp, known := tables[g.Name()]; known && exp != u {
						delete(tables, g.Name())
					} else if !known {
						tables[g.Name()] = u
					}
				}
			}
		})
	}
	for _, cmb := range []struct {
		fn, table string
		bits      uint
	}{{"CombineCrc32", "ieee", 32}, {"CombineCrc32c", "crc32CastagnoliTable", 32}, {"CombineCrc64Nvme", "crc64NvmeTable", 64}} {
		cf := w.SSAFunc(relChecksum, cmb.fn)
		cons := cmb.fn + " polynomial = bitrev(" + cmb.table + ")"
		if cf == nil {
			r.Anchor(rulePoly, "checksumutils."+cmb.fn)
			continue
		}
		var mk *ssa.Call
		allInstrs(cf, false, func(_ *ssa.Function, ins ssa.Instruction) {
			if c, ok := ins.(*ssa.Call); ok && isCallNamed(c, "createCombineFunction") {
				mk = c
			}
		})
		if mk == nil {
			r.Unk(rulePoly, cons, cf.Pos(), "no createCombineFunction call")
			continue
		}
		poly, ok1 := uintConst(mk.Call.Args[0])
		bits, ok2 := uintConst(mk.Call.Args[1])
		xor, ok3 := uintConst(mk.Call.Args[2])
		tp, ok4 := tables[cmb.table]
		if !(ok1 && ok2 && ok3 && ok4) {
			r.Unk(rulePoly, cons, posOf(mk), "non-constant polynomial arguments or unknown table polynomial")
			continue
		}
		mask := uint64(1)<<cmb.bits - 1
		if cmb.bits == 64 {
			mask = ^uint64(0)
		}
		good := uint(bits) == cmb.bits && bitrevN(poly&mask, cmb.bits) == tp && xor == mask
		r.Check(good, rulePoly, cons, posOf(mk), fmt.Sprintf("bitrev(%#x,%d) = %#x, xor-out all ones", poly&mask, cmb.bits, tp), fmt.Sprintf("combine uses polynomial %#x/%d bits/xor %#x but the streaming hash uses table polynomial %#x: combined part CRCs differ from the CRC of the concatenated bytes", poly, bits, xor, tp))
	}

	// ---- the length of the second operand reaches the combine arithmetic unreduced: parts
	// may be 5 GiB, more than 32 bits
	ruleLen := r.Rule("combine-length-is-not-reduced", "F9",
		"the byte length handed to combine is the closure's len2 parameter through 64-bit conversions only (no mask, modulus or narrowing); the wrappers CombineCrc32/32c/64Nvme pass their bLen parameter through unchanged", 4)
	narrows := func(v ssa.Value) string {
		why := ""
		backSlice(v, false, func(x ssa.Value) {
			switch y := x.(type) {
			case *ssa.BinOp:
				if why == "" {
					why = "operator " + y.Op.String()
				}
			case *ssa.Convert:
				if bt, ok := y.Type().Underlying().(*types.Basic); ok {
					switch bt.Kind() {
					case types.Int64, types.Uint64, types.Int, types.Uint, types.Uintptr:
					default:
						why = "conversion to " + bt.Name()
					}
				}
			}
		})
		return why
	}
	if mkf := w.SSAFunc(relChecksum, "createCombineFunction"); mkf == nil {
		r.Anchor(ruleLen, "checksumutils.createCombineFunction")
	} else {
		found := false
		allInstrs(mkf, true, func(lit *ssa.Function, ins ssa.Instruction) {
			c, ok := ins.(*ssa.Call)
			if !ok || !isCallNamed(c, "combine") || len(c.Call.Args) == 0 {
				return
			}
			found = true
			arg := c.Call.Args[len(c.Call.Args)-1]
			fromParam := sliceContains(arg, false, func(x ssa.Value) bool {
				p, ok := x.(*ssa.Parameter)
				return ok && p.Parent() == lit && p.Name() == "len2"
			})
			why := narrows(arg)
			r.Check(fromParam && why == "", ruleLen, "createCombineFunction: combine(…, len2)", c.Pos(), "uint64(len2)", "the length is reduced before the combine arithmetic ("+why+"): for a second operand of 4 GiB or more the combined CRC is that of a shorter string")
		})
		if !found {
			r.Bad(ruleLen, "createCombineFunction: combine(…, len2)", mkf.Pos(), "no call to combine found")
		}
	}
	for _, name := range []string{"CombineCrc32", "CombineCrc32c", "CombineCrc64Nvme"} {
		cf := w.SSAFunc(relChecksum, name)
		if cf == nil {
			continue // anchored above
		}
		allInstrs(cf, false, func(_ *ssa.Function, ins ssa.Instruction) {
			c, ok := ins.(*ssa.Call)
			if !ok || c.Call.StaticCallee() != nil || c.Call.IsInvoke() || len(c.Call.Args) != 3 {
				return
			}
			arg := c.Call.Args[2]
			r.Check(paramIndex(cf, stripConv(arg)) == 2 && narrows(arg) == "", ruleLen, name+": bLen passed through", c.Pos(), "bLen", "the wrapper changes the length before combining")
		})
	}

	// ---- writer
	if wf := w.SSAFunc(relChecksum, "parallelHashWriter.Write"); wf == nil {
		r.Anchor(ruleWriter, "parallelHashWriter.Write")
	} else {
		// returns len(p) taken at entry and nil; exits the loop only when len(p) == 0
		okRet := true
		for _, ret := range returnsOf(wf) {
			v := retResult(ret, 0)
			if !isLenOf(v, func(x ssa.Value) bool { _, isP := unspill(x).(*ssa.Parameter); return isP }) || !definitelyNil(retResult(ret, 1)) {
				okRet = false
			}
			drained := false
			for _, f := range factsAt(ret.Block()) {
				if factSaysEmpty(f, func(ssa.Value) bool { return true }) {
					drained = true
				}
			}
			if !drained {
				okRet = false
			}
		}
		r.Check(okRet, ruleWriter, "parallelHashWriter.Write consumes all of p", wf.Pos(), "loops until len(p) == 0, returns the entry length", "Write can return before every byte of p was copied into a block (or reports a different count): the tee reader drops bytes from the digests")
		// every copy target is the active buffer at the fill offset; dispatch when full
		disp := len(callsTo(wf, false, func(f *types.Func) bool { return f.Name() == "dispatchActive" })) > 0
		r.Check(disp, ruleWriter, "parallelHashWriter.Write dispatches full blocks", wf.Pos(), "dispatchActive when fill == hashBlockSize", "a full block is never dispatched: copy() into a full buffer copies 0 bytes and Write spins or drops data")
	}
	if ff := w.SSAFunc(relChecksum, "parallelHashWriter.Flush"); ff == nil {
		r.Anchor(ruleWriter, "parallelHashWriter.Flush")
	} else {
		var disp ssa.Instruction
		waits := 0
		order := true
		allInstrs(ff, false, func(_ *ssa.Function, ins ssa.Instruction) {
			c, ok := ins.(*ssa.Call)
			if !ok {
				return
			}
			if isCallNamed(c, "dispatchActive") {
				disp = c
			}
			if isCallNamed(c, "Wait") {
				waits++
				if disp == nil || !instrDominates(disp, c) {
					order = false
				}
			}
		})
		// no way out of Flush without both waits: with nothing buffered the previous block may
		// still be in flight
		var waitCalls []ssa.Instruction
		allInstrs(ff, false, func(_ *ssa.Function, ins ssa.Instruction) {
			if c, ok := ins.(*ssa.Call); ok && isCallNamed(c, "Wait") {
				waitCalls = append(waitCalls, c)
			}
		})
		for _, ret := range returnsOf(ff) {
			if ret.Block() == ff.Recover {
				continue
			}
			for _, wc := range waitCalls {
				if !instrDominates(wc, ret) {
					order = false
				}
			}
		}
		r.Check(disp != nil && waits == 2 && order, ruleWriter, "parallelHashWriter.Flush dispatches then waits for both buffers", ff.Pos(), "dispatchActive(); wgs[0].Wait(); wgs[1].Wait()", "Flush does not dispatch the buffered tail before waiting, or does not wait for both buffers on every path (an early return when nothing is buffered skips the wait for the block still in flight): Sum can run while a worker still hashes")
	}
	if df := w.SSAFunc(relChecksum, "parallelHashWriter.dispatchActive"); df == nil {
		r.Anchor(ruleWriter, "parallelHashWriter.dispatchActive")
	} else {
		var add, send, wait ssa.Instruction
		allInstrs(df, false, func(_ *ssa.Function, ins ssa.Instruction) {
			switch x := ins.(type) {
			case *ssa.Call:
				if isCallNamed(x, "Add") {
					add = x
				}
				if isCallNamed(x, "Wait") {
					wait = x
				}
			case *ssa.Send:
				send = x
			}
		})
		good := add != nil && send != nil && wait != nil && instrDominates(add, send) && canReach(send, wait)
		// Add(len(inputs)) and the send loop ranges over inputs
		if good {
			c := add.(*ssa.Call)
			a := c.Call.Args[len(c.Call.Args)-1]
			good = isLenOf(a, func(x ssa.Value) bool { n, _ := fieldLoadName(x); return n == "inputs" })
		}
		r.Check(good, ruleWriter, "parallelHashWriter.dispatchActive accounts one Done per hash before sending", df.Pos(), "wg.Add(len(inputs)) → send to every input → wait for the other buffer", "the wait group is not armed with one count per hash before the block is sent (or the other buffer is refilled without waiting): Flush can return while a hash has not consumed a block")
	}
	if nf := w.SSAFunc(relChecksum, "newParallelHashWriter"); nf == nil {
		r.Anchor(ruleWriter, "newParallelHashWriter")
	} else {
		// the worker writes blk.data to its hash and then signals Done (in this order)
		good := false
		for _, a := range nf.AnonFuncs {
			var wr, done ssa.Instruction
			allInstrs(a, false, func(_ *ssa.Function, ins ssa.Instruction) {
				if c, ok := ins.(*ssa.Call); ok {
					if isCallNamed(c, "Write") {
						wr = c
					}
					if isCallNamed(c, "Done") {
						done = c
					}
				}
			})
			if wr != nil && done != nil && instrDominates(wr, done) {
				good = true
			}
		}
		r.Check(good, ruleWriter, "hash worker writes the block before signalling Done", nf.Pos(), "h.Write(blk.data); blk.wg.Done()", "a worker signals completion before (or without) hashing the block")
	}
	_ = who
}

func globalLoaded(v ssa.Value) string {
	if ld, ok := stripConv(v).(*ssa.UnOp); ok && ld.Op == token.MUL {
		if g, ok := ld.X.(*ssa.Global); ok {
			return g.Name()
		}
	}
	return ""
}
