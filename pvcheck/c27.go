package main

import (
	"fmt"
	"go/ast"
	"go/constant"
	"go/token"
	"go/types"
	"sort"
	"strings"
)

// C27 — audit log tampering is always detected; serializers round-trip.
//
// Decided structurally (F3, field coverage / sequence agreement), at auditlog.CurrentVersion:
//   - every recorded field of Entry/LogDetails(+nested)/GroundingDetails is fed into the
//     hash computed by (*Entry).CalculateHash;
//   - the binary serializer's ordered (field, wire-kind) write sequence equals the decoder's
//     read sequence, per details variant;
//   - the JSON serializer moves every field into a DTO field in Encode and back from the
//     same DTO field into the same auditlog field in Decode;
//   - the text serializer's labels agree between Encode and Decode.
func init() { register("C27", checkC27) }

const relAuditlog = "internal/auditlog"
const relSerial = "internal/auditlog/serialization"

type auditModel struct {
	names    map[*types.Var]string
	leaves   map[string][]*types.Var // variant -> leaf fields (nested expanded)
	envelope []*types.Var            // Entry fields except Details
	version  int64
}

func buildAuditModel(w *World, r *Run, rule string) *auditModel {
	p := w.Pkg(relAuditlog)
	if p == nil {
		r.Anchor(rule, relAuditlog)
		return nil
	}
	m := &auditModel{names: map[*types.Var]string{}, leaves: map[string][]*types.Var{}}
	fieldNames(p.Types, m.names)
	if sp := w.Pkg(relSerial); sp != nil {
		fieldNames(sp.Types, m.names)
	}
	cv, ok := p.Types.Scope().Lookup("CurrentVersion").(*types.Const)
	if !ok {
		r.Anchor(rule, "auditlog.CurrentVersion")
		return nil
	}
	m.version, _ = constant.Int64Val(cv.Val())
	entry := w.Named(relAuditlog, "Entry")
	if entry == nil {
		r.Anchor(rule, "auditlog.Entry")
		return nil
	}
	for _, f := range structFieldsOf(entry) {
		if f.Name() != "Details" {
			m.envelope = append(m.envelope, f)
		}
	}
	var expand func(n *types.Named) []*types.Var
	expand = func(n *types.Named) []*types.Var {
		var out []*types.Var
		for _, f := range structFieldsOf(n) {
			if sub, ok := f.Type().(*types.Named); ok && sub.Obj().Pkg() == p.Types {
				if _, isStruct := sub.Underlying().(*types.Struct); isStruct {
					out = append(out, expand(sub)...)
					continue
				}
			}
			out = append(out, f)
		}
		return out
	}
	for _, v := range []string{"GenesisDetails", "LogDetails", "GroundingDetails"} {
		n := w.Named(relAuditlog, v)
		if n == nil {
			r.Anchor(rule, "auditlog."+v)
			return nil
		}
		m.leaves[v] = expand(n)
	}
	return m
}

func (m *auditModel) name(f *types.Var) string {
	if s, ok := m.names[f]; ok {
		return s
	}
	return f.Name()
}

func checkC27(w *World, r *Run) {
	ruleHash := r.Rule("hash-field-coverage", "F3",
		"at CurrentVersion, (*Entry).CalculateHash writes every field of Entry (except Hash and the signature, which are computed over the hash, and Details, covered through its variants), of LogDetails and its nested structs, and of GroundingDetails into the hashed buffer; a field that is recorded but not hashed can be altered without detection", 25)
	ruleBin := r.Rule("binary-sequence-agreement", "F3",
		"per details variant, the ordered sequence of (field, wire kind) the binary Encode writes equals the sequence Decode reads, with e.Version guards folded at CurrentVersion, and covers every field", 3)
	ruleJSON := r.Rule("json-field-roundtrip", "F3",
		"every auditlog field is moved by JsonSerializer.Encode into a DTO field and by JsonDecoder.Decode from that same DTO field back into the same auditlog field", 25)
	ruleText := r.Rule("text-label-agreement", "F7",
		"every field the text Encode prints under a label is parsed back by Decode from a case with the same label into the same field", 20)
	m := buildAuditModel(w, r, ruleHash)
	if m == nil {
		return
	}
	checkC27Hash(w, r, ruleHash, m)
	checkC27Binary(w, r, ruleBin, m)
	checkC27JSON(w, r, ruleJSON, m)
	checkC27Text(w, r, ruleText, m)
	checkC27ChainLink(w, r)
	checkJSONNumericWidths(w, r)
	checkBinaryReadsAreFull(w, r)
	checkC27RawBytesHashed(w, r)
	r.NotCovered("collision resistance / injectivity of the hash input encoding beyond per-field presence; chain checks of the Validator over insert/delete/reorder (decided only through PreviousHash being hashed); escape/unescape inverse of the text serializer")
}

func checkC27Hash(w *World, r *Run, rule string, m *auditModel) {
	fobj := w.Func(relAuditlog, "Entry.CalculateHash")
	fd := w.Decl(fobj)
	if fd == nil {
		r.Anchor(rule, "(*auditlog.Entry).CalculateHash")
		return
	}
	info := w.InfoFor(fd)
	hashed := map[*types.Var]bool{}
	fw := &foldWalker{info: info, verName: "Version", ver: m.version}
	fw.visit = func(n ast.Node) {
		ast.Inspect(n, func(x ast.Node) bool {
			call, ok := x.(*ast.CallExpr)
			if !ok {
				return true
			}
			f := calleeOfExpr(info, call)
			if f == nil {
				return true
			}
			sink := isFunc(f, relAuditlog, "writeString") || isFunc(f, relAuditlog, "writeBytes") ||
				(f.Pkg() != nil && f.Pkg().Path() == "encoding/binary" && f.Name() == "Write") ||
				(f.Name() == "Write" && recvNamed(f) != nil && recvNamed(f).Obj().Name() == "Buffer")
			if !sink {
				return true
			}
			for _, a := range call.Args {
				for _, fld := range fieldsIn(info, a) {
					hashed[fld] = true
				}
			}
			return true
		})
	}
	fw.walk(fd.Body.List)
	req := []*types.Var{}
	for _, f := range m.envelope {
		if f.Name() == "Hash" || f.Name() == "SignatureEd25519" {
			continue
		}
		req = append(req, f)
	}
	for _, v := range []string{"LogDetails", "GroundingDetails"} {
		req = append(req, m.leaves[v]...)
	}
	for _, f := range req {
		cons := "(*auditlog.Entry).CalculateHash ∋ " + m.name(f)
		if hashed[f] {
			r.OK(rule, cons, f.Pos(), "written to the hashed buffer")
		} else {
			r.Bad(rule, "(*auditlog.Entry).CalculateHash ∌ "+m.name(f), fobj.Pos(), "field is part of the recorded entry (and serialized) but never written to the hash input at version "+fmt.Sprint(m.version)+": changing it in a stored log leaves Hash and signature valid")
		}
	}
}

type wireEvent struct {
	pos   token.Pos
	field *types.Var
	kind  string
}

func checkC27Binary(w *World, r *Run, rule string, m *auditModel) {
	enc := w.Decl(w.Func(relSerial, "BinarySerializer.Encode"))
	dec := w.Decl(w.Func(relSerial, "BinaryDecoder.Decode"))
	if enc == nil || dec == nil {
		r.Anchor(rule, "BinarySerializer.Encode / BinaryDecoder.Decode")
		return
	}
	info := w.InfoFor(enc)
	kindOfWriter := func(f *types.Func) string {
		switch {
		case f == nil:
			return ""
		case isFunc(f, relSerial, "writeString"):
			return "string"
		case isFunc(f, relSerial, "writeBytes"):
			return "bytes"
		case f.Pkg() != nil && f.Pkg().Path() == "encoding/binary" && f.Name() == "Write":
			return "fixed"
		case f.Name() == "Write" && f.Pkg() != nil && f.Pkg().Path() == "io":
			return "raw"
		}
		return ""
	}
	kindOfReader := func(f *types.Func) string {
		switch {
		case f == nil:
			return ""
		case isFunc(f, relSerial, "readString"):
			return "string"
		case isFunc(f, relSerial, "readBytes"):
			return "bytes"
		case f.Pkg() != nil && f.Pkg().Path() == "encoding/binary" && f.Name() == "Read":
			return "fixed"
		case f.Pkg() != nil && f.Pkg().Path() == "io" && f.Name() == "ReadFull":
			return "raw"
		}
		return ""
	}
	for _, variant := range []string{"GenesisDetails", "LogDetails", "GroundingDetails"} {
		// encode sequence
		var encSeq []wireEvent
		fw := &foldWalker{info: info, verName: "Version", ver: m.version,
			pick: func(sw ast.Stmt, cc *ast.CaseClause) bool { return caseHasType(info, cc, variant) }}
		fw.visit = func(n ast.Node) {
			ast.Inspect(n, func(x ast.Node) bool {
				call, ok := x.(*ast.CallExpr)
				if !ok {
					return true
				}
				if k := kindOfWriter(calleeOfExpr(info, call)); k != "" {
					for _, a := range call.Args {
						for _, f := range fieldsIn(info, a) {
							encSeq = append(encSeq, wireEvent{call.Pos(), f, k})
						}
					}
					return false
				}
				return true
			})
		}
		fw.walk(enc.Body.List)

		// decode sequence
		var decSeq []wireEvent
		type pend struct {
			pos  token.Pos
			kind string
		}
		pending := map[types.Object]pend{}
		dw := &foldWalker{info: info, verName: "Version", ver: m.version,
			pick: func(sw ast.Stmt, cc *ast.CaseClause) bool { return clauseBuilds(info, cc, variant) }}
		dw.visit = func(n ast.Node) {
			ast.Inspect(n, func(x ast.Node) bool {
				switch s := x.(type) {
				case *ast.AssignStmt:
					if len(s.Rhs) == 1 {
						if call, ok := ast.Unparen(s.Rhs[0]).(*ast.CallExpr); ok {
							if k := kindOfReader(calleeOfExpr(info, call)); k == "string" || k == "bytes" {
								if f := selField(info, s.Lhs[0]); f != nil {
									decSeq = append(decSeq, wireEvent{call.Pos(), f, k})
								} else if id, ok := s.Lhs[0].(*ast.Ident); ok {
									if o := info.ObjectOf(id); o != nil {
										pending[o] = pend{call.Pos(), k}
									}
								}
								return false
							}
						}
					}
					// field = f(pending local)
					for i, lhs := range s.Lhs {
						f := selField(info, lhs)
						if f == nil || len(s.Rhs) <= i && len(s.Rhs) != 1 {
							continue
						}
						rhs := s.Rhs[0]
						if len(s.Rhs) > i {
							rhs = s.Rhs[i]
						}
						ast.Inspect(rhs, func(y ast.Node) bool {
							if id, ok := y.(*ast.Ident); ok {
								if p, ok := pending[info.ObjectOf(id)]; ok {
									decSeq = append(decSeq, wireEvent{p.pos, f, p.kind})
								}
							}
							return true
						})
					}
				case *ast.CallExpr:
					k := kindOfReader(calleeOfExpr(info, s))
					switch k {
					case "fixed":
						if len(s.Args) == 3 {
							if u, ok := ast.Unparen(s.Args[2]).(*ast.UnaryExpr); ok && u.Op == token.AND {
								if f := selField(info, u.X); f != nil {
									decSeq = append(decSeq, wireEvent{s.Pos(), f, k})
								} else if id, ok := u.X.(*ast.Ident); ok {
									pending[info.ObjectOf(id)] = pend{s.Pos(), k}
								}
							}
						}
					case "raw":
						if len(s.Args) == 2 {
							if f := selField(info, s.Args[1]); f != nil {
								decSeq = append(decSeq, wireEvent{s.Pos(), f, k})
							}
						}
					}
				}
				return true
			})
		}
		dw.walk(dec.Body.List)
		sort.SliceStable(decSeq, func(i, j int) bool { return decSeq[i].pos < decSeq[j].pos })

		show := func(seq []wireEvent) string {
			var s []string
			for _, e := range seq {
				s = append(s, m.name(e.field)+":"+e.kind)
			}
			return strings.Join(s, " ")
		}
		cons := "BinarySerializer " + variant + " @v" + fmt.Sprint(m.version)
		agree := len(encSeq) == len(decSeq)
		firstDiff := ""
		for i := 0; i < len(encSeq) && i < len(decSeq); i++ {
			if encSeq[i].field != decSeq[i].field || encSeq[i].kind != decSeq[i].kind {
				agree = false
				if firstDiff == "" {
					firstDiff = fmt.Sprintf("position %d: Encode writes %s:%s, Decode reads %s:%s", i, m.name(encSeq[i].field), encSeq[i].kind, m.name(decSeq[i].field), decSeq[i].kind)
				}
			}
		}
		if !agree {
			if firstDiff == "" {
				firstDiff = fmt.Sprintf("Encode writes %d items, Decode reads %d", len(encSeq), len(decSeq))
			}
			r.Bad(rule, cons, enc.Pos(), firstDiff+" | enc=["+show(encSeq)+"] dec=["+show(decSeq)+"]")
			continue
		}
		// coverage
		have := map[*types.Var]bool{}
		for _, e := range encSeq {
			have[e.field] = true
		}
		var missing []string
		for _, f := range append(append([]*types.Var{}, m.envelope...), m.leaves[variant]...) {
			if !have[f] {
				missing = append(missing, m.name(f))
			}
		}
		if len(missing) > 0 {
			r.Bad(rule, cons, enc.Pos(), "fields never written by the binary encoder: "+strings.Join(missing, ", "))
			continue
		}
		r.OK(rule, cons, enc.Pos(), fmt.Sprintf("%d items: %s", len(encSeq), show(encSeq)))
	}
}

// flowPairs extracts (source field -> destination field) pairs from composite literals and
// assignments of a function body, following one level of local variables.
type fieldPair struct{ src, dst *types.Var }

func flowPairs(info *types.Info, body *ast.BlockStmt, verName string, ver int64) []fieldPair {
	var out []fieldPair
	carried := map[types.Object][]*types.Var{}
	sources := func(e ast.Expr) []*types.Var {
		res := fieldsIn(info, e)
		ast.Inspect(e, func(n ast.Node) bool {
			if id, ok := n.(*ast.Ident); ok {
				res = append(res, carried[info.ObjectOf(id)]...)
			}
			return true
		})
		return res
	}
	var handle func(n ast.Node)
	handle = func(n ast.Node) {
		ast.Inspect(n, func(x ast.Node) bool {
			switch s := x.(type) {
			case *ast.AssignStmt:
				for i, lhs := range s.Lhs {
					var rhs ast.Expr
					if len(s.Rhs) == len(s.Lhs) {
						rhs = s.Rhs[i]
					} else if len(s.Rhs) == 1 {
						rhs = s.Rhs[0]
					} else {
						continue
					}
					if f := selField(info, lhs); f != nil {
						for _, src := range sources(rhs) {
							out = append(out, fieldPair{src, f})
						}
					} else if id, ok := lhs.(*ast.Ident); ok && id.Name != "_" && id.Name != "err" {
						if o := info.ObjectOf(id); o != nil {
							carried[o] = append(carried[o], sources(rhs)...)
						}
					}
				}
			case *ast.KeyValueExpr:
				if id, ok := s.Key.(*ast.Ident); ok {
					if f, ok := info.ObjectOf(id).(*types.Var); ok && f.IsField() {
						if _, isLit := ast.Unparen(s.Value).(*ast.CompositeLit); !isLit {
							for _, src := range sources(s.Value) {
								out = append(out, fieldPair{src, f})
							}
						}
					}
				}
			}
			return true
		})
	}
	fw := &foldWalker{info: info, verName: verName, ver: ver, visit: handle}
	fw.walk(body.List)
	return out
}

func checkC27JSON(w *World, r *Run, rule string, m *auditModel) {
	enc := w.Decl(w.Func(relSerial, "JsonSerializer.Encode"))
	dec := w.Decl(w.Func(relSerial, "JsonDecoder.Decode"))
	if enc == nil || dec == nil {
		r.Anchor(rule, "JsonSerializer.Encode / JsonDecoder.Decode")
		return
	}
	info := w.InfoFor(enc)
	auditPkg := w.Pkg(relAuditlog).Types
	serPkg := w.Pkg(relSerial).Types
	encPairs := flowPairs(info, enc.Body, "Version", m.version)
	decPairs := flowPairs(info, dec.Body, "Version", m.version)
	encMap := map[*types.Var][]*types.Var{}
	for _, p := range encPairs {
		if p.src.Pkg() == auditPkg && p.dst.Pkg() == serPkg {
			encMap[p.src] = append(encMap[p.src], p.dst)
		}
	}
	decSet := map[fieldPair]bool{}
	for _, p := range decPairs {
		if p.src.Pkg() == serPkg && p.dst.Pkg() == auditPkg {
			decSet[p] = true
		}
	}
	var req []*types.Var
	req = append(req, m.envelope...)
	req = append(req, m.leaves["LogDetails"]...)
	req = append(req, m.leaves["GroundingDetails"]...)
	for _, f := range req {
		cons := "JsonSerializer ⇄ " + m.name(f)
		dtos := encMap[f]
		if len(dtos) == 0 {
			r.Bad(rule, cons, enc.Pos(), "Encode never copies this field into a DTO field at CurrentVersion: it is lost on serialization")
			continue
		}
		back := false
		var names []string
		for _, y := range dtos {
			names = append(names, m.name(y))
			if decSet[fieldPair{y, f}] {
				back = true
			}
		}
		if back {
			r.OK(rule, cons, f.Pos(), "via "+strings.Join(names, ","))
		} else {
			r.Bad(rule, cons, dec.Pos(), "Encode stores it in "+strings.Join(names, ",")+" but Decode does not assign that DTO field back to "+m.name(f))
		}
	}
}

func checkC27Text(w *World, r *Run, rule string, m *auditModel) {
	enc := w.Decl(w.Func(relSerial, "TextSerializer.Encode"))
	dec := w.Decl(w.Func(relSerial, "TextDecoder.Decode"))
	if enc == nil || dec == nil {
		r.Anchor(rule, "TextSerializer.Encode / TextDecoder.Decode")
		return
	}
	info := w.InfoFor(enc)
	// Encode: fmt.Sprintf(" | L1: %s | L2: %x", a1, a2): label i ↔ fields in arg i
	encLabel := map[*types.Var]string{}
	ast.Inspect(enc.Body, func(n ast.Node) bool {
		call, ok := n.(*ast.CallExpr)
		if !ok {
			return true
		}
		f := calleeOfExpr(info, call)
		if f == nil || f.Pkg() == nil || f.Pkg().Path() != "fmt" || f.Name() != "Sprintf" || len(call.Args) < 2 {
			return true
		}
		tv := info.Types[call.Args[0]]
		if tv.Value == nil || tv.Value.Kind() != constant.String {
			return true
		}
		format := constant.StringVal(tv.Value)
		var labels []string
		for _, seg := range strings.Split(format, " | ") {
			if i := strings.Index(seg, ": %"); i >= 0 {
				labels = append(labels, strings.TrimSpace(seg[:i]))
			}
		}
		if len(labels) != len(call.Args)-1 {
			return true
		}
		for i, a := range call.Args[1:] {
			for _, fld := range fieldsIn(info, a) {
				encLabel[fld] = labels[i]
			}
		}
		return true
	})
	// Decode: case "L": field = ...
	decLabel := map[*types.Var]map[string]bool{}
	ast.Inspect(dec.Body, func(n ast.Node) bool {
		cc, ok := n.(*ast.CaseClause)
		if !ok {
			return true
		}
		var labels []string
		for _, e := range cc.List {
			if tv := info.Types[e]; tv.Value != nil && tv.Value.Kind() == constant.String {
				labels = append(labels, constant.StringVal(tv.Value))
			}
		}
		if len(labels) == 0 {
			return true
		}
		for _, s := range cc.Body {
			ast.Inspect(s, func(y ast.Node) bool {
				if as, ok := y.(*ast.AssignStmt); ok {
					for _, lhs := range as.Lhs {
						if f := selField(info, lhs); f != nil {
							if decLabel[f] == nil {
								decLabel[f] = map[string]bool{}
							}
							for _, l := range labels {
								decLabel[f][l] = true
							}
						}
					}
				}
				return true
			})
		}
		return true
	})
	var req []*types.Var
	for _, f := range m.envelope {
		if f.Name() == "Version" || f.Name() == "Timestamp" || f.Name() == "Type" {
			continue // carried by the line prefix matched by textLogRegex, not by a label
		}
		req = append(req, f)
	}
	req = append(req, m.leaves["LogDetails"]...)
	req = append(req, m.leaves["GroundingDetails"]...)
	for _, f := range req {
		cons := "TextSerializer label of " + m.name(f)
		l, ok := encLabel[f]
		if !ok {
			r.Bad(rule, cons, enc.Pos(), "Encode prints no labelled value for this field")
			continue
		}
		if decLabel[f][l] {
			r.OK(rule, cons, f.Pos(), "label "+l)
		} else {
			r.Bad(rule, cons, dec.Pos(), fmt.Sprintf("Encode prints it under label %q but Decode has no case %q assigning it", l, l))
		}
	}
}
