package main

import (
	"fmt"
	"go/token"
	"go/types"
	"strings"

	"golang.org/x/tools/go/ssa"
)

// C14 — storage-class transitions preserve objects and route data.
func init() { register("C14", checkC14) }

// samePartValue: a and b denote the same Part (same SSA value, or loads/addresses of the
// same local).
func samePartValue(a, b ssa.Value) bool {
	if a == nil || b == nil {
		return false
	}
	root := func(v ssa.Value) ssa.Value {
		v = stripConv(v)
		if ld, ok := v.(*ssa.UnOp); ok && ld.Op == token.MUL {
			return ld.X
		}
		return v
	}
	return sameValue(a, b) || root(a) == root(b)
}

// storeForClassOf: the StoreForClass call a store or store-name value comes from
// (following captured variables).
func storeForClassOf(v ssa.Value) (*ssa.Call, int) {
	var call *ssa.Call
	idx := -1
	visit := func(x ssa.Value) {
		if e, ok := x.(*ssa.Extract); ok {
			if c, ok := e.Tuple.(*ssa.Call); ok && isCallNamed(c, "StoreForClass") {
				call, idx = c, e.Index
			}
		}
	}
	backSlice(v, false, func(x ssa.Value) {
		visit(x)
		if fv, ok := x.(*ssa.FreeVar); ok {
			if b := bindingOf(fv); b != nil {
				backSlice(b, false, visit)
			}
		}
	})
	return call, idx
}

func checkC14(w *World, r *Run) {
	ruleExisting := r.Rule("existing-parts-are-addressed-through-their-recorded-store", "F9",
		"in package metadatapart a part that already exists is read or deleted only through partStores.ByName(part.StoreName) of that same part; the lazy reader opens each part with the store recorded next to its id", 6)
	ruleFresh := r.Rule("fresh-parts-go-to-the-store-of-their-class", "F9",
		"every PutPart in package metadatapart writes a fresh part id to the store returned by the function's single StoreForClass call, and every part recorded for that id carries the store name returned by the same call", 12)
	ruleClass := r.Rule("routing-class-comes-from-the-right-source", "F7",
		"the class handed to StoreForClass is: PutObject → request options; AppendObject → the existing object; UploadPart/UploadPartCopy → the upload row; CopyObject → the destination object's class taken from the request only; TransitionObjectStorageClass → the target class", 6)
	ruleSQL := r.Rule("transition-changes-only-the-storage-class", "F1",
		"sqlMetadataStore.TransitionObject modifies the loaded row in exactly one field (StorageClass ← the requested class), writes it back through the optimistic-lock CAS of that row after the ETag precondition, never touches tags, and replaces the part rows of that row id with the parts handed in", 6)
	ruleShare := r.Rule("parts-are-shared-only-within-one-store", "F1",
		"TransitionObjectStorageClass and CopyObject keep a source part's id only where partStoreNamesEqual(part.StoreName, target store name) holds; every relocated part is labelled with the target store name", 4)

	// ---- 1. ByName pairing
	for _, fn := range w.allFuncs {
		if fn.Pkg == nil || pkgRel(fn.Pkg.Pkg) != relMP {
			continue
		}
		for _, b := range fn.Blocks {
			for _, ins := range b.Instrs {
				c, ok := ins.(*ssa.Call)
				if !ok || !isCallNamed(c, "ByName") {
					continue
				}
				top := funcName(topFunc(fn))
				n, base := fieldLoadName(c.Call.Args[len(c.Call.Args)-1])
				cons := top + ": ByName → uses"
				if n != "StoreName" {
					r.Bad(ruleExisting, cons, posOf(c), "ByName is not keyed with a part's recorded StoreName")
					continue
				}
				var store ssa.Value
				for _, ref := range *c.Referrers() {
					if e, ok := ref.(*ssa.Extract); ok && e.Index == 0 {
						store = e
					}
				}
				uses, bad := 0, ""
				if store != nil {
					forwardReaches(store, func(u ssa.Instruction, via ssa.Value) bool {
						switch x := u.(type) {
						case ssa.CallInstruction:
							if x.Common().IsInvoke() && x.Common().Value == via && isPartStoreMethod(x.Common().Method.Name()) {
								uses++
								var id ssa.Value
								for _, a := range x.Common().Args {
									if nt, ok := types.Unalias(a.Type()).(*types.Named); ok && nt.Obj().Name() == "PartId" {
										id = a
									}
								}
								in, ib := fieldLoadName(id)
								if in != "Id" || !samePartValue(ib, base) {
									bad = x.Common().Method.Name() + " at " + w.Pos(posOf(u)) + " addresses an id that is not the Id of the part whose StoreName selected the store"
								}
							}
						case *ssa.Store:
							if fa, ok := x.Addr.(*ssa.FieldAddr); ok && x.Val == via && fieldName(fa.X.Type(), fa.Field) == "store" {
								uses++
								paired := false
								for _, ref := range *fa.X.Referrers() {
									if f2, ok := ref.(*ssa.FieldAddr); ok && fieldName(f2.X.Type(), f2.Field) == "id" {
										for _, s := range storesTo(f2) {
											if in, ib := fieldLoadName(s); in == "Id" && samePartValue(ib, base) {
												paired = true
											}
										}
									}
								}
								if !paired {
									bad = "the store is recorded at " + w.Pos(posOf(u)) + " next to an id of a different part"
								}
							}
						}
						return false
					})
				}
				r.Check(uses > 0 && bad == "", ruleExisting, cons, posOf(c), fmt.Sprintf("%d use(s), each with the Id of the same part", uses), bad+": the part is looked for in a store it was not written to")
			}
		}
	}
	if fn := w.SSAFunc(relMP, "lazyPartSequenceReadCloser.openNextPart"); fn == nil {
		r.Anchor(ruleExisting, "lazyPartSequenceReadCloser.openNextPart")
	} else {
		n, good := 0, true
		allInstrs(fn, false, func(_ *ssa.Function, ins ssa.Instruction) {
			c, ok := ins.(ssa.CallInstruction)
			if !ok || !c.Common().IsInvoke() || c.Common().Method.Name() != "GetPart" {
				return
			}
			n++
			sn, sb := fieldLoadName(c.Common().Value)
			in, ib := fieldLoadName(c.Common().Args[len(c.Common().Args)-1])
			if sn != "store" || in != "id" || !samePartValue(sb, ib) {
				good = false
			}
		})
		r.Check(good && n > 0, ruleExisting, "openNextPart: GetPart(part.store, part.id)", fn.Pos(), "store and id of the same partRange", "the lazy reader opens a part id through a store that was not recorded with it")
	}
	// any other GetPart/DeletePart of the package must be one of the above or on a fresh id
	for _, fn := range w.allFuncs {
		if fn.Pkg == nil || pkgRel(fn.Pkg.Pkg) != relMP {
			continue
		}
		for _, b := range fn.Blocks {
			for _, ins := range b.Instrs {
				if v, isSt := isFieldStore(ins, "store"); isSt && structNameOf(ins.(*ssa.Store).Addr.(*ssa.FieldAddr).X.Type()) == "partRange" {
					if !sliceContains(v, false, func(x ssa.Value) bool { return isCallNamed(x, "ByName") }) {
						r.Bad(ruleExisting, funcName(topFunc(fn))+": partRange.store not resolved by ByName", posOf(ins), "the store a part will be read from is not resolved from the part's recorded StoreName")
					}
				}
				c, ok := ins.(ssa.CallInstruction)
				if !ok || !c.Common().IsInvoke() {
					continue
				}
				m := c.Common().Method.Name()
				if m != "GetPart" && m != "DeletePart" {
					continue
				}
				if rn := recvNamedOfInvoke(c); rn == nil || rn.Obj().Name() != "PartStore" {
					continue
				}
				recv := c.Common().Value
				fromByName := sliceContains(recv, false, func(x ssa.Value) bool { return isCallNamed(x, "ByName") })
				fromField := func() bool { n, _ := fieldLoadName(recv); return n == "store" }()
				if fromByName || fromField {
					continue
				}
				// dedupeFreshPart: deletes the fresh id through the store it was written to
				id := c.Common().Args[len(c.Common().Args)-1]
				_, recvParam := unspill(recv).(*ssa.Parameter)
				_, idParam := unspill(id).(*ssa.Parameter)
				cons := funcName(topFunc(fn)) + ": " + m + " on a store not resolved by ByName"
				r.Check(recvParam && idParam && fn.Name() == "dedupeFreshPart", ruleExisting, cons, posOf(ins), "the caller's fresh id in the caller's store", "an existing part is addressed through a store that was not resolved from its recorded StoreName")
			}
		}
	}

	// ---- 2. fresh parts
	type fnInfo struct {
		sfc  []*ssa.Call
		puts int
	}
	infos := map[*ssa.Function]*fnInfo{}
	for _, fn := range w.allFuncs {
		if fn.Pkg == nil || pkgRel(fn.Pkg.Pkg) != relMP {
			continue
		}
		top := topFunc(fn)
		if infos[top] == nil {
			infos[top] = &fnInfo{}
		}
		for _, b := range fn.Blocks {
			for _, ins := range b.Instrs {
				if c, ok := ins.(*ssa.Call); ok && isCallNamed(c, "StoreForClass") {
					infos[top].sfc = append(infos[top].sfc, c)
				}
			}
		}
	}
	for _, fn := range w.allFuncs {
		if fn.Pkg == nil || pkgRel(fn.Pkg.Pkg) != relMP {
			continue
		}
		top := topFunc(fn)
		info := infos[top]
		ord := 0
		for _, b := range fn.Blocks {
			for _, ins := range b.Instrs {
				// PutPart
				if c, ok := ins.(ssa.CallInstruction); ok && c.Common().IsInvoke() && c.Common().Method.Name() == "PutPart" {
					info.puts++
					cons := fmt.Sprintf("%s: PutPart #%d", funcName(top), info.puts)
					sc, idx := storeForClassOf(c.Common().Value)
					id := c.Common().Args[len(c.Common().Args)-2]
					fresh := sliceContains(id, false, func(x ssa.Value) bool {
						if isCallNamed(x, "NewRandomPartId") {
							return true
						}
						if fv, ok := x.(*ssa.FreeVar); ok {
							if bnd := bindingOf(fv); bnd != nil {
								return sliceContains(bnd, false, func(y ssa.Value) bool { return isCallNamed(y, "NewRandomPartId") })
							}
						}
						return false
					})
					switch {
					case len(info.sfc) != 1:
						r.Bad(ruleFresh, cons, posOf(ins), fmt.Sprintf("the function resolves %d stores with StoreForClass: which one a part lands in is not determined by one class", len(info.sfc)))
					case sc != info.sfc[0] || idx != 1:
						r.Bad(ruleFresh, cons, posOf(ins), "the bytes are not written to the store StoreForClass returned")
					case !fresh:
						r.Bad(ruleFresh, cons, posOf(ins), "the part id written is not freshly generated")
					default:
						r.OK(ruleFresh, cons, posOf(ins), "fresh id → the StoreForClass store")
					}
				}
				// StoreName labels
				st, ok := ins.(*ssa.Store)
				if !ok {
					continue
				}
				fa, ok := st.Addr.(*ssa.FieldAddr)
				if !ok || structNameOf(fa.X.Type()) != "Part" || fieldName(fa.X.Type(), fa.Field) != "StoreName" {
					continue
				}
				ord++
				cons := fmt.Sprintf("%s: Part.StoreName #%d", funcName(fn), ord)
				if n, _ := fieldLoadName(st.Val); n == "StoreName" {
					r.OK(ruleFresh, cons, posOf(st), "copied from the existing part")
					continue
				}
				sc, idx := storeForClassOf(st.Val)
				r.Check(len(info.sfc) == 1 && sc == info.sfc[0] && idx == 0, ruleFresh, cons, posOf(st), "the name returned by the function's StoreForClass call", "the recorded store name is not the name of the store the bytes were written to: readers resolve the part in the wrong store")
			}
		}
	}

	// ---- 3. class sources
	classSrc := map[string]func(arg ssa.Value, top *ssa.Function) (bool, string){
		"PutObject": func(a ssa.Value, top *ssa.Function) (bool, string) {
			return derivesFromFieldOf(a, "StorageClass", func(x ssa.Value) bool { return isOptsParam(x, top) }), "opts.StorageClass of the request"
		},
		"AppendObject": func(a ssa.Value, top *ssa.Function) (bool, string) {
			return derivesFromFieldOf(a, "StorageClass", func(x ssa.Value) bool { return isCallNamed(x, "HeadObject") }), "StorageClass of the object read"
		},
		"UploadPart": func(a ssa.Value, top *ssa.Function) (bool, string) {
			return derivesFromFieldOf(a, "StorageClass", func(x ssa.Value) bool { return isCallNamed(x, "GetMultipartUpload") }), "StorageClass of the upload row"
		},
		"UploadPartCopy": func(a ssa.Value, top *ssa.Function) (bool, string) {
			return derivesFromFieldOf(a, "StorageClass", func(x ssa.Value) bool { return isCallNamed(x, "GetMultipartUpload") }), "StorageClass of the upload row"
		},
		"CopyObject": func(a ssa.Value, top *ssa.Function) (bool, string) {
			// leaves only: StorageClass fields read from something that is not the local
			// destination object under construction
			fromReq, fromSrc := false, false
			backSlice(a, false, func(x ssa.Value) {
				fa, ok := x.(*ssa.FieldAddr)
				if !ok || fieldName(fa.X.Type(), fa.Field) != "StorageClass" {
					return
				}
				if _, local := fa.X.(*ssa.Alloc); local {
					return
				}
				if sliceContains(fa.X, false, func(y ssa.Value) bool { return isOptsParam(y, top) }) {
					fromReq = true
				}
				if sliceContains(fa.X, false, func(y ssa.Value) bool { return isCallNamed(y, "HeadObject", "HeadObjectVersion") }) {
					fromSrc = true
				}
			})
			return fromReq && !fromSrc, "StorageClass of the copy request only (never the source object's)"
		},
		"TransitionObjectStorageClass": func(a ssa.Value, top *ssa.Function) (bool, string) {
			p, ok := unspill(stripConv(a)).(*ssa.Parameter)
			return ok && p.Parent() == top && strings.Contains(strings.ToLower(p.Name()), "class"), "the target class parameter"
		},
	}
	for top, info := range infos {
		for _, c := range info.sfc {
			cons := funcName(top) + ": StoreForClass argument"
			chk, ok := classSrc[top.Name()]
			if !ok {
				r.Bad(ruleClass, cons, posOf(c), "StoreForClass called from a function without a frozen class source")
				continue
			}
			arg := c.Call.Args[len(c.Call.Args)-1]
			good, want := chk(arg, top)
			// EffectiveStorageClass wrapper where the class is a *string
			if eff, _ := extractOf(arg); eff != nil && isCallNamed(eff, "EffectiveStorageClass") {
				good, want = chk(eff.Call.Args[0], top)
			}
			r.Check(good, ruleClass, cons, posOf(c), want, "the routing class is not "+want+": the part is written to the store of another class")
		}
	}

	checkC14PartRows(w, r)
	checkC14SQL(w, r, ruleSQL)
	checkC14Share(w, r, ruleShare)
	ruleGone := r.Rule("transition-deletes-only-unreferenced-source-parts", "F9",
		"after the metadata swap TransitionObjectStorageClass deletes exactly the parts the metadata store reported as unreferenced — a relocated source part that another object or version still shares stays in its store", 1)
	checkUnreferencedDefUse(w, r, ruleGone, ".TransitionObjectStorageClass")
	r.NotCovered("byte identity of relocated parts (the copy loop streams GetPart into PutPart: C15); that configuration maps classes to the intended stores; reads after a store was removed from the configuration")
}

func isOptsParam(x ssa.Value, top *ssa.Function) bool {
	if p, ok := x.(*ssa.Parameter); ok && p.Parent() == top && strings.HasSuffix(structNameOf(p.Type()), "Options") {
		return true
	}
	if fv, ok := x.(*ssa.FreeVar); ok {
		if b := bindingOf(fv); b != nil {
			return sliceContains(b, false, func(y ssa.Value) bool {
				p, ok := y.(*ssa.Parameter)
				return ok && p.Parent() == top && strings.HasSuffix(structNameOf(p.Type()), "Options")
			})
		}
	}
	return false
}

func checkC14SQL(w *World, r *Run, rule string) {
	fn := w.SSAFunc(relSQLStore, "sqlMetadataStore.TransitionObject")
	if fn == nil {
		r.Anchor(rule, "sqlMetadataStore.TransitionObject")
		return
	}
	var cas, rm, save *ssa.Call
	var finds []*ssa.Call
	otherWrites := ""
	allInstrs(fn, false, func(_ *ssa.Function, ins ssa.Instruction) {
		c, ok := ins.(*ssa.Call)
		if !ok {
			return
		}
		switch {
		case isCallNamed(c, "UpdateObjectByIdAndOptimisticLockVersion"):
			cas = c
		case isCallNamed(c, "FindObjectByBucketNameAndKey", "FindObjectByBucketNameAndKeyAndVersionID"):
			finds = append(finds, c)
		case isCallNamed(c, "removePartRowsByObjectId"):
			rm = c
		case isCallNamed(c, "savePartRows"):
			save = c
		default:
			if c.Call.IsInvoke() {
				if n := recvNamedOfInvoke(c); n != nil && n.Obj().Pkg() != nil && strings.Contains(n.Obj().Pkg().Path(), "/repository/") {
					m := c.Call.Method.Name()
					if strings.HasPrefix(m, "Save") || strings.HasPrefix(m, "Delete") || strings.HasPrefix(m, "Update") || strings.HasPrefix(m, "Replace") {
						otherWrites = m + " at " + w.Pos(posOf(c))
					}
				}
			}
		}
	})
	r.Check(otherWrites == "", rule, "TransitionObject performs no other row mutation", fn.Pos(), "only the CAS update and the part-row swap", "additional mutation "+otherWrites+": the transition changes more than the storage class")
	if cas == nil || len(finds) == 0 || rm == nil || save == nil {
		r.Bad(rule, "TransitionObject shape", fn.Pos(), "CAS update, row lookup or part-row swap missing")
		return
	}
	isRow := func(x ssa.Value) bool {
		for _, f := range finds {
			if x == ssa.Value(f) {
				return true
			}
		}
		return false
	}
	// field stores on the loaded row
	okFields, n := true, 0
	why := ""
	allInstrs(fn, false, func(_ *ssa.Function, ins ssa.Instruction) {
		st, ok := ins.(*ssa.Store)
		if !ok {
			return
		}
		fa, ok := st.Addr.(*ssa.FieldAddr)
		if !ok || structNameOf(fa.X.Type()) != "Entity" || !sliceContains(fa.X, false, isRow) {
			return
		}
		n++
		name := fieldName(fa.X.Type(), fa.Field)
		if name != "StorageClass" {
			okFields = false
			why = "field " + name + " of the row is overwritten"
			return
		}
		fromParam := sliceContains(st.Val, false, func(x ssa.Value) bool {
			p, ok := x.(*ssa.Parameter)
			return ok && strings.Contains(strings.ToLower(p.Name()), "class")
		})
		if !fromParam {
			okFields = false
			why = "StorageClass is not set from the requested class"
		}
	})
	r.Check(okFields && n == 1, rule, "TransitionObject overwrites only StorageClass of the loaded row", fn.Pos(), "objectEntity.StorageClass = &storageClass", why+": version id, ETag, metadata or timestamps of the object change with the transition")
	// CAS on the same row with its version, under the ETag precondition
	ent := cas.Call.Args[len(cas.Call.Args)-2]
	vn, vb := fieldLoadName(cas.Call.Args[len(cas.Call.Args)-1])
	sameRow := sliceContains(ent, false, isRow) && vn == "OptimisticLockVersion" && sliceContains(vb, false, isRow)
	if _, isAlloc := stripConv(ent).(*ssa.Alloc); isAlloc {
		sameRow = false // a rebuilt entity would drop the columns it does not copy
	}
	etag := false
	for _, f := range factsAt(cas.Block()) {
		if f.Kind == EqConst && f.Other != nil {
			a, b := f.Val, f.Other
			an, _ := fieldLoadName(a)
			bn, _ := fieldLoadName(b)
			_, ap := unspill(a).(*ssa.Parameter)
			_, bp := unspill(b).(*ssa.Parameter)
			if (an == "ETag" && bp) || (bn == "ETag" && ap) {
				etag = true
			}
		}
	}
	r.Check(sameRow, rule, "TransitionObject writes the loaded row back through its own CAS", posOf(cas), "Update…OptimisticLockVersion(objectEntity, objectEntity.OptimisticLockVersion)", "the row written back is not the loaded row keyed with its own lock version: columns are lost or a concurrent replacement is overwritten")
	r.Check(etag, rule, "TransitionObject requires the expected ETag", posOf(cas), "objectEntity.ETag == expectedETag dominates the update", "the storage class (and part rows) of an object whose content changed since the caller read it is swapped")
	lost := false
	for _, ret := range returnsOf(fn) {
		if !isFailureReturn(ret) {
			continue
		}
		for _, f := range factsAt(ret.Block()) {
			if f.Kind == IsFalse && sliceContains(f.Val, false, func(x ssa.Value) bool { return x == ssa.Value(cas) }) {
				lost = true
			}
		}
	}
	r.Check(lost, rule, "TransitionObject fails on a lost CAS", fn.Pos(), "!*updated → error", "a lost CAS is ignored and the part rows of a row replaced concurrently are swapped")
	// part rows of the same id, parts parameter, offset 0, after the CAS
	idOf := func(v ssa.Value) bool {
		n, b := fieldLoadName(stripConv(v))
		if n == "Id" && sliceContains(b, false, isRow) {
			return true
		}
		// *objectEntity.Id
		if ld, ok := stripConv(v).(*ssa.UnOp); ok && ld.Op == token.MUL {
			n, b = fieldLoadName(ld.X)
			return n == "Id" && sliceContains(b, false, isRow)
		}
		return false
	}
	swapOK := idOf(rm.Call.Args[len(rm.Call.Args)-1]) && idOf(save.Call.Args[len(save.Call.Args)-3]) && instrDominates(cas, rm) && instrDominates(rm, save)
	_, partsParam := unspill(save.Call.Args[len(save.Call.Args)-2]).(*ssa.Parameter)
	off, isOff := intConst(save.Call.Args[len(save.Call.Args)-1])
	r.Check(swapOK && partsParam && isOff && off == 0, rule, "TransitionObject swaps the part rows of the same row", posOf(save), "remove rows of objectEntity.Id, then savePartRows(objectEntity.Id, parts, 0)", "the part rows replaced are not those of the transitioned row, or the new rows are not the parts handed in from sequence 0")
}

func checkC14Share(w *World, r *Run, rule string) {
	for _, name := range []string{"TransitionObjectStorageClass", "CopyObject"} {
		top := w.SSAFunc(relMP, "metadataPartStorage."+name)
		if top == nil {
			r.Anchor(rule, "metadataPartStorage."+name)
			continue
		}
		nShare, nMove := 0, 0
		allInstrs(top, true, func(fn *ssa.Function, ins ssa.Instruction) {
			// (a) sharing: appends of a source part id to the TryAddPartReferences list
			st, ok := ins.(*ssa.Store)
			if !ok {
				return
			}
			if v, isF := isFieldStore(ins, "RefPreAcquired"); isF {
				if bv, isb := boolConst(v); !isb || !bv {
					return
				}
				// shared via dedup index (tryShareDedupPart) is a different mechanism: it
				// returns an id of the destination store by construction of the index key
				viaDedup := false
				sameStore := false
				for _, f := range factsAt(ins.Block()) {
					if f.Kind == NonNil {
						if c, _ := extractOf(f.Val); c != nil && isCallNamed(c, "tryShareDedupPart") {
							viaDedup = true
						}
					}
					if f.Kind == IsTrue {
						if c, ok := f.Val.(*ssa.Call); ok && isCallNamed(c, "partStoreNamesEqual") {
							n0, _ := fieldLoadName(c.Call.Args[0])
							sc, idx := storeForClassOf(c.Call.Args[1])
							if n0 == "StoreName" && sc != nil && idx == 0 {
								sameStore = true
							}
						}
					}
				}
				if viaDedup {
					return
				}
				nShare++
				r.Check(sameStore, rule, fmt.Sprintf("%s: shared part #%d stays in its store", name, nShare), posOf(ins), "under partStoreNamesEqual(srcPart.StoreName, target store name)", "a source part id is kept although its store is not known to be the target store: after the transition/copy the object's data does not live in the store mapped to its class")
				return
			}
			// (b) relocation: a fresh Id store must be followed by the StoreName label
			if v, isF := isFieldStore(ins, "Id"); isF && structNameOf(st.Addr.(*ssa.FieldAddr).X.Type()) == "Part" {
				if !sliceContains(v, false, func(x ssa.Value) bool { return isCallNamed(x, "NewRandomPartId", "tryShareDedupPart") }) {
					return
				}
				nMove++
				labelled := func(i ssa.Instruction) bool {
					v2, ok := isFieldStore(i, "StoreName")
					if !ok {
						return false
					}
					sc, idx := storeForClassOf(v2)
					return sc != nil && idx == 0
				}
				sinks := sinksReachable(ins, labelled, nil, func(i ssa.Instruction) bool {
					_, m := mdStoreInvoke(i)
					return c08PartWriters[m]
				})
				r.Check(len(sinks) == 0, rule, fmt.Sprintf("%s: relocated part #%d is labelled with the target store", name, nMove), posOf(ins), "StoreName = target store name before the metadata write", "a part that received a new id in the target store keeps the source store's name: readers look for it in the wrong store")
			}
		})
		if nShare == 0 || nMove == 0 {
			r.Bad(rule, name+": share/relocate branches", top.Pos(), "the expected sharing and relocation branches were not found")
		}
	}
}

// checkC14PartRows: wherever the SQL metadata store builds a metadatastore.Part from a part
// row, every field of Part that the row records — the store name above all — is copied;
// a Part without its StoreName is looked up in the default store.
func checkC14PartRows(w *World, r *Run) {
	rule := r.Rule("part-rows-keep-their-store-name", "F3",
		"every metadatastore.Part the SQL metadata store builds from a part row (Id ← entity.PartId) also sets StoreName ← entity.PartStoreName, ETag, Size and the five checksums from the same row", 3)
	partT := w.Named(relMDStore, "Part")
	if partT == nil {
		r.Anchor(rule, "metadatastore.Part")
		return
	}
	want := map[string]string{"Id": "PartId", "StoreName": "PartStoreName", "ETag": "ETag", "Size": "Size",
		"ChecksumCRC32": "ChecksumCRC32", "ChecksumCRC32C": "ChecksumCRC32C", "ChecksumCRC64NVME": "ChecksumCRC64NVME", "ChecksumSHA1": "ChecksumSHA1", "ChecksumSHA256": "ChecksumSHA256"}
	n := 0
	for _, fn := range w.allFuncs {
		if fn.Pkg == nil || pkgRel(fn.Pkg.Pkg) != relSQLStore {
			continue
		}
		// group field stores by the literal (Alloc) they fill
		lits := map[ssa.Value]map[string]string{}
		var order []ssa.Value
		for _, b := range fn.Blocks {
			for _, ins := range b.Instrs {
				st, ok := ins.(*ssa.Store)
				if !ok {
					continue
				}
				fa, ok := st.Addr.(*ssa.FieldAddr)
				if !ok || structNameOf(fa.X.Type()) != "Part" {
					continue
				}
				src, _ := fieldLoadName(st.Val)
				if src == "" {
					if f, ok := st.Val.(*ssa.Field); ok {
						src = fieldName(f.X.Type(), f.Field)
					}
				}
				if lits[fa.X] == nil {
					lits[fa.X] = map[string]string{}
					order = append(order, fa.X)
				}
				lits[fa.X][fieldName(fa.X.Type(), fa.Field)] = src
			}
		}
		for _, l := range order {
			fs := lits[l]
			if fs["Id"] != "PartId" {
				continue // not built from a part row
			}
			n++
			missing := ""
			for k, v := range want {
				if fs[k] != v {
					missing = k
				}
			}
			pos := token.NoPos
			if ins, ok := l.(ssa.Instruction); ok {
				pos = posOf(ins)
			}
			r.Check(missing == "", rule, fmt.Sprintf("%s: Part from part row #%d", shortSQLFunc(fn), n), pos, "all recorded fields copied", "the Part built from a part row lacks "+missing+" (← "+want[missing]+"): with the store name missing the part is resolved in the default store — an object whose data was routed or transitioned to another store becomes unreadable on this path")
		}
	}
	_ = partT
}
