package main

import (
	"fmt"
	"go/token"
	"go/types"
	"strings"

	"golang.org/x/tools/go/ssa"
)

// C08 — no referenced part content is ever deleted.
func init() { register("C08", checkC08) }

const (
	relPartStore = "internal/storage/metadatapart/partstore"
	relGC        = "internal/storage/metadatapart/gc"
	relMDStore   = "internal/storage/metadatapart/metadatastore"
)

// functions that may ask a part store to delete content, with the reason the deletion is
// safe there. Methods named DeletePart on a PartStore implementation forward their own
// deletion and are accepted structurally.
var c08DeleteCallers = map[string]string{
	"(*internal/storage/metadatapart.metadataPartStorage).deleteUnreferencedParts":       "deletes exactly the parts the metadata store reported unreferenced in the same transaction (rule unreferenced-def-use)",
	"(*internal/storage/metadatapart.metadataPartStorage).dedupeFreshPart":               "deletes the part id it was handed as freshly written and not yet recorded, after a shared id was acquired",
	"(*internal/storage/metadatapart/gc.partGC).runGCWithContext":                        "only after Condemn returned true (rule gc-delete-requires-condemn)",
	"(*internal/storage/metadatapart/partstore/outbox.outboxPartStore).replayDeletePart": "replays a DeletePart that was accepted earlier by this same store",
	"internal/storage/metadatapart/partstore.Tester":                                     "exported self-test helper; deletes the id it created itself",
}

// metadata-store methods that record part rows handed in by the caller.
var c08PartWriters = map[string]bool{
	"PutObject": true, "AppendObject": true, "UploadPart": true, "TransitionObject": true,
	"CompleteMultipartUpload": false, // takes no parts from the caller
}

func isPartStoreDelete(c ssa.CallInstruction) bool {
	f := calleeObj(c)
	if f == nil || f.Name() != "DeletePart" {
		return false
	}
	sig := f.Type().(*types.Signature)
	if sig.Params().Len() != 3 {
		return false
	}
	n, ok := types.Unalias(sig.Params().At(2).Type()).(*types.Named)
	return ok && n.Obj().Name() == "PartId"
}

func mdStoreInvoke(ins ssa.Instruction) (ssa.CallInstruction, string) {
	c, ok := ins.(ssa.CallInstruction)
	if !ok || !c.Common().IsInvoke() {
		return nil, ""
	}
	n := recvNamedOfInvoke(c)
	if n == nil || n.Obj().Name() != "MetadataStore" {
		return nil, ""
	}
	return c, c.Common().Method.Name()
}

func recvNamedOfInvoke(c ssa.CallInstruction) *types.Named {
	t := c.Common().Value.Type()
	n, _ := types.Unalias(t).(*types.Named)
	return n
}

// extractOf: v is result #i of a call; returns the call.
func extractOf(v ssa.Value) (*ssa.Call, int) {
	v = stripConv(v)
	if e, ok := v.(*ssa.Extract); ok {
		if c, ok := e.Tuple.(*ssa.Call); ok {
			return c, e.Index
		}
	}
	if c, ok := v.(*ssa.Call); ok {
		return c, 0
	}
	return nil, -1
}

// isFieldStore: ins stores into field `name` of some struct; returns the stored value.
func isFieldStore(ins ssa.Instruction, name string) (ssa.Value, bool) {
	st, ok := ins.(*ssa.Store)
	if !ok {
		return nil, false
	}
	fa, ok := st.Addr.(*ssa.FieldAddr)
	if !ok || fieldName(fa.X.Type(), fa.Field) != name {
		return nil, false
	}
	return st.Val, true
}

func sliceContains(v ssa.Value, throughArgs bool, pred func(ssa.Value) bool) bool {
	found := false
	backSlice(v, throughArgs, func(x ssa.Value) {
		if pred(x) {
			found = true
		}
	})
	return found
}

func isCallNamed(v ssa.Value, names ...string) bool {
	c, ok := v.(*ssa.Call)
	if !ok {
		return false
	}
	var n string
	if c.Call.IsInvoke() {
		n = c.Call.Method.Name()
	} else if f := calleeObj(c); f != nil {
		n = f.Name()
	}
	for _, x := range names {
		if n == x {
			return true
		}
	}
	return false
}

func checkC08(w *World, r *Run) {
	ruleWho := r.Rule("deletepart-who-may-call", "F6",
		"PartStore.DeletePart is called only from the frozen set of functions that are entitled to delete content (unreferenced-part clean-up, fresh duplicate removal, GC after Condemn, outbox replay, self-test) and from DeletePart methods of stores forwarding their own deletion", 11)
	ruleGC := r.Rule("gc-delete-requires-condemn", "F1",
		"in the garbage collector every DeletePart is for an id for which Condemn returned true (directly, or through the slice that is appended to only on that branch); candidates are only ids whose creation time is before now − grace window", 3)
	ruleDefUse := r.Rule("unreferenced-def-use", "F9",
		"the slice handed to deleteUnreferencedParts is the UnreferencedParts field of a metadata-store result obtained in the same function", 11)
	ruleReuse := r.Rule("reused-part-ids-are-pre-acquired", "F1",
		"a metadatastore.Part copied from an existing object's part list and then handed to a metadata write either gets a fresh part id or has RefPreAcquired set; RefPreAcquired is set only where TryAddPartReferences returned true for that id (or the id came from tryShareDedupPart/dedupeFreshPart, which acquire it)", 9)
	ruleSQL := r.Rule("registry-statements-refuse-condemned-rows", "F4",
		"TryAddReferences only increments rows with ref_count > 0 and reports false when no row was updated; RemoveReferences only decrements rows with ref_count >= delta and reports an id unreferenced only when the returned count is 0; Condemn deletes the registry row only after ref_count = 0 and a fresh COUNT(*) of parts rows = 0 (both dialects)", 12)
	ruleBook := r.Rule("part-row-bookkeeping", "F1",
		"savePartRows registers exactly the ids without RefPreAcquired; removePartEntities returns only ids RemoveReferences reported as dropped to zero", 3)

	PS := w.Iface(relPartStore, "PartStore")
	if PS == nil {
		r.Anchor(ruleWho, "partstore.PartStore")
		return
	}

	// ---- 1. who may call DeletePart
	for _, fn := range w.allFuncs {
		for _, b := range fn.Blocks {
			for _, ins := range b.Instrs {
				c, ok := ins.(ssa.CallInstruction)
				if !ok || !isPartStoreDelete(c) {
					continue
				}
				top := topFunc(fn)
				name := funcName(top)
				cons := name + " → DeletePart"
				if obj, ok := top.Object().(*types.Func); ok && obj.Name() == "DeletePart" {
					if n := recvNamed(obj); n != nil && (types.Implements(n, PS) || types.Implements(types.NewPointer(n), PS)) {
						r.OK(ruleWho, cons, posOf(ins), "store forwarding its own DeletePart")
						continue
					}
				}
				if why, ok := c08DeleteCallers[name]; ok {
					r.OK(ruleWho, cons, posOf(ins), why)
					continue
				}
				r.Bad(ruleWho, cons, posOf(ins), "DeletePart called from a function that is not entitled to delete part content: nothing shows the id is unreferenced")
			}
		}
	}

	checkC08GC(w, r, ruleGC)

	// ---- 3. def-use of deleteUnreferencedParts
	checkUnreferencedDefUse(w, r, ruleDefUse, "")

	checkC08Reuse(w, r, ruleReuse)
	checkC08SQL(w, r, ruleSQL)
	checkC08ReconciliationCountsRows(w, r, ruleSQL)
	checkC08Book(w, r, ruleBook)

	checkTxFinalization(w, r)
	r.NotCovered("the interleavings themselves (two transactions racing on the registry row): the rules show that every deletion is gated on the registry/parts-table state read in the deleting transaction and that every sharer increments the registry with the ref_count > 0 guard, not that the database isolates them; part stores deleting content on their own (cache eviction, erasure-coding repair)")
}

func checkC08GC(w *World, r *Run, rule string) {
	gcFn := w.SSAFunc(relGC, "partGC.runGCWithContext")
	if gcFn == nil {
		r.Anchor(rule, "gc.(*partGC).runGCWithContext")
		return
	}
	isCondemnTrue := func(f Fact) bool {
		if f.Kind != IsTrue {
			return false
		}
		c, i := extractOf(f.Val)
		return c != nil && i == 0 && isCallNamed(c, "Condemn")
	}
	condemnArg := func(fs []Fact) ssa.Value {
		for _, f := range fs {
			if isCondemnTrue(f) {
				c, _ := extractOf(f.Val)
				return c.Call.Args[len(c.Call.Args)-1]
			}
		}
		return nil
	}
	// slices appended to only under Condemn == true
	condemnedSlices := map[ssa.Value]bool{} // Alloc in the outer function
	allInstrs(gcFn, true, func(fn *ssa.Function, ins ssa.Instruction) {
		st, ok := ins.(*ssa.Store)
		if !ok {
			return
		}
		fv, ok := st.Addr.(*ssa.FreeVar)
		if !ok || !strings.Contains(fv.Type().String(), "PartId") {
			return
		}
		if _, isSlice := fv.Type().(*types.Pointer).Elem().Underlying().(*types.Slice); !isSlice {
			return
		}
		// resolve the binding
		var outer ssa.Value
		allInstrs(fn.Parent(), false, func(_ *ssa.Function, i2 ssa.Instruction) {
			if mc, ok := i2.(*ssa.MakeClosure); ok && mc.Fn == fn {
				for i, f := range fn.FreeVars {
					if f == fv && i < len(mc.Bindings) {
						outer = mc.Bindings[i]
					}
				}
			}
		})
		if outer == nil {
			return
		}
		arg := condemnArg(factsAt(st.Block()))
		isAppendOf := func(v ssa.Value) ssa.Value {
			c, ok := v.(*ssa.Call)
			if !ok {
				return nil
			}
			if b, ok := c.Call.Value.(*ssa.Builtin); !ok || b.Name() != "append" {
				return nil
			}
			// appended element(s): the slice literal built for the variadic argument
			var el ssa.Value
			backSlice(c.Call.Args[1], false, func(x ssa.Value) {
				if a, ok := x.(*ssa.Alloc); ok {
					for _, ref := range *a.Referrers() {
						if ia, ok := ref.(*ssa.IndexAddr); ok {
							for _, s := range storesTo(ia) {
								el = s
							}
						}
					}
				}
			})
			return el
		}
		el := isAppendOf(st.Val)
		if arg != nil && el != nil && sameValue(el, arg) {
			if _, seen := condemnedSlices[outer]; !seen {
				condemnedSlices[outer] = true
			}
		} else if a, ok := outer.(*ssa.Alloc); ok && a.Comment == "external" {
			condemnedSlices[outer] = false
		} else if prev, seen := condemnedSlices[outer]; seen && prev {
			condemnedSlices[outer] = false
		}
	})
	n := 0
	allInstrs(gcFn, true, func(fn *ssa.Function, ins ssa.Instruction) {
		c, ok := ins.(ssa.CallInstruction)
		if !ok || !isPartStoreDelete(c) {
			return
		}
		n++
		id := c.Common().Args[len(c.Common().Args)-1]
		cons := "runGCWithContext → DeletePart"
		if fn != gcFn {
			cons += " (in transaction)"
		} else {
			cons += " (after commit)"
		}
		if arg := condemnArg(factsAt(ins.Block())); arg != nil && sameValue(arg, id) {
			r.OK(rule, cons, posOf(ins), "dominated by Condemn(id) == true for the same id")
			return
		}
		// id ranges over a slice filled only with condemned ids
		ok2 := false
		backSlice(id, false, func(x ssa.Value) {
			if v, seen := condemnedSlices[x]; seen && v {
				ok2 = true
			}
		})
		r.Check(ok2, rule, cons, posOf(ins), "id ranges over a slice that is appended to only where Condemn(id) returned true", "the part is deleted without Condemn having returned true for it: referenced content can be removed")
	})
	if n == 0 {
		r.Bad(rule, "runGCWithContext → DeletePart", gcFn.Pos(), "no DeletePart call found in the collector")
	}
	// candidates: appended only under CreatedAt().Before(cutoff), cutoff = now - graceWindow;
	// Condemn's argument ranges over candidates.
	var condemn *ssa.Call
	allInstrs(gcFn, true, func(_ *ssa.Function, ins ssa.Instruction) {
		if c, ok := ins.(*ssa.Call); ok && isCallNamed(c, "Condemn") {
			condemn = c
		}
	})
	if condemn == nil {
		r.Bad(rule, "runGCWithContext → Condemn", gcFn.Pos(), "no Condemn call")
		return
	}
	var candAlloc ssa.Value
	backSlice(condemn.Call.Args[len(condemn.Call.Args)-1], false, func(x ssa.Value) {
		if fv, ok := x.(*ssa.FreeVar); ok {
			x = bindingOf(fv)
		}
		if a, ok := x.(*ssa.Alloc); ok && a.Parent() == gcFn {
			if _, isSlice := a.Type().(*types.Pointer).Elem().Underlying().(*types.Slice); isSlice {
				candAlloc = a
			}
		}
	})
	if candAlloc == nil {
		r.Unk(rule, "runGCWithContext candidates", posOf(condemn), "cannot resolve the slice Condemn's ids range over")
		return
	}
	allOK, stores := true, 0
	why := ""
	allInstrs(gcFn, true, func(fn *ssa.Function, ins ssa.Instruction) {
		st, ok := ins.(*ssa.Store)
		if !ok || fn == gcFn {
			return
		}
		fv, ok := st.Addr.(*ssa.FreeVar)
		if !ok {
			return
		}
		bound := false
		allInstrs(fn.Parent(), false, func(_ *ssa.Function, i2 ssa.Instruction) {
			if mc, ok := i2.(*ssa.MakeClosure); ok && mc.Fn == fn {
				for i, f := range fn.FreeVars {
					if f == fv && i < len(mc.Bindings) && mc.Bindings[i] == candAlloc {
						bound = true
					}
				}
			}
		})
		if !bound {
			return
		}
		stores++
		good := false
		for _, f := range factsAt(st.Block()) {
			if f.Kind != IsTrue {
				continue
			}
			c, ok := f.Val.(*ssa.Call)
			if !ok || !isCallNamed(c, "Before") {
				continue
			}
			// receiver: id.CreatedAt(); argument: cutoff derived from graceWindow
			recvOK := sliceContains(c.Call.Args[0], true, func(x ssa.Value) bool { return isCallNamed(x, "CreatedAt") })
			cutOK := sliceContains(c.Call.Args[1], true, func(x ssa.Value) bool {
				n, _ := fieldLoadName(x)
				return n == "graceWindow"
			}) && sliceContains(c.Call.Args[1], true, func(x ssa.Value) bool {
				u, ok := x.(*ssa.UnOp)
				return ok && u.Op == token.SUB
			})
			if recvOK && cutOK {
				good = true
			} else {
				why = "the Before() guard does not compare the id's creation time with now − graceWindow"
			}
		}
		if !good {
			allOK = false
			if why == "" {
				why = "an id becomes a deletion candidate without CreatedAt().Before(cutoff) having been true"
			}
		}
	})
	r.Check(allOK && stores > 0, rule, "runGCWithContext candidates older than the grace window", posOf(condemn), "candidates are appended only where id.CreatedAt().Before(now − graceWindow)", why+": a part whose row is not committed yet can be collected")
}

func checkC08Reuse(w *World, r *Run, rule string) {
	p := w.Pkg(relMP)
	if p == nil {
		r.Anchor(rule, relMP)
		return
	}
	partT := w.Named(relMDStore, "Part")
	if partT == nil {
		r.Anchor(rule, "metadatastore.Part")
		return
	}
	isPartWrite := func(ins ssa.Instruction) bool {
		_, m := mdStoreInvoke(ins)
		return c08PartWriters[m]
	}
	acquiredTrue := func(f Fact) bool {
		if f.Kind != IsTrue {
			return false
		}
		c, i := extractOf(f.Val)
		return c != nil && i == 0 && isCallNamed(c, "TryAddPartReferences")
	}
	sharedNonNil := func(f Fact) bool {
		if f.Kind != NonNil {
			return false
		}
		c, i := extractOf(f.Val)
		return c != nil && i == 0 && isCallNamed(c, "tryShareDedupPart")
	}
	freshId := func(v ssa.Value) bool {
		return sliceContains(v, false, func(x ssa.Value) bool { return isCallNamed(x, "NewRandomPartId") }) ||
			sliceContains(v, false, func(x ssa.Value) bool { return isCallNamed(x, "tryShareDedupPart") })
	}
	copyOrd := map[string]int{}
	for _, fn := range w.allFuncs {
		if fn.Pkg == nil || pkgRel(fn.Pkg.Pkg) != relMP {
			continue
		}
		hasWrite := false
		for _, b := range fn.Blocks {
			for _, ins := range b.Instrs {
				if isPartWrite(ins) {
					hasWrite = true
				}
			}
		}
		if !hasWrite {
			continue
		}
		top := funcName(topFunc(fn))
		for _, b := range fn.Blocks {
			for _, ins := range b.Instrs {
				st, ok := ins.(*ssa.Store)
				if !ok {
					continue
				}
				// (a) whole-Part copy of an existing part
				if types.Identical(st.Val.Type(), partT) && partOrigin(st.Val, freshId, 0) == "foreign" && partDestReachesWrite(st.Addr, isPartWrite) {
					barrier := func(i ssa.Instruction) bool { return isDischarge(i, freshId) }
					sinks := sinksReachable(st, barrier, nil, isPartWrite)
					copyOrd[top]++
					cons := fmt.Sprintf("%s: copied part #%d %s", top, copyOrd[top], describeAddr(st.Addr))
					r.Check(len(sinks) == 0, rule, cons, posOf(st), "gets a fresh id or RefPreAcquired before any metadata write", "a part copied from an existing object reaches a metadata write keeping its id without RefPreAcquired: savePartRows registers the shared id a second time instead of counting a reference, and removing either owner condemns content the other still uses")
				}
				// (b) RefPreAcquired stores
				v, ok := isFieldStore(ins, "RefPreAcquired")
				if !ok {
					continue
				}
				cons := top + ": RefPreAcquired = " + describeVal(v)
				if bv, isb := boolConst(v); isb {
					if !bv {
						continue
					}
					fs := factsAt(b)
					good := false
					for _, f := range fs {
						if acquiredTrue(f) || sharedNonNil(f) {
							good = true
						}
					}
					if !good {
						// acquisition after the loop: every path to a write crosses added==true,
						// except the bypass "nothing was shared" which requires this block to
						// append to the slice handed to TryAddPartReferences
						var tryAdd *ssa.Call
						allInstrs(fn, false, func(_ *ssa.Function, i ssa.Instruction) {
							if c, ok := i.(*ssa.Call); ok && isCallNamed(c, "TryAddPartReferences") && canReach(st, c) {
								tryAdd = c
							}
						})
						if tryAdd != nil {
							ids := tryAdd.Call.Args[len(tryAdd.Call.Args)-1]
							appendsHere := sliceContains(ids, true, func(x ssa.Value) bool {
								c, ok := x.(*ssa.Call)
								if !ok || c.Block() != b {
									return false
								}
								bi, ok := c.Call.Value.(*ssa.Builtin)
								return ok && bi.Name() == "append"
							})
							blocked := func(d *ssa.BasicBlock, k int) bool {
								for _, f := range edgeFacts(d, k) {
									if f.Kind == IsFalse {
										if c, i := extractOf(f.Val); c == tryAdd && i == 0 {
											return true // !added edge: must fail (checked below)
										}
									}
									if appendsHere && factSaysEmpty(f, func(x ssa.Value) bool { return sameValue(x, ids) }) {
										return true
									}
								}
								return false
							}
							barrier := func(i ssa.Instruction) bool { return i == ssa.Instruction(tryAdd) }
							if appendsHere && len(sinksReachable(st, barrier, blocked, isPartWrite)) == 0 {
								// and the !added edge never reaches the write
								notAddedReaches, tested := false, false
								for _, bb := range fn.Blocks {
									for k := range bb.Succs {
										if len(bb.Succs) != 2 {
											continue
										}
										for _, f := range edgeFacts(bb, k) {
											if f.Kind == IsFalse {
												if c, i := extractOf(f.Val); c == tryAdd && i == 0 {
													tested = true
													tgt := bb.Succs[k]
													if len(tgt.Instrs) > 0 && len(sinksReachable(tgt.Instrs[0], nil, nil, isPartWrite)) > 0 {
														notAddedReaches = true
													}
													if len(tgt.Instrs) > 0 && isPartWrite(tgt.Instrs[0]) {
														notAddedReaches = true
													}
												}
											}
										}
									}
								}
								good = tested && !notAddedReaches
							}
						}
					}
					r.Check(good, rule, cons, posOf(ins), "set only where TryAddPartReferences returned true for the id (or the id was acquired by tryShareDedupPart)", "RefPreAcquired is set although no registry reference was acquired for the id on this path: the part row is written without being counted, and the next removal of a sharer condemns live content")
					continue
				}
				// variable: must be result #1 of dedupeFreshPart
				if c, i := extractOf(v); c != nil && i == 1 && isCallNamed(c, "dedupeFreshPart") {
					r.OK(rule, cons, posOf(ins), "reports whether dedupeFreshPart acquired a shared id (summary checked below)")
					continue
				}
				if _, isLoad := v.(*ssa.UnOp); isLoad {
					// copying the flag of another Part value field-by-field is not an idiom of the tree
					r.Bad(rule, cons, posOf(ins), "RefPreAcquired copied from another value: cannot show a reference was acquired")
					continue
				}
				r.Unk(rule, cons, posOf(ins), "unrecognised source of RefPreAcquired")
			}
		}
	}
	// summaries
	if fn := w.SSAFunc(relMP, "metadataPartStorage.dedupeFreshPart"); fn == nil {
		r.Anchor(rule, "metadataPartStorage.dedupeFreshPart")
	} else {
		good := true
		for _, ret := range returnsOf(fn) {
			v := retResult(ret, 1)
			if bv, isb := boolConst(v); isb && !bv {
				continue
			}
			ok := false
			for _, f := range factsAt(ret.Block()) {
				if sharedNonNil(f) {
					// and the returned id is that shared id
					if sliceContains(retResult(ret, 0), false, func(x ssa.Value) bool { return x == f.Val }) {
						ok = true
					}
				}
			}
			if !ok {
				good = false
			}
		}
		r.Check(good, rule, "dedupeFreshPart: shared=true ⇒ id acquired by tryShareDedupPart", fn.Pos(), "every return reporting a shared id returns the id tryShareDedupPart acquired", "dedupeFreshPart reports a pre-acquired reference for an id that was not acquired")
		// the fresh part is deleted only when a shared id replaces it
		for _, c := range callsTo(fn, false, func(f *types.Func) bool { return f.Name() == "DeletePart" }) {
			ok := false
			for _, f := range factsAt(c.Block()) {
				if sharedNonNil(f) {
					ok = true
				}
			}
			id := c.Common().Args[len(c.Common().Args)-1]
			isParam := paramIndex(fn, unspill(id)) >= 0
			r.Check(ok && isParam, rule, "dedupeFreshPart: deletes only the fresh id, only when shared", posOf(c), "DeletePart(freshID) under sharedID != nil", "dedupeFreshPart deletes a part other than the fresh duplicate, or deletes it without a shared replacement")
		}
	}
	if fn := w.SSAFunc(relMP, "metadataPartStorage.tryShareDedupPart"); fn == nil {
		r.Anchor(rule, "metadataPartStorage.tryShareDedupPart")
	} else {
		good := true
		for _, ret := range returnsOf(fn) {
			v := retResult(ret, 0)
			if definitelyNil(v) {
				continue
			}
			ok := false
			for _, f := range factsAt(ret.Block()) {
				if acquiredTrue(f) {
					ok = true
				}
			}
			if !ok {
				good = false
			}
		}
		r.Check(good, rule, "tryShareDedupPart: non-nil id ⇒ TryAddPartReferences returned true", fn.Pos(), "every non-nil return is dominated by added == true", "tryShareDedupPart hands out an indexed part id without having acquired a registry reference: the id may already be condemned")
	}
}

// isDischarge: ins sets RefPreAcquired = true or overwrites the Id with a freshly acquired one.
func isDischarge(i ssa.Instruction, freshId func(ssa.Value) bool) bool {
	if v, ok := isFieldStore(i, "RefPreAcquired"); ok {
		if bv, isb := boolConst(v); isb && bv {
			return true
		}
	}
	if v, ok := isFieldStore(i, "Id"); ok && freshId(v) {
		return true
	}
	return false
}

// partOrigin classifies a metadatastore.Part value: "fresh" (built from a literal in this
// function), "discharged" (a local copy whose id/flag was already settled before this use)
// or "foreign" (loaded from somebody else's part list).
func partOrigin(v ssa.Value, freshId func(ssa.Value) bool, depth int) string {
	ld, ok := v.(*ssa.UnOp)
	if !ok || ld.Op != token.MUL || depth > 6 {
		return "foreign"
	}
	a, ok := ld.X.(*ssa.Alloc)
	if !ok {
		return "foreign"
	}
	whole := storesTo(a)
	if len(whole) == 0 {
		return "fresh" // only field stores: a literal
	}
	for _, ref := range *a.Referrers() {
		if fa, ok := ref.(*ssa.FieldAddr); ok {
			for _, r2 := range *fa.Referrers() {
				if st, ok := r2.(*ssa.Store); ok && isDischarge(st, freshId) && instrDominates(st, ld) {
					return "discharged"
				}
			}
		}
	}
	res := "fresh"
	for _, w := range whole {
		if o := partOrigin(w, freshId, depth+1); o == "foreign" {
			return "foreign"
		} else if o == "discharged" {
			res = o
		}
	}
	return res
}

// partDestReachesWrite: the location a Part was stored into flows (as a Part, a slice of
// Parts or an Object's Parts field) into a metadata write.
func partDestReachesWrite(addr ssa.Value, isPartWrite func(ssa.Instruction) bool) bool {
	pred := func(u ssa.Instruction, via ssa.Value) bool {
		if isPartWrite(u) {
			return true
		}
		if st, ok := u.(*ssa.Store); ok && st.Val == via {
			if fa, ok := st.Addr.(*ssa.FieldAddr); ok && fieldName(fa.X.Type(), fa.Field) == "Parts" {
				return true
			}
		}
		return false
	}
	switch x := addr.(type) {
	case *ssa.Alloc:
		for _, ref := range *x.Referrers() {
			if ld, ok := ref.(*ssa.UnOp); ok && ld.Op == token.MUL {
				if forwardReaches(ld, pred) {
					return true
				}
			}
		}
		return false
	case *ssa.IndexAddr:
		if a, ok := x.X.(*ssa.Alloc); ok { // variadic pack
			return forwardReaches(a, pred)
		}
		// element of a slice value: every later use of that slice
		found := false
		backSlice(x.X, false, func(y ssa.Value) {
			if found {
				return
			}
			if _, isSlice := y.Type().Underlying().(*types.Slice); isSlice {
				if forwardReaches(y, pred) {
					found = true
				}
			}
		})
		return found
	}
	return true // unknown container: be conservative, demand the discharge
}

func describeAddr(a ssa.Value) string {
	switch x := a.(type) {
	case *ssa.Alloc:
		return "into " + x.Comment
	case *ssa.IndexAddr:
		if a, ok := x.X.(*ssa.Alloc); ok && a.Comment == "varargs" {
			return "into an append(…) argument"
		}
		return "into a parts-slice element"
	case *ssa.FieldAddr:
		return "into field " + fieldName(x.X.Type(), x.Field)
	}
	return "into " + a.Name()
}

func describeVal(v ssa.Value) string {
	switch x := v.(type) {
	case *ssa.Const:
		return x.String()
	case *ssa.UnOp:
		if a, ok := x.X.(*ssa.Alloc); ok {
			return a.Comment
		}
		if f, ok := x.X.(*ssa.FreeVar); ok {
			return f.Name()
		}
	case *ssa.Extract:
		if c, ok := x.Tuple.(*ssa.Call); ok {
			if f := calleeObj(c); f != nil {
				return f.Name() + "#" + string(rune('0'+x.Index))
			}
		}
	case *ssa.Call:
		if f := calleeObj(x); f != nil {
			return f.Name() + "(…)"
		}
		if b, ok := x.Call.Value.(*ssa.Builtin); ok {
			return b.Name() + "(…)"
		}
	case *ssa.Phi:
		return x.Comment
	case *ssa.Parameter:
		return x.Name()
	}
	return v.Name()
}

func checkC08SQL(w *World, r *Run, rule string) {
	stmts := collectSQL(w)
	find := func(d, name string) *sqlStmt {
		for _, s := range stmts {
			if s.Dialect == d && s.Entity == "partregistry" && s.Name == name {
				return s
			}
		}
		return nil
	}
	for _, d := range []string{"sqlite", "pgx"} {
		for _, want := range []struct{ stmt, conj, why string }{
			{"addReferencesStmt", "REF_COUNT > 0", "a sharer could revive a row whose count already dropped to zero: the part is condemned while a new reference is being recorded"},
			{"removeReferencesStmt", "REF_COUNT >= $1", "the count can go negative and later additions no longer keep it above zero"},
		} {
			s := find(d, want.stmt)
			cons := d + "/partregistry." + want.stmt + " WHERE " + strings.ToLower(want.conj)
			if s == nil {
				r.Anchor(rule, cons)
				continue
			}
			where := sqlClause(normalizeDialect(s.Toks), "WHERE")
			up := make([]string, len(where))
			for i, t := range where {
				up[i] = strings.ToUpper(t)
			}
			r.Check(hasConjunct(up, want.conj), rule, cons, s.Pos, "conjunct present", "conjunct missing: "+want.why)
		}
		relRepo := relDBRepo + "/" + d + "/repository/partregistry"
		var tname string
		if d == "sqlite" {
			tname = "sqliteRepository"
		} else {
			tname = "postgresRepository"
		}
		// TryAddReferences: false when no row updated
		if fn := w.SSAFunc(relRepo, tname+".TryAddReferences"); fn == nil {
			r.Anchor(rule, d+"/partregistry.TryAddReferences")
		} else {
			good := false
			for _, ret := range returnsOf(fn) {
				if bv, isb := boolConst(retResult(ret, 0)); isb && !bv && definitelyNil(retResult(ret, 1)) {
					for _, f := range factsAt(ret.Block()) {
						if f.Kind == EqConst && f.Const != nil {
							if n, ok := intConst(f.Const); ok && n == 0 {
								if c, _ := extractOf(f.Val); c != nil && isCallNamed(c, "RowsAffected") {
									good = true
								}
							}
						}
					}
				}
			}
			// every true return is outside the loop body's zero-rows edge
			for _, ret := range returnsOf(fn) {
				if bv, isb := boolConst(retResult(ret, 0)); isb && bv {
					for _, f := range factsAt(ret.Block()) {
						if f.Kind == EqConst && f.Const != nil {
							if c, _ := extractOf(f.Val); c != nil && isCallNamed(c, "RowsAffected") {
								good = false
							}
						}
					}
				}
			}
			r.Check(good, rule, d+"/partregistry.TryAddReferences reports false when a row was not updated", fn.Pos(), "RowsAffected() == 0 → return false", "a refused increment (condemned or missing row) is reported as acquired")
		}
		// RemoveReferences: unreferenced only under refCount == 0 scanned from the statement
		if fn := w.SSAFunc(relRepo, tname+".RemoveReferences"); fn == nil {
			r.Anchor(rule, d+"/partregistry.RemoveReferences")
		} else {
			n, good := 0, true
			allInstrs(fn, false, func(_ *ssa.Function, ins ssa.Instruction) {
				c, ok := ins.(*ssa.Call)
				if !ok {
					return
				}
				if b, ok := c.Call.Value.(*ssa.Builtin); !ok || b.Name() != "append" {
					return
				}
				if !strings.Contains(c.Type().String(), "PartId") {
					return
				}
				n++
				ok2 := false
				for _, f := range factsAt(c.Block()) {
					if f.Kind == EqConst && f.Const != nil {
						if k, isc := intConst(f.Const); isc && k == 0 && scannedFrom(f.Val, "removeReferencesStmt", 0) {
							ok2 = true
						}
					}
				}
				if !ok2 {
					good = false
				}
			})
			r.Check(good && n > 0, rule, d+"/partregistry.RemoveReferences reports an id only at count zero", fn.Pos(), "append dominated by the returned ref_count == 0", "an id is reported unreferenced although the statement did not return ref_count 0: its content is deleted while referenced")
		}
		// Condemn
		if fn := w.SSAFunc(relRepo, tname+".Condemn"); fn == nil {
			r.Anchor(rule, d+"/partregistry.Condemn")
		} else {
			good := true
			why := ""
			for _, ret := range returnsOf(fn) {
				v := retResult(ret, 0)
				if bv, isb := boolConst(v); isb && !bv {
					continue
				}
				if bo, ok := v.(*ssa.BinOp); ok && bo.Op == token.EQL {
					if k, isc := intConst(bo.Y); isc && k == 0 && scannedFrom(bo.X, "countPartsByPartIdStmt", 0) {
						// registry row missing: must be under ErrNoRows of the registry lookup
						continue
					}
				}
				// result of DeleteByPartId: requires ref == 0 and live == 0
				refZero, liveZero := false, false
				for _, f := range factsAt(ret.Block()) {
					if f.Kind == EqConst && f.Const != nil {
						if k, isc := intConst(f.Const); isc && k == 0 {
							if scannedFrom(f.Val, "findRegistryForCondemnStmt", 0) {
								refZero = true
							}
							if scannedFrom(f.Val, "countPartsByPartIdStmt", 0) {
								liveZero = true
							}
						}
					}
				}
				if c, _ := extractOf(v); c == nil || !isCallNamed(c, "DeleteByPartId") {
					good = false
					why = "returns a value that is neither false, live == 0 nor the result of the versioned registry delete"
				} else if !refZero || !liveZero {
					good = false
					why = "the registry row is deleted without both ref_count == 0 and a fresh COUNT(*) of parts rows == 0"
				}
			}
			r.Check(good, rule, d+"/partregistry.Condemn re-checks registry and parts rows", fn.Pos(), "true only with ref_count == 0 and no parts row", why+": GC deletes content that a committed row references")
		}
		if s := find(d, "countPartsByPartIdStmt"); s != nil {
			up := strings.ToUpper(joinToks(normalizeDialect(s.Toks)))
			r.Check(strings.Contains(up, "COUNT ( * )") && strings.Contains(up, "FROM PARTS") && strings.Contains(up, "PART_ID = $1"), rule, d+"/partregistry.countPartsByPartIdStmt counts parts rows of the id", s.Pos, "COUNT(*) FROM parts WHERE part_id = $1", "the liveness re-check does not count the parts rows of the candidate id")
		} else {
			r.Anchor(rule, d+"/partregistry.countPartsByPartIdStmt")
		}
	}
}

// scannedFrom: v is a load of a local that is the idx-th Scan destination of a query whose
// statement constant is named stmtName.
func scannedFrom(v ssa.Value, stmtName string, idx int) bool {
	ld, ok := stripConv(v).(*ssa.UnOp)
	if !ok || ld.Op != token.MUL {
		return false
	}
	a, ok := ld.X.(*ssa.Alloc)
	if !ok {
		return false
	}
	for _, ref := range *a.Referrers() {
		// the address is stored into the variadic slice of Scan
		st, ok := ref.(*ssa.MakeInterface)
		if !ok {
			continue
		}
		for _, r2 := range *st.Referrers() {
			s2, ok := r2.(*ssa.Store)
			if !ok {
				continue
			}
			ia, ok := s2.Addr.(*ssa.IndexAddr)
			if !ok {
				continue
			}
			if k, isc := intConst(ia.Index); !isc || int(k) != idx {
				continue
			}
			arr, ok := ia.X.(*ssa.Alloc)
			if !ok {
				continue
			}
			for _, r3 := range *arr.Referrers() {
				sl, ok := r3.(*ssa.Slice)
				if !ok {
					continue
				}
				for _, r4 := range *sl.Referrers() {
					c, ok := r4.(*ssa.Call)
					if !ok || !isCallNamed(c, "Scan") {
						continue
					}
					// receiver: QueryRowContext(ctx, <const stmt>, ...)
					if q, _ := extractOf(c.Call.Args[0]); q != nil && isCallNamed(q, "QueryRowContext") {
						if k, ok := q.Call.Args[2].(*ssa.Const); ok && constIsNamed(q, k, stmtName) {
							return true
						}
					}
				}
			}
		}
	}
	return false
}

// constIsNamed: the constant operand of call c has the text of the package-level constant
// stmtName of the calling package.
func constIsNamed(c *ssa.Call, k *ssa.Const, stmtName string) bool {
	pkg := c.Parent().Pkg
	if pkg == nil {
		return false
	}
	obj, ok := pkg.Pkg.Scope().Lookup(stmtName).(*types.Const)
	if !ok {
		return false
	}
	return k.Value != nil && obj.Val().ExactString() == k.Value.ExactString()
}

func checkC08Book(w *World, r *Run, rule string) {
	// savePartRows
	if fn := w.SSAFunc(relSQLStore, "sqlMetadataStore.savePartRows"); fn == nil {
		r.Anchor(rule, "sqlMetadataStore.savePartRows")
	} else {
		var reg *ssa.Call
		allInstrs(fn, false, func(_ *ssa.Function, ins ssa.Instruction) {
			if c, ok := ins.(*ssa.Call); ok && isCallNamed(c, "RegisterParts") {
				reg = c
			}
		})
		good := reg != nil
		n := 0
		if reg != nil {
			backSlice(reg.Call.Args[len(reg.Call.Args)-1], true, func(x ssa.Value) {
				c, ok := x.(*ssa.Call)
				if !ok {
					return
				}
				b, ok := c.Call.Value.(*ssa.Builtin)
				if !ok || b.Name() != "append" {
					return
				}
				n++
				ok2 := false
				for _, f := range factsAt(c.Block()) {
					if f.Kind == IsFalse {
						if nm, _ := fieldLoadName(f.Val); nm == "RefPreAcquired" {
							ok2 = true
						}
					}
				}
				if !ok2 {
					good = false
				}
			})
			// and the not-pre-acquired edge always appends: the append's block is the direct target
			for _, b := range fn.Blocks {
				if len(b.Succs) != 2 {
					continue
				}
				for k := range b.Succs {
					for _, f := range edgeFacts(b, k) {
						if f.Kind == IsFalse {
							if nm, _ := fieldLoadName(f.Val); nm == "RefPreAcquired" {
								has := false
								for _, ins := range b.Succs[k].Instrs {
									if c, ok := ins.(*ssa.Call); ok {
										if bi, ok := c.Call.Value.(*ssa.Builtin); ok && bi.Name() == "append" {
											has = true
										}
									}
								}
								if !has {
									good = false
								}
							}
						}
					}
				}
			}
		}
		r.Check(good && n > 0, rule, "savePartRows registers exactly the ids without RefPreAcquired", fn.Pos(), "append to the registered ids iff !RefPreAcquired", "the ids registered by savePartRows are not exactly those without a pre-acquired reference: a shared id is registered twice or a fresh id is never counted, so the first removal condemns content that is still referenced")
	}
	// removePartEntities
	if fn := w.SSAFunc(relSQLStore, "sqlMetadataStore.removePartEntities"); fn == nil {
		r.Anchor(rule, "sqlMetadataStore.removePartEntities")
	} else {
		var rm *ssa.Call
		allInstrs(fn, false, func(_ *ssa.Function, ins ssa.Instruction) {
			if c, ok := ins.(*ssa.Call); ok && isCallNamed(c, "RemoveReferences") {
				rm = c
			}
		})
		good := rm != nil
		n := 0
		allInstrs(fn, false, func(_ *ssa.Function, ins ssa.Instruction) {
			c, ok := ins.(*ssa.Call)
			if !ok {
				return
			}
			b, ok := c.Call.Value.(*ssa.Builtin)
			if !ok || b.Name() != "append" || !strings.HasSuffix(c.Type().String(), "metadatastore.Part") {
				return
			}
			n++
			// appended element: value of a map lookup keyed by an element of RemoveReferences' result
			keyed := false
			backSlice(c.Call.Args[1], false, func(x ssa.Value) {
				lk, ok := x.(*ssa.Lookup)
				if !ok {
					return
				}
				if sliceContains(lk.Index, false, func(y ssa.Value) bool {
					cc, i := extractOf(y)
					return cc == rm && i == 0 && rm != nil
				}) {
					keyed = true
				}
			})
			if !keyed {
				good = false
			}
		})
		r.Check(good && n > 0, rule, "removePartEntities returns only ids RemoveReferences dropped to zero", fn.Pos(), "returned parts are looked up by the ids RemoveReferences returned", "removePartEntities reports parts as unreferenced that RemoveReferences did not report at count zero: shared content is deleted while another object still references it")
		// all three row-removal helpers funnel through removePartEntities
		for _, h := range []string{"removePartRowsByObjectId", "removePartRowsByObjectIdAndSequenceNumber"} {
			hf := w.SSAFunc(relSQLStore, "sqlMetadataStore."+h)
			if hf == nil {
				r.Anchor(rule, "sqlMetadataStore."+h)
				continue
			}
			ok := true
			for _, ret := range returnsOf(hf) {
				v := retResult(ret, 0)
				if definitelyNil(v) {
					continue
				}
				if c, _ := extractOf(v); c == nil || !isCallNamed(c, "removePartEntities") {
					ok = false
				}
			}
			r.Check(ok, rule, h+" returns removePartEntities' verdict", hf.Pos(), "funnels through removePartEntities", "part rows are reported unreferenced without consulting the registry")
		}
	}
}

// checkUnreferencedDefUse: the slice handed to deleteUnreferencedParts is the
// UnreferencedParts field of a metadata-store result; restricted to callers whose name ends
// in `only` when that is not empty.
func checkUnreferencedDefUse(w *World, r *Run, ruleDefUse string, only string) {
	del := w.SSAFunc(relMP, "metadataPartStorage.deleteUnreferencedParts")
	if del == nil {
		r.Anchor(ruleDefUse, "metadataPartStorage.deleteUnreferencedParts")
	} else {
		for _, ci := range w.callers[del] {
			c, isCall := ci.(ssa.CallInstruction)
			if !isCall {
				continue
			}
			args := c.Common().Args
			arg := args[len(args)-1]
			cons := funcName(topFunc(c.Parent())) + " → deleteUnreferencedParts"
			if only != "" && !strings.HasSuffix(funcName(topFunc(c.Parent())), only) {
				continue
			}
			name, base := fieldLoadName(arg)
			ok := false
			detail := ""
			if name == "UnreferencedParts" {
				// base: pointer result of a MetadataStore call (possibly through a local)
				srcs := 0
				bad := 0
				backSlice(base, false, func(x ssa.Value) {
					if cc, isCall := x.(*ssa.Call); isCall {
						if mc, _ := mdStoreInvoke(cc); mc != nil {
							srcs++
						} else {
							bad++
						}
					}
				})
				ok = srcs > 0 && bad == 0
				detail = "not the result of a metadata-store call"
			} else {
				detail = "argument is not an UnreferencedParts field"
			}
			r.Check(ok, ruleDefUse, cons, posOf(c), "UnreferencedParts of a metadata-store result", detail+": parts that are still referenced could be deleted")
		}
	}

}
