package main

import (
	"fmt"
	"go/token"
	"go/types"
	"sort"
	"strings"

	"golang.org/x/tools/go/ssa"
)

// C39 — the integrity validator flags exactly the corrupted objects.
func init() { register("C39", checkC39) }

const relIntegrity = "internal/storage/integrity"

func checkC39(w *World, r *Run) {
	ruleFind := r.Rule("validator-can-reach-the-part-stores", "F2",
		"the reflective search of the validator looks for field types that the storage types actually have: the metadata/part storage holds a field of a type the search recognises, and every wrapping storage holds a field implementing storage.Storage through which the search descends", 8)
	ruleRead := r.Rule("parts-are-read-from-their-recorded-store", "F9",
		"validateObject reads each part through ByName(part.PartStoreName) of that same part row and hashes exactly what it read", 2)
	ruleCmp := r.Rule("all-six-digests-are-compared", "F3",
		"verifyPartChecksums compares the six recorded digests of the part row with the recalculated ones; verifyObjectChecksums compares the six object digests in both its single-part and its multipart branch; the single-part branch applies only to plain (non multipart-form) ETags", 19)
	ruleDel := r.Rule("only-failed-objects-are-deleted", "F1",
		"DeleteObject is called only where result.Success is false, deletion was requested and confirmed, for the key of the object just validated; Success starts true and is only ever set to false", 3)

	// ---- 1. reachability of the part stores
	find := w.SSAFunc(relIntegrity, "findPartStores")
	if find == nil {
		r.Anchor(ruleFind, "integrity.findPartStores")
		return
	}
	// types the search recognises: reflect.TypeOf((*T)(nil)) [.Elem()]
	var exact []types.Type
	var ifaces []*types.Interface
	allInstrs(find, false, func(_ *ssa.Function, ins ssa.Instruction) {
		c, ok := ins.(*ssa.Call)
		if !ok || !isCallNamed(c, "TypeOf") {
			return
		}
		mi, ok := c.Call.Args[0].(*ssa.MakeInterface)
		if !ok {
			return
		}
		pt, ok := mi.X.Type().(*types.Pointer)
		if !ok {
			return
		}
		// followed by .Elem()?
		elem := false
		for _, ref := range *c.Referrers() {
			if cc, ok := ref.(*ssa.Call); ok && isCallNamed(cc, "Elem") {
				elem = true
			}
		}
		if elem {
			if it, ok := pt.Elem().Underlying().(*types.Interface); ok {
				ifaces = append(ifaces, it)
			}
		} else {
			exact = append(exact, pt)
		}
	})
	recognises := func(t types.Type) string {
		for _, e := range exact {
			if types.Identical(t, e) {
				return "exact type " + e.String()[strings.LastIndex(e.String(), "/")+1:]
			}
		}
		for _, it := range ifaces {
			if types.Implements(t, it) {
				return "implements a searched interface"
			}
		}
		return ""
	}
	storageIface := w.Iface("internal/storage", "Storage")
	psIface := w.Iface(relPartStore, "PartStore")
	if storageIface == nil || psIface == nil {
		r.Anchor(ruleFind, "storage.Storage / partstore.PartStore")
		return
	}
	// does the search recurse into storages embedded by value (pointer-receiver methods)?
	valueEmbedded := len(callsTo(find, false, func(f *types.Func) bool {
		return f.Pkg() != nil && f.Pkg().Path() == "reflect" && (f.Name() == "PointerTo" || f.Name() == "PtrTo")
	})) > 0
	var reachable func(st *types.Struct, depth int) string
	reachable = func(st *types.Struct, depth int) string {
		if depth > 4 {
			return ""
		}
		for i := 0; i < st.NumFields(); i++ {
			ft := st.Field(i).Type()
			if h := recognises(ft); h != "" && !types.Implements(ft, storageIface) {
				return "field " + st.Field(i).Name() + ": " + h
			}
		}
		for i := 0; i < st.NumFields(); i++ {
			ft := st.Field(i).Type()
			if types.Implements(ft, storageIface) {
				return "descends through field " + st.Field(i).Name()
			}
			if inner, ok := ft.Underlying().(*types.Struct); ok && valueEmbedded && types.Implements(types.NewPointer(ft), storageIface) {
				if h := reachable(inner, depth+1); h != "" {
					return "through embedded " + st.Field(i).Name() + ": " + h
				}
			}
		}
		return ""
	}
	var holds func(st *types.Struct, depth int) bool
	holds = func(st *types.Struct, depth int) bool {
		if depth > 4 {
			return false
		}
		for i := 0; i < st.NumFields(); i++ {
			ft := st.Field(i).Type()
			if types.Implements(ft, storageIface) || types.Implements(ft, psIface) || strings.Contains(ft.String(), "partstore.NamedPartStores") {
				return true
			}
			if inner, ok := ft.Underlying().(*types.Struct); ok && st.Field(i).Embedded() {
				if holds(inner, depth+1) {
					return true
				}
			}
		}
		return false
	}
	for _, T := range implsOf(w, storageIface) {
		st, ok := T.Underlying().(*types.Struct)
		if !ok {
			continue
		}
		short := pkgRel(T.Obj().Pkg())
		short = short[strings.LastIndex(short, "/")+1:] + "." + T.Obj().Name()
		cons := "findPartStores can proceed through " + short
		how := reachable(st, 0)
		switch {
		case how != "":
			r.OK(ruleFind, cons, T.Obj().Pos(), how)
		case holds(st, 0):
			r.Bad(ruleFind, cons, T.Obj().Pos(), "the type holds part stores or a wrapped storage in a field the reflective search neither recognises nor descends into (a type that is not itself a PartStore, or a storage embedded by value whose methods have pointer receivers): behind it ValidateAll fails with 'could not find PartStore' before looking at any object")
		default:
			r.Exempt(ruleFind, cons, T.Obj().Pos(), "holds neither part stores nor a wrapped storage (remote backend): nothing for the validator to read")
		}
	}
	// the search returns what it found (non-nil on those branches)
	nonNil := false
	for _, ret := range returnsOf(find) {
		if !definitelyNil(retResult(ret, 0)) {
			nonNil = true
		}
	}
	r.Check(nonNil && len(exact)+len(ifaces) >= 2, ruleFind, "findPartStores returns the store set it located", find.Pos(), fmt.Sprintf("%d exact type(s), %d interface(s) searched", len(exact), len(ifaces)), "the search never returns a store set")

	// ---- 2. reading parts
	vo := w.SSAFunc(relIntegrity, "Validator.validateObject")
	if vo == nil {
		r.Anchor(ruleRead, "Validator.validateObject")
	} else {
		n, good, why := 0, true, ""
		allInstrs(vo, true, func(_ *ssa.Function, ins ssa.Instruction) {
			c, ok := ins.(ssa.CallInstruction)
			if !ok || !c.Common().IsInvoke() || c.Common().Method.Name() != "GetPart" {
				return
			}
			n++
			var by *ssa.Call
			backSlice(c.Common().Value, false, func(x ssa.Value) {
				if cc, ok := x.(*ssa.Call); ok && isCallNamed(cc, "ByName") {
					by = cc
				}
			})
			if by == nil {
				good, why = false, "GetPart is not called on a store resolved with ByName"
				return
			}
			sn, sb := fieldLoadName(by.Call.Args[len(by.Call.Args)-1])
			in, ib := fieldLoadName(c.Common().Args[len(c.Common().Args)-1])
			if sn != "PartStoreName" || in != "PartId" || !samePartValue(sb, ib) {
				good, why = false, "the store is not resolved from the PartStoreName of the part row whose PartId is read"
			}
		})
		r.Check(good && n > 0, ruleRead, "validateObject reads each part from the store recorded on its row", vo.Pos(), "ByName(part.PartStoreName).GetPart(part.PartId)", why+": parts living in another configured store are reported missing (object flagged although intact)")
		// hashed stream = the reader returned
		hashOK := false
		allInstrs(vo, true, func(_ *ssa.Function, ins ssa.Instruction) {
			if c, ok := ins.(*ssa.Call); ok && isCallNamed(c, "CalculateChecksumsStreaming") {
				if sliceContains(c.Call.Args[1], false, func(x ssa.Value) bool {
					cc, ok := x.(*ssa.Call)
					return ok && cc.Call.IsInvoke() && cc.Call.Method.Name() == "GetPart"
				}) {
					// doRead consumes its own reader completely
					if mc, ok := c.Call.Args[2].(*ssa.MakeClosure); ok {
						if lit, ok := mc.Fn.(*ssa.Function); ok {
							allInstrs(lit, false, func(_ *ssa.Function, i2 ssa.Instruction) {
								if cp, ok := i2.(*ssa.Call); ok && isCallNamed(cp, "Copy") && unspill(cp.Call.Args[1]) == ssa.Value(lit.Params[0]) {
									hashOK = true
								}
							})
						}
					} else if lit, ok := c.Call.Args[2].(*ssa.Function); ok {
						allInstrs(lit, false, func(_ *ssa.Function, i2 ssa.Instruction) {
							if cp, ok := i2.(*ssa.Call); ok && isCallNamed(cp, "Copy") && unspill(cp.Call.Args[1]) == ssa.Value(lit.Params[0]) {
								hashOK = true
							}
						})
					}
				}
			}
		})
		r.Check(hashOK, ruleRead, "validateObject hashes the complete part stream it read", vo.Pos(), "CalculateChecksumsStreaming(GetPart reader, io.Copy(Discard, r))", "the digests are not calculated over the full stream returned by GetPart")
	}

	// ---- 3. comparisons
	cmpFields := func(fn *ssa.Function, lhsStruct, rhsSource string, underFact func(b *ssa.BasicBlock) bool) map[string]bool {
		found := map[string]bool{}
		for _, b := range fn.Blocks {
			if len(b.Instrs) == 0 {
				continue
			}
			iff, ok := b.Instrs[len(b.Instrs)-1].(*ssa.If)
			if !ok {
				continue
			}
			bo, ok := iff.Cond.(*ssa.BinOp)
			if !ok || bo.Op != token.NEQ {
				continue
			}
			if underFact != nil && !underFact(b) {
				continue
			}
			side := func(v ssa.Value) (string, string) {
				name, st := "", ""
				backSlice(v, false, func(x ssa.Value) {
					switch y := x.(type) {
					case *ssa.FieldAddr:
						if n := fieldName(y.X.Type(), y.Field); checksumFieldNames[n] && name == "" {
							name, st = n, structNameOf(y.X.Type())
						}
					case *ssa.Field:
						if n := fieldName(y.X.Type(), y.Field); checksumFieldNames[n] && name == "" {
							name, st = n, structNameOf(y.X.Type())
						}
					}
				})
				return name, st
			}
			n0, s0 := side(bo.X)
			n1, s1 := side(bo.Y)
			if n0 == "" || n0 != n1 {
				continue
			}
			if !((s0 == lhsStruct && s1 == "ChecksumValues") || (s1 == lhsStruct && s0 == "ChecksumValues")) {
				continue
			}
			// the ChecksumValues side comes from the expected source
			cv := bo.X
			if s1 == "ChecksumValues" {
				cv = bo.Y
			}
			fromSrc := rhsSource == "" || sliceContains(cv, false, func(x ssa.Value) bool {
				switch rhsSource {
				case "param":
					_, isP := x.(*ssa.Parameter)
					return isP
				default:
					return isCallNamed(x, rhsSource)
				}
			})
			// true edge fails
			fails := false
			for _, ins := range b.Succs[0].Instrs {
				if ret, ok := ins.(*ssa.Return); ok && isFailureReturn(ret) {
					fails = true
				}
			}
			if fromSrc && fails {
				found[n0] = true
			}
		}
		return found
	}
	var names []string
	for n := range checksumFieldNames {
		names = append(names, n)
	}
	sort.Strings(names)
	if fn := w.SSAFunc(relIntegrity, "verifyPartChecksums"); fn == nil {
		r.Anchor(ruleCmp, "integrity.verifyPartChecksums")
	} else {
		got := cmpFields(fn, "Entity", "param", nil)
		for _, n := range names {
			r.Check(got[n], ruleCmp, "verifyPartChecksums compares "+n, fn.Pos(), "part."+n+" vs recalculated "+n+" → error", "a part whose bytes no longer match its recorded "+n+" is not reported")
		}
	}
	if fn := w.SSAFunc(relIntegrity, "verifyObjectChecksums"); fn == nil {
		r.Anchor(ruleCmp, "integrity.verifyObjectChecksums")
	} else {
		single := func(b *ssa.BasicBlock) bool {
			for _, f := range factsAt(b) {
				if f.Kind == EqConst && f.Const != nil {
					if k, isc := intConst(f.Const); isc && k == 1 && isLenOf(f.Val, func(ssa.Value) bool { return true }) {
						return true
					}
				}
			}
			return false
		}
		s := cmpFields(fn, "Object", "param", single)
		m := cmpFields(fn, "Object", "CalculateMultipartChecksums", nil)
		for _, n := range names {
			r.Check(s[n], ruleCmp, "verifyObjectChecksums (single part) compares "+n, fn.Pos(), "object."+n+" vs the part's recalculated "+n, "a single-part object whose "+n+" no longer matches is not reported")
			r.Check(m[n], ruleCmp, "verifyObjectChecksums (multipart) compares "+n, fn.Pos(), "object."+n+" vs CalculateMultipartChecksums", "a multipart object whose "+n+" no longer matches the combination of its parts is not reported")
		}
		// single-part branch only for plain ETags
		plain := false
		for _, b := range fn.Blocks {
			if !single(b) {
				continue
			}
			for _, f := range factsAt(b) {
				if c, ok := f.Val.(*ssa.Call); ok && f.Kind == IsFalse && isCallNamed(c, "Contains", "HasSuffix", "ContainsRune", "Count") {
					if n, _ := fieldLoadName(c.Call.Args[0]); n == "ETag" {
						plain = true
					}
				}
			}
		}
		r.Check(plain, ruleCmp, "verifyObjectChecksums: single-part comparison only for plain MD5 ETags", fn.Pos(), "len(parts) == 1 && ETag has no '-n' suffix", "one-part objects completed from a multipart upload or created by AppendObject carry an 'md5-1' ETag; comparing it with the part's MD5 reports every such intact object as corrupted (and deletes it with --delete-corrupted)")
	}

	// ---- 4. deletion
	va := w.SSAFunc(relIntegrity, "Validator.ValidateAll")
	if va == nil {
		r.Anchor(ruleDel, "Validator.ValidateAll")
	} else {
		n, good, why := 0, true, ""
		allInstrs(va, true, func(_ *ssa.Function, ins ssa.Instruction) {
			c, ok := ins.(ssa.CallInstruction)
			if !ok || !c.Common().IsInvoke() || c.Common().Method.Name() != "DeleteObject" {
				return
			}
			n++
			failed, wanted, confirmed := false, false, false
			var res ssa.Value
			for _, f := range factsAt(ins.Block()) {
				nm, b := fieldLoadName(f.Val)
				if nm == "Success" && f.Kind == IsFalse {
					failed, res = true, b
				}
				if nm == "deleteCorrupted" && f.Kind == IsTrue {
					wanted = true
				}
				if cc, ok := f.Val.(*ssa.Call); ok && f.Kind == IsTrue && isCallNamed(cc, "confirmDeletion") {
					confirmed = true
				}
			}
			if !(failed && wanted && confirmed) {
				good, why = false, "DeleteObject is not dominated by !result.Success && deleteCorrupted && confirmDeletion(result)"
				return
			}
			// the key deleted is the key that was validated: both are the Key of the same listed object
			var vcall *ssa.Call
			backSlice(res, false, func(x ssa.Value) {
				if cc, ok := x.(*ssa.Call); ok && isCallNamed(cc, "validateObject") {
					vcall = cc
				}
			})
			kn, kb := fieldLoadName(c.Common().Args[2])
			if vcall == nil || kn != "Key" || !samePartValue(kb, vcall.Call.Args[len(vcall.Call.Args)-1]) && !sliceContains(vcall.Call.Args[len(vcall.Call.Args)-1], false, func(x ssa.Value) bool { return samePartValue(x, kb) }) {
				good, why = false, "the key deleted is not the key of the object whose validation failed"
			}
		})
		r.Check(good && n > 0, ruleDel, "ValidateAll deletes only the object that just failed validation", va.Pos(), "!result.Success ∧ deleteCorrupted ∧ confirmDeletion → DeleteObject(object.Key)", why+": intact objects can be deleted")
	}
	if vo != nil {
		// Success: true once (the initial literal), afterwards only false
		trues, falses := 0, 0
		allInstrs(vo, true, func(_ *ssa.Function, ins ssa.Instruction) {
			if v, ok := isFieldStore(ins, "Success"); ok {
				if b, isb := boolConst(v); isb {
					if b {
						trues++
					} else {
						falses++
					}
				} else {
					trues += 2
				}
			}
		})
		r.Check(trues == 1 && falses >= 5, ruleDel, "validateObject: Success starts true and is only ever cleared", vo.Pos(), fmt.Sprintf("1 initialisation, %d clearing stores", falses), "a later step can set Success back to true (or it is computed some other way): a detected mismatch is forgotten")
		// every failure record clears Success
		okAll := true
		allInstrs(vo, true, func(_ *ssa.Function, ins ssa.Instruction) {
			st, ok := ins.(*ssa.Store)
			if !ok {
				return
			}
			fa, ok := st.Addr.(*ssa.FieldAddr)
			if !ok {
				return
			}
			fn := fieldName(fa.X.Type(), fa.Field)
			if fn != "PartFailures" && fn != "ObjectFailures" {
				return
			}
			cleared := false
			for _, i2 := range st.Block().Instrs {
				if v, ok := isFieldStore(i2, "Success"); ok {
					if b, isb := boolConst(v); isb && !b {
						cleared = true
					}
				}
			}
			if !cleared {
				okAll = false
			}
		})
		r.Check(okAll, ruleDel, "validateObject: every recorded failure clears Success", vo.Pos(), "Success = false next to each PartFailures/ObjectFailures append", "a part or object failure is recorded but the object still counts as successful")
	}
	// every part that was read and hashed is compared with its row: from the hash computation
	// no path returns to the loop head (or leaves the function) without verifyPartChecksums or
	// a recorded failure
	ruleEach := r.Rule("every-hashed-part-is-compared", "F1",
		"in validateObject every path from CalculateChecksumsStreaming back to the part loop's head passes verifyPartChecksums or clears Success: no part is exempt from the comparison of its own bytes with its own recorded digests (the object-level comparison of multipart-form ETags uses recorded part digests, not the bytes)", 1)
	if vo != nil {
		var calc *ssa.Call
		allInstrs(vo, true, func(_ *ssa.Function, ins ssa.Instruction) {
			if c, ok := ins.(*ssa.Call); ok && isCallNamed(c, "CalculateChecksumsStreaming") {
				calc = c
			}
		})
		if calc == nil {
			r.Bad(ruleEach, "validateObject: hashed part → verifyPartChecksums", vo.Pos(), "no CalculateChecksumsStreaming call found")
		} else {
			escapes := sinksReachable(calc,
				func(i ssa.Instruction) bool {
					if c, ok := i.(*ssa.Call); ok && isCallNamed(c, "verifyPartChecksums") {
						return true
					}
					if v, ok := isFieldStore(i, "Success"); ok {
						if b, isb := boolConst(v); isb && !b {
							return true
						}
					}
					return false
				}, nil,
				func(i ssa.Instruction) bool {
					if _, isRet := i.(*ssa.Return); isRet {
						return true
					}
					b := i.Block()
					return b != calc.Block() && b.Dominates(calc.Block()) && i == b.Instrs[0]
				})
			pos := calc.Pos()
			if len(escapes) > 0 {
				pos = posOf(escapes[0])
			}
			r.Check(len(escapes) == 0, ruleEach, "validateObject: hashed part → verifyPartChecksums", pos, "compared or failed on every path", "a part's bytes can be hashed and then skipped without being compared with the part row: a corrupted part of such an object is reported intact")
		}
	}
	checkC39ListingFeedsValidator(w, r)
	r.NotCovered("digest arithmetic; objects that are not listed (non-current versions, pending uploads); parts shared between objects are read once per object; the interactive confirmation; that listing and validation race with concurrent writers")
}
