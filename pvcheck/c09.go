package main

import (
	"fmt"
	"go/token"
	"go/types"
	"strings"

	"golang.org/x/tools/go/ssa"
)

// C09 — unreferenced parts are eventually reclaimed.
func init() { register("C09", checkC09) }

// hasUnreferencedParts: t is (a pointer to) a struct with a field UnreferencedParts.
func hasUnreferencedParts(t types.Type) bool {
	if p, ok := types.Unalias(t).(*types.Pointer); ok {
		t = p.Elem()
	}
	st, ok := t.Underlying().(*types.Struct)
	if !ok {
		return false
	}
	for i := 0; i < st.NumFields(); i++ {
		if st.Field(i).Name() == "UnreferencedParts" {
			return true
		}
	}
	return false
}

func isSuccessReturn(ins ssa.Instruction) bool {
	ret, ok := ins.(*ssa.Return)
	if !ok {
		return false
	}
	ei := errorResultIndex(ret.Parent())
	if ei < 0 {
		return true
	}
	return definitelyNil(retResult(ret, ei))
}

func isBuiltinCall(v ssa.Value, name string) bool {
	c, ok := v.(*ssa.Call)
	if !ok {
		return false
	}
	b, ok := c.Call.Value.(*ssa.Builtin)
	return ok && b.Name() == name
}

func checkC09(w *World, r *Run) {
	ruleClean := r.Rule("unreferenced-parts-reach-cleanup", "F1",
		"in package metadatapart every metadata-store call whose result carries UnreferencedParts is followed, on every path to a success return (or to the next iteration), by deleteUnreferencedParts", 11)
	ruleSQL := r.Rule("sql-store-reports-every-removed-row-set", "F9",
		"in sqlMetadataStore the parts returned by every removePartRows* call flow into the UnreferencedParts field of the returned result", 9)
	ruleGC := r.Rule("gc-deletes-what-it-condemns", "F1",
		"in the collector: stores come from partStores.All(); the candidate filter is only the age test; after Condemn returned true every path to the next candidate passes the dedup-index removal and either DeletePart in the transaction or the append to the post-commit list, whose every element gets DeletePart; a refused candidate does not end the sweep", 6)
	ruleRecon := r.Rule("gc-reconciles-registry-with-part-rows", "F1",
		"the reconciliation loop restores a missing registry row with the actual count, deletes a registry row whose actual count is 0 and corrects a differing ref_count to the actual count", 3)
	ruleAll := r.Rule("all-stores-are-swept", "F9",
		"NamedPartStores.All returns the complete store map (default and every extra store registered by NewNamedPartStores)", 2)

	// ---- 1. cleanup reached
	del := w.SSAFunc(relMP, "metadataPartStorage.deleteUnreferencedParts")
	if del == nil {
		r.Anchor(ruleClean, "metadataPartStorage.deleteUnreferencedParts")
	}
	seenCons := map[string]int{}
	for _, fn := range w.allFuncs {
		if fn.Pkg == nil || pkgRel(fn.Pkg.Pkg) != relMP {
			continue
		}
		for _, b := range fn.Blocks {
			for _, ins := range b.Instrs {
				c, m := mdStoreInvoke(ins)
				if c == nil {
					continue
				}
				sig := c.Common().Signature()
				if sig.Results().Len() == 0 || !hasUnreferencedParts(sig.Results().At(0).Type()) {
					continue
				}
				barrier := func(i ssa.Instruction) bool {
					cc, ok := i.(ssa.CallInstruction)
					if !ok {
						return false
					}
					f := calleeObj(cc)
					if f == nil || f.Name() != "deleteUnreferencedParts" {
						return false
					}
					args := cc.Common().Args
					n, base := fieldLoadName(args[len(args)-1])
					if n != "UnreferencedParts" {
						return false
					}
					return sliceContains(base, false, func(x ssa.Value) bool { return x == c.Value() })
				}
				// the error edge of this very call never needs clean-up
				blocked := func(d *ssa.BasicBlock, k int) bool {
					for _, f := range edgeFacts(d, k) {
						if f.Kind == NonNil {
							if cc, i := extractOf(f.Val); cc != nil && ssa.Instruction(cc) == ins && i == 1 {
								return true
							}
						}
					}
					return false
				}
				sink := func(i ssa.Instruction) bool { return isSuccessReturn(i) || i == ins }
				sinks := sinksReachable(ins, barrier, blocked, sink)
				cons := funcName(topFunc(fn)) + " → metadataStore." + m
				seenCons[cons]++
				if seenCons[cons] > 1 {
					cons += fmt.Sprintf(" #%d", seenCons[cons])
				}
				detail := "a success path skips deleteUnreferencedParts: the parts the metadata store just unreferenced stay in the part store until the next GC sweep finds them — or forever for stores whose GetPartIds cannot enumerate them"
				if len(sinks) > 0 {
					detail += " (reaches " + w.Pos(posOf(sinks[0])) + ")"
				}
				r.Check(len(sinks) == 0, ruleClean, cons, posOf(ins), "every success path calls deleteUnreferencedParts(result.UnreferencedParts)", detail)
			}
		}
	}

	// ---- 2. sql store forwards removed parts
	for _, fn := range w.allFuncs {
		if fn.Pkg == nil || pkgRel(fn.Pkg.Pkg) != relSQLStore {
			continue
		}
		ord := 0
		for _, b := range fn.Blocks {
			for _, ins := range b.Instrs {
				c, ok := ins.(*ssa.Call)
				if !ok {
					continue
				}
				f := calleeObj(c)
				if f == nil || !strings.HasPrefix(f.Name(), "removePartRows") {
					continue
				}
				ord++
				cons := funcName(topFunc(fn)) + " → " + f.Name() + " #" + string(rune('0'+ord))
				var res ssa.Value
				for _, ref := range *c.Referrers() {
					if e, ok := ref.(*ssa.Extract); ok && e.Index == 0 {
						res = e
					}
				}
				if res == nil {
					r.Bad(ruleSQL, cons, posOf(c), "the removed parts are discarded")
					continue
				}
				ok2 := forwardReaches(res, func(u ssa.Instruction, via ssa.Value) bool {
					if v, isSt := isFieldStore(u, "UnreferencedParts"); isSt && v == via {
						return true
					}
					if ret, isRet := u.(*ssa.Return); isRet {
						for _, x := range ret.Results {
							if x == via {
								return true
							}
						}
					}
					return false
				})
				r.Check(ok2, ruleSQL, cons, posOf(c), "flows into the result's UnreferencedParts", "the parts whose rows were just removed are not reported to the caller: their content is never deleted by the operation")
			}
		}
	}

	checkC09GC(w, r, ruleGC, ruleRecon)

	// ---- 5. All()
	if fn := w.SSAFunc(relPartStore, "NamedPartStores.All"); fn == nil {
		r.Anchor(ruleAll, "partstore.NamedPartStores.All")
	} else {
		ok := true
		for _, ret := range returnsOf(fn) {
			v := retResult(ret, 0)
			whole := false
			if c, _ := extractOf(v); c != nil && isCallNamed(c, "Clone") && len(c.Call.Args) == 1 {
				if n, _ := fieldLoadName(c.Call.Args[0]); n == "stores" {
					whole = true
				}
			}
			if n, _ := fieldLoadName(v); n == "stores" {
				whole = true
			}
			if !whole {
				ok = false
			}
		}
		r.Check(ok, ruleAll, "NamedPartStores.All returns the whole store map", fn.Pos(), "maps.Clone(n.stores)", "All() does not return the complete store map: parts in the omitted stores are never swept")
	}
	if fn := w.SSAFunc(relPartStore, "NewNamedPartStores"); fn == nil {
		r.Anchor(ruleAll, "partstore.NewNamedPartStores")
	} else {
		// every extra store is inserted: a MapUpdate keyed by the range key of extraStores, not
		// under any condition other than the validation failures that return an error
		n := 0
		ok := true
		allInstrs(fn, false, func(_ *ssa.Function, ins ssa.Instruction) {
			mu, isMU := ins.(*ssa.MapUpdate)
			if !isMU {
				return
			}
			if _, isConst := mu.Key.(*ssa.Const); isConst {
				return // the default entry
			}
			n++
			// the only way around the update inside the loop body is a failure return
			for _, f := range factsAt(mu.Block()) {
				if f.If == nil {
					continue
				}
				other := f.If.Block().Succs[0]
				if other == mu.Block() || other.Dominates(mu.Block()) {
					other = f.If.Block().Succs[1]
				}
				// the other edge must lead only to failure returns or out of the loop header test
				if isLoopTest(f.If) {
					continue
				}
				for _, s := range sinksReachable(other.Instrs[0], nil, nil, func(i ssa.Instruction) bool { _, isRet := i.(*ssa.Return); return isRet }) {
					if !isFailureReturn(s.(*ssa.Return)) {
						ok = false
					}
				}
				if ret, isRet := other.Instrs[0].(*ssa.Return); isRet && !isFailureReturn(ret) {
					ok = false
				}
			}
		})
		r.Check(ok && n > 0, ruleAll, "NewNamedPartStores registers every extra store", fn.Pos(), "unconditional insert per configured store", "a configured store is not entered into the store map: GC never sweeps it and ByName cannot resolve its parts")
	}
	// GC learns about stored parts through GetPartIds: a store built from several stores must
	// list the parts of all of them, or leftovers in the others are never swept
	if fn := w.SSAFunc(relErasure, "erasureCodingPartStore.GetPartIds"); fn == nil {
		r.Anchor(ruleAll, "erasureCodingPartStore.GetPartIds")
	} else {
		over := false
		allInstrs(fn, false, func(_ *ssa.Function, ins ssa.Instruction) {
			c, ok := ins.(ssa.CallInstruction)
			if !ok || !c.Common().IsInvoke() || c.Common().Method.Name() != "GetPartIds" {
				return
			}
			if ld, ok := c.Common().Value.(*ssa.UnOp); ok {
				if ia, ok := ld.X.(*ssa.IndexAddr); ok {
					if n, _ := fieldLoadName(ia.X); n == "partStores" {
						if _, isConst := ia.Index.(*ssa.Const); !isConst {
							over = true
						}
					}
				}
			}
		})
		r.Check(over, ruleAll, "erasure-coding GetPartIds lists every shard store", fn.Pos(), "loop over all of partStores", "only some shard stores are listed: shards left behind in the others by a partially applied write or delete are invisible to the collector and never reclaimed")
	}
	checkC09PagedListings(w, r)
	checkAbsentPartDeleteIsNoError(w, r)
	r.NotCovered("'eventually': that the GC loop runs, that GetPartIds of every store implementation enumerates all stored ids, crash leftovers (temp files), and the timing of the grace window; the rules decide that nothing on the success paths drops an unreferenced part from the clean-up chain")
}

// isLoopTest: the If is the bounds test of a range/for loop (one successor dominates a
// back edge to the If's block).
func isLoopTest(iff *ssa.If) bool {
	b := iff.Block()
	for _, p := range b.Preds {
		if b.Dominates(p) && p != b {
			return true
		}
	}
	return strings.Contains(b.Comment, "loop")
}

func checkC09GC(w *World, r *Run, rule, ruleRecon string) {
	gcFn := w.SSAFunc(relGC, "partGC.runGCWithContext")
	if gcFn == nil {
		r.Anchor(rule, "gc.(*partGC).runGCWithContext")
		return
	}
	// stores ranged over: partStores.All()
	var getIds *ssa.Call
	var condemn *ssa.Call
	allInstrs(gcFn, true, func(_ *ssa.Function, ins ssa.Instruction) {
		if c, ok := ins.(*ssa.Call); ok {
			if isCallNamed(c, "GetPartIds") {
				getIds = c
			}
			if isCallNamed(c, "Condemn") {
				condemn = c
			}
		}
	})
	if getIds == nil || condemn == nil {
		r.Bad(rule, "runGCWithContext sweeps the stores", gcFn.Pos(), "no GetPartIds / Condemn call found")
		return
	}
	fromAll := sliceContains(getIds.Call.Value, false, func(x ssa.Value) bool { return isCallNamed(x, "All") })
	if !fromAll {
		if fv, ok := getIds.Call.Value.(*ssa.FreeVar); ok {
			if b := bindingOf(fv); b != nil {
				fromAll = sliceContains(b, false, func(x ssa.Value) bool { return isCallNamed(x, "All") })
			}
		}
		backSlice(getIds.Call.Value, false, func(x ssa.Value) {
			if fv, ok := x.(*ssa.FreeVar); ok {
				if b := bindingOf(fv); b != nil && sliceContains(b, false, func(y ssa.Value) bool { return isCallNamed(y, "All") }) {
					fromAll = true
				}
			}
		})
	}
	r.Check(fromAll, rule, "runGCWithContext sweeps partStores.All()", posOf(getIds), "the swept store ranges over All()", "the sweep does not range over every configured store")

	// candidate filter: only the age test (and error / loop tests)
	filterOK := true
	why := ""
	nApp := 0
	allInstrs(getIds.Parent(), false, func(fn *ssa.Function, ins ssa.Instruction) {
		st, ok := ins.(*ssa.Store)
		if !ok || !isBuiltinCall(st.Val, "append") {
			return
		}
		if _, isFV := st.Addr.(*ssa.FreeVar); !isFV {
			return
		}
		nApp++
		for _, f := range factsAt(st.Block()) {
			switch {
			case f.If != nil && isLoopTest(f.If):
			case f.Kind == IsNil && isErrorType(f.Val.Type()):
			case f.Kind == IsTrue && isCallNamed(f.Val, "Before"):
			default:
				filterOK = false
				why = "an additional condition (" + f.Kind.String() + " at " + w.Pos(f.If.Pos()) + ") filters deletion candidates"
			}
		}
	})
	r.Check(filterOK && nApp > 0, rule, "runGCWithContext candidate filter is only the age test", posOf(getIds), "ids older than the cutoff all become candidates", why+": old unreferenced parts matching it are never collected")

	// after Condemn == true: dedup removal, then DeletePart or external append
	condemnedFalse := func(d *ssa.BasicBlock, k int) bool {
		for _, f := range edgeFacts(d, k) {
			if f.Kind == IsFalse {
				if c, i := extractOf(f.Val); c == condemn && i == 0 {
					return true
				}
			}
			if f.Kind == NonNil && isErrorType(f.Val.Type()) {
				return true // error edges abort the batch
			}
		}
		return false
	}
	next := func(i ssa.Instruction) bool { return i == ssa.Instruction(condemn) || isSuccessReturn(i) }
	var extAlloc ssa.Value
	isDeleteOrDefer := func(i ssa.Instruction) bool {
		if c, ok := i.(ssa.CallInstruction); ok && isPartStoreDelete(c) {
			return true
		}
		if st, ok := i.(*ssa.Store); ok && isBuiltinCall(st.Val, "append") {
			if fv, ok := st.Addr.(*ssa.FreeVar); ok {
				if b := bindingOf(fv); b != nil {
					extAlloc = b
					return true
				}
			}
		}
		return false
	}
	s1 := sinksReachable(condemn, isDeleteOrDefer, condemnedFalse, next)
	r.Check(len(s1) == 0, rule, "runGCWithContext: condemned id → DeletePart or post-commit list", posOf(condemn), "every path deletes or defers", "a condemned part (registry row already deleted) is neither deleted nor queued for post-commit deletion on some path")
	// a refused candidate must not end the sweep: from the not-condemned edge control returns
	// to the loop (next candidate), it never leaves the function
	refusedEnds := ""
	for _, b := range condemn.Parent().Blocks {
		for k := range b.Succs {
			if len(b.Succs) != 2 {
				continue
			}
			for _, f := range edgeFacts(b, k) {
				if f.Kind == IsFalse {
					if c, i := extractOf(f.Val); c == condemn && i == 0 {
						first := b.Succs[k].Instrs[0]
						loopHead := func(i ssa.Instruction) bool {
							return strings.Contains(i.Block().Comment, "rangeindex.loop") || strings.Contains(i.Block().Comment, "rangeiter.loop") || strings.Contains(i.Block().Comment, "for.loop") || strings.Contains(i.Block().Comment, "for.post")
						}
						isRet := func(i ssa.Instruction) bool { _, ok := i.(*ssa.Return); return ok }
						if isRet(first) {
							refusedEnds = w.Pos(posOf(first))
						} else if !loopHead(first) {
							for _, s := range sinksReachable(first, loopHead, nil, isRet) {
								refusedEnds = w.Pos(posOf(s))
							}
						}
					}
				}
			}
		}
	}
	r.Check(refusedEnds == "", rule, "runGCWithContext: a refused candidate does not end the sweep", posOf(condemn), "!condemned → next candidate", "when Condemn refuses a candidate (it is still referenced) the batch returns ("+refusedEnds+") instead of continuing: every unreferenced part listed after a live one is skipped on every run and never reclaimed")
	isDedupDel := func(i ssa.Instruction) bool {
		c, ok := i.(*ssa.Call)
		return ok && isCallNamed(c, "DeleteByPartIds")
	}
	s2 := sinksReachable(condemn, isDedupDel, condemnedFalse, next)
	r.Check(len(s2) == 0, rule, "runGCWithContext: condemned id → dedup index entry removed", posOf(condemn), "every path removes the dedup entry", "the dedup index keeps pointing at a condemned part")
	// the post-commit list is drained with DeletePart
	drained := false
	if extAlloc != nil {
		allInstrs(gcFn, false, func(_ *ssa.Function, ins ssa.Instruction) {
			c, ok := ins.(ssa.CallInstruction)
			if !ok || !isPartStoreDelete(c) {
				return
			}
			id := c.Common().Args[len(c.Common().Args)-1]
			if sliceContains(id, false, func(x ssa.Value) bool { return x == extAlloc }) {
				// and the loop is entered on every path from the transaction's success
				drained = true
			}
		})
	}
	r.Check(drained || extAlloc == nil, rule, "runGCWithContext: post-commit list is drained with DeletePart", posOf(condemn), "every queued id gets DeletePart after the commit", "ids queued for post-commit deletion are never deleted")

	// ---- reconciliation
	var restore, delReg, upd *ssa.Call
	allInstrs(gcFn, true, func(_ *ssa.Function, ins ssa.Instruction) {
		if c, ok := ins.(*ssa.Call); ok {
			switch {
			case isCallNamed(c, "RestoreMissing"):
				restore = c
			case isCallNamed(c, "DeleteByPartId"):
				delReg = c
			case isCallNamed(c, "UpdateRefCount"):
				upd = c
			}
		}
	})
	isActual := func(v ssa.Value) bool {
		n, _ := fieldLoadName(stripConv(v))
		return n == "ActualCount"
	}
	// RestoreMissing(Ref{Delta: o.ActualCount}) under Version == nil
	ok := restore != nil
	if restore != nil {
		g := false
		for _, f := range factsAt(restore.Block()) {
			if n, _ := fieldLoadName(f.Val); f.Kind == IsNil && n == "Version" {
				g = true
			}
		}
		arg := restore.Call.Args[len(restore.Call.Args)-1]
		d := sliceContains(arg, false, isActual)
		ok = g && d
	}
	r.Check(ok, ruleRecon, "reconciliation: missing registry row restored with the actual count", posOrFn(restore, gcFn), "RestoreMissing(Delta = ActualCount) when Version == nil", "a part with rows but no registry row is not restored with its real count: its first removal misses the registry and the content leaks (or the count is wrong)")
	ok = delReg != nil
	if delReg != nil {
		g := false
		for _, f := range factsAt(delReg.Block()) {
			if f.Kind == EqConst && f.Const != nil && isActual(f.Val) {
				if k, isc := intConst(f.Const); isc && k == 0 {
					g = true
				}
			}
		}
		ok = g
	}
	r.Check(ok, ruleRecon, "reconciliation: registry row without part rows is deleted", posOrFn(delReg, gcFn), "DeleteByPartId when ActualCount == 0", "a registry row whose part rows are all gone is kept: Condemn refuses the part forever (ref_count != 0) and its content is never reclaimed")
	ok = upd != nil
	if upd != nil {
		ok = isActual(upd.Call.Args[len(upd.Call.Args)-2]) || sliceContains(upd.Call.Args[len(upd.Call.Args)-2], false, isActual)
		cmp := len(upd.Block().Preds) > 0
		for _, p := range upd.Block().Preds {
			edgeOK := false
			for k, sc := range p.Succs {
				if sc != upd.Block() || len(p.Succs) != 2 {
					continue
				}
				for _, f := range edgeFacts(p, k) {
					if n, _ := fieldLoadName(f.Val); n == "RefCount" && f.Kind == IsNil {
						edgeOK = true
					}
					if f.Kind == NeConst && f.Other != nil && (isActual(f.Val) || isActual(f.Other)) {
						edgeOK = true
					}
				}
			}
			if !edgeOK {
				cmp = false
			}
		}
		ok = ok && cmp
	}
	r.Check(ok, ruleRecon, "reconciliation: differing ref_count corrected to the actual count", posOrFn(upd, gcFn), "UpdateRefCount(ActualCount) when RefCount differs", "a drifted ref_count is not reset to the number of part rows: an over-count keeps unreferenced content forever")
}

func posOrFn(c *ssa.Call, fn *ssa.Function) token.Pos {
	if c != nil {
		return posOf(c)
	}
	return fn.Pos()
}
