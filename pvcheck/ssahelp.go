package main

import (
	"go/constant"
	"go/token"
	"go/types"
	"strings"

	"golang.org/x/tools/go/ssa"
)

// ---- calls -------------------------------------------------------------------------------

// calleeObj returns the function or (interface) method a call targets, nil for dynamic calls
// of function values.
func calleeObj(c ssa.CallInstruction) *types.Func {
	cc := c.Common()
	if cc.IsInvoke() {
		return cc.Method
	}
	if sc := cc.StaticCallee(); sc != nil {
		if o, ok := sc.Object().(*types.Func); ok {
			return o
		}
		// instantiated generic / wrapper: fall back to origin
		if sc.Origin() != nil {
			if o, ok := sc.Origin().Object().(*types.Func); ok {
				return o
			}
		}
	}
	return nil
}

// recvNamed returns the named type a method belongs to (pointer stripped) or nil.
func recvNamed(f *types.Func) *types.Named {
	if f == nil {
		return nil
	}
	sig, _ := f.Type().(*types.Signature)
	if sig == nil || sig.Recv() == nil {
		return nil
	}
	t := sig.Recv().Type()
	if p, ok := t.(*types.Pointer); ok {
		t = p.Elem()
	}
	n, _ := t.(*types.Named)
	return n
}

// isFunc reports whether f is the package-level function rel.name, or the method
// rel.Type.name when name is "Type.m".
func isFunc(f *types.Func, rel, name string) bool {
	if f == nil || f.Pkg() == nil {
		return false
	}
	if pkgRel(f.Pkg()) != rel && f.Pkg().Path() != rel {
		return false
	}
	if tn, m, ok := strings.Cut(name, "."); ok {
		n := recvNamed(f)
		return n != nil && n.Obj().Name() == tn && f.Name() == m
	}
	return recvNamed(f) == nil && f.Name() == name
}

// allInstrs iterates over the instructions of fn and, if deep, of the function literals
// nested in it.
func allInstrs(fn *ssa.Function, deep bool, visit func(fn *ssa.Function, ins ssa.Instruction)) {
	if fn == nil {
		return
	}
	for _, b := range fn.Blocks {
		for _, ins := range b.Instrs {
			visit(fn, ins)
		}
	}
	if deep {
		for _, a := range fn.AnonFuncs {
			allInstrs(a, true, visit)
		}
	}
}

// callsTo lists the call instructions in fn (deep) whose callee satisfies pred.
func callsTo(fn *ssa.Function, deep bool, pred func(*types.Func) bool) []ssa.CallInstruction {
	var out []ssa.CallInstruction
	allInstrs(fn, deep, func(_ *ssa.Function, ins ssa.Instruction) {
		if c, ok := ins.(ssa.CallInstruction); ok {
			if f := calleeObj(c); f != nil && pred(f) {
				out = append(out, c)
			}
		}
	})
	return out
}

// ---- values ------------------------------------------------------------------------------

func isNilConst(v ssa.Value) bool {
	c, ok := v.(*ssa.Const)
	return ok && c.Value == nil
}

func boolConst(v ssa.Value) (bool, bool) {
	c, ok := v.(*ssa.Const)
	if !ok || c.Value == nil || c.Value.Kind() != constant.Bool {
		return false, false
	}
	return constant.BoolVal(c.Value), true
}

// stripConv removes conversions / interface boxing / type changes.
func stripConv(v ssa.Value) ssa.Value {
	for {
		switch x := v.(type) {
		case *ssa.ChangeType:
			v = x.X
		case *ssa.Convert:
			v = x.X
		case *ssa.MakeInterface:
			v = x.X
		case *ssa.ChangeInterface:
			v = x.X
		default:
			return v
		}
	}
}

// callOf returns the call a value is a result of (directly or via Extract), with the
// result index (-1 when the call has a single result).
func callOf(v ssa.Value) (*ssa.Call, int) {
	v = stripConv(v)
	switch x := v.(type) {
	case *ssa.Call:
		return x, -1
	case *ssa.Extract:
		if c, ok := x.Tuple.(*ssa.Call); ok {
			return c, x.Index
		}
	}
	return nil, 0
}

// storesTo lists values stored into the address (an Alloc, or any address value identical
// by SSA identity) anywhere in fn and its nested/parent closures that share the cell.
func storesTo(addr ssa.Value) []ssa.Value {
	var out []ssa.Value
	refs := addr.Referrers()
	if refs == nil {
		return nil
	}
	for _, ref := range *refs {
		switch s := ref.(type) {
		case *ssa.Store:
			if s.Addr == addr {
				out = append(out, s.Val)
			}
		case *ssa.MakeClosure:
			// the cell is captured: stores inside the closure through the FreeVar
			if fn, ok := s.Fn.(*ssa.Function); ok {
				for i, b := range s.Bindings {
					if b == addr && i < len(fn.FreeVars) {
						out = append(out, storesTo(fn.FreeVars[i])...)
					}
				}
			}
		}
	}
	return out
}

// slice computes the intraprocedural backward slice of v through value-preserving and
// arithmetic operators, loads of local cells (following their stores), phis, extracts and
// call results (the call itself is included, its arguments are not followed unless
// throughArgs). visit is called for every value reached; return false to stop early.
type slicer struct {
	seen        map[ssa.Value]bool
	throughArgs bool
}

func backSlice(v ssa.Value, throughArgs bool, visit func(ssa.Value)) {
	s := &slicer{seen: map[ssa.Value]bool{}, throughArgs: throughArgs}
	s.walk(v, visit, 0)
}

func (s *slicer) walk(v ssa.Value, visit func(ssa.Value), depth int) {
	if v == nil || s.seen[v] || depth > 60 {
		return
	}
	s.seen[v] = true
	visit(v)
	switch x := v.(type) {
	case *ssa.UnOp:
		if x.Op == token.MUL { // load
			s.walk(x.X, visit, depth+1)
			for _, st := range storesTo(x.X) {
				s.walk(st, visit, depth+1)
			}
			if fv, ok := x.X.(*ssa.FreeVar); ok {
				for _, st := range outerStores(fv) {
					s.walk(st, visit, depth+1)
				}
			}
		} else {
			s.walk(x.X, visit, depth+1)
		}
	case *ssa.BinOp:
		s.walk(x.X, visit, depth+1)
		s.walk(x.Y, visit, depth+1)
	case *ssa.Phi:
		for _, e := range x.Edges {
			s.walk(e, visit, depth+1)
		}
	case *ssa.Extract:
		s.walk(x.Tuple, visit, depth+1)
	case *ssa.ChangeType:
		s.walk(x.X, visit, depth+1)
	case *ssa.Convert:
		s.walk(x.X, visit, depth+1)
	case *ssa.MakeInterface:
		s.walk(x.X, visit, depth+1)
	case *ssa.ChangeInterface:
		s.walk(x.X, visit, depth+1)
	case *ssa.TypeAssert:
		s.walk(x.X, visit, depth+1)
	case *ssa.Field:
		s.walk(x.X, visit, depth+1)
	case *ssa.FieldAddr:
		s.walk(x.X, visit, depth+1)
	case *ssa.Index:
		s.walk(x.X, visit, depth+1)
	case *ssa.IndexAddr:
		s.walk(x.X, visit, depth+1)
	case *ssa.Slice:
		s.walk(x.X, visit, depth+1)
	case *ssa.Lookup:
		s.walk(x.X, visit, depth+1)
	case *ssa.Next:
		s.walk(x.Iter, visit, depth+1)
	case *ssa.Range:
		s.walk(x.X, visit, depth+1)
	case *ssa.Alloc:
		for _, st := range storesTo(x) {
			s.walk(st, visit, depth+1)
		}
		// a struct literal: the values stored into its fields
		if refs := x.Referrers(); refs != nil {
			for _, ref := range *refs {
				if fa, ok := ref.(*ssa.FieldAddr); ok {
					for _, st := range storesTo(fa) {
						s.walk(st, visit, depth+1)
					}
				}
				// an array literal / variadic argument pack: the values stored into its elements
				if ia, ok := ref.(*ssa.IndexAddr); ok {
					for _, st := range storesTo(ia) {
						s.walk(st, visit, depth+1)
					}
				}
			}
		}
	case *ssa.FreeVar:
		// a captured variable: what is stored into it here and in the enclosing functions
		for _, st := range storesTo(x) {
			s.walk(st, visit, depth+1)
		}
		for _, st := range outerStores(x) {
			s.walk(st, visit, depth+1)
		}
	case *ssa.MakeSlice:
		// the values stored into the elements of a freshly made slice
		if refs := x.Referrers(); refs != nil {
			for _, ref := range *refs {
				if ia, ok := ref.(*ssa.IndexAddr); ok {
					for _, st := range storesTo(ia) {
						s.walk(st, visit, depth+1)
					}
				}
			}
		}
	case *ssa.Call:
		if s.throughArgs {
			for _, a := range x.Call.Args {
				s.walk(a, visit, depth+1)
			}
			if x.Call.IsInvoke() {
				s.walk(x.Call.Value, visit, depth+1)
			}
			// accumulator reads (hash.Sum, Builder.String, Buffer.Bytes): the value also
			// depends on everything written into the accumulator before
			name := ""
			var recv ssa.Value
			if x.Call.IsInvoke() {
				name, recv = x.Call.Method.Name(), x.Call.Value
			} else if sc := x.Call.StaticCallee(); sc != nil && sc.Signature.Recv() != nil && len(x.Call.Args) > 0 {
				name, recv = sc.Name(), x.Call.Args[0]
			}
			if recv != nil && (name == "Sum" || name == "String" || name == "Bytes") {
				if refs := recv.Referrers(); refs != nil {
					for _, ref := range *refs {
						w, ok := ref.(*ssa.Call)
						if !ok || w == x {
							continue
						}
						wn := ""
						if w.Call.IsInvoke() {
							wn = w.Call.Method.Name()
						} else if sc := w.Call.StaticCallee(); sc != nil {
							wn = sc.Name()
						}
						if strings.HasPrefix(wn, "Write") || strings.HasPrefix(wn, "Fprint") {
							for _, a := range w.Call.Args {
								s.walk(a, visit, depth+1)
							}
						}
					}
				}
			}
		}
	}
}

// outerStores returns the values stored to the captured cell behind a FreeVar in the
// enclosing function(s).
func outerStores(fv *ssa.FreeVar) []ssa.Value {
	fn := fv.Parent()
	if fn == nil || fn.Parent() == nil {
		return nil
	}
	idx := -1
	for i, f := range fn.FreeVars {
		if f == fv {
			idx = i
		}
	}
	if idx < 0 {
		return nil
	}
	var out []ssa.Value
	allInstrs(fn.Parent(), false, func(_ *ssa.Function, ins ssa.Instruction) {
		if mc, ok := ins.(*ssa.MakeClosure); ok && mc.Fn == fn && idx < len(mc.Bindings) {
			out = append(out, storesTo(mc.Bindings[idx])...)
		}
	})
	return out
}

// ---- dominance and edge facts ------------------------------------------------------------

type FactKind int

const (
	IsTrue FactKind = iota
	IsFalse
	IsNil
	NonNil
	EqConst
	NeConst
)

func (k FactKind) String() string {
	return [...]string{"true", "false", "nil", "non-nil", "==const", "!=const"}[k]
}

// Fact is something known about Val at a program point because a dominating conditional
// edge was taken.
type Fact struct {
	Val   ssa.Value
	Kind  FactKind
	Const *ssa.Const // for EqConst / NeConst
	Other ssa.Value  // for comparisons between two non-constant values (Kind EqConst/NeConst, Const nil)
	If    *ssa.If
}

// decompose turns "cond evaluated to truth" into facts about the underlying values.
func decompose(cond ssa.Value, truth bool, iff *ssa.If, out *[]Fact) {
	switch x := cond.(type) {
	case *ssa.UnOp:
		if x.Op == token.NOT {
			decompose(x.X, !truth, iff, out)
			return
		}
	case *ssa.BinOp:
		if x.Op == token.EQL || x.Op == token.NEQ {
			eq := (x.Op == token.EQL) == truth
			a, b := x.X, x.Y
			if _, ok := a.(*ssa.Const); ok {
				a, b = b, a
			}
			if c, ok := b.(*ssa.Const); ok {
				if c.Value == nil {
					k := NonNil
					if eq {
						k = IsNil
					}
					*out = append(*out, Fact{Val: a, Kind: k, If: iff})
				} else if bv, isb := boolConst(c); isb {
					decompose(a, bv == eq, iff, out)
				} else {
					k := NeConst
					if eq {
						k = EqConst
					}
					*out = append(*out, Fact{Val: a, Kind: k, Const: c, If: iff})
				}
				return
			}
			k := NeConst
			if eq {
				k = EqConst
			}
			*out = append(*out, Fact{Val: a, Kind: k, Other: b, If: iff})
			*out = append(*out, Fact{Val: b, Kind: k, Other: a, If: iff})
			return
		}
	}
	k := IsFalse
	if truth {
		k = IsTrue
	}
	*out = append(*out, Fact{Val: cond, Kind: k, If: iff})
}

// edgeDominates reports whether every path from the entry to block b goes through the edge
// d -> d.Succs[k].
func edgeDominates(d *ssa.BasicBlock, k int, b *ssa.BasicBlock) bool {
	s := d.Succs[k]
	if d.Succs[0] == d.Succs[1] {
		return false
	}
	if !(s == b || s.Dominates(b)) {
		return false
	}
	// every predecessor of s other than d must itself be dominated by s (loop back edges)
	for _, p := range s.Preds {
		if p == d {
			continue
		}
		if !(p == s || s.Dominates(p)) {
			return false
		}
	}
	return true
}

// factsAt lists the facts established by conditional edges that dominate block b.
func factsAt(b *ssa.BasicBlock) []Fact {
	var out []Fact
	for d := b.Idom(); d != nil; d = d.Idom() {
		if len(d.Instrs) == 0 {
			continue
		}
		iff, ok := d.Instrs[len(d.Instrs)-1].(*ssa.If)
		if !ok {
			continue
		}
		for k := 0; k < 2; k++ {
			if edgeDominates(d, k, b) {
				decompose(iff.Cond, k == 0, iff, &out)
			}
		}
	}
	return out
}

// instrDominates reports whether instruction a executes before b on every path to b
// (same function).
func instrDominates(a, b ssa.Instruction) bool {
	ba, bb := a.Block(), b.Block()
	if ba == bb {
		for _, ins := range ba.Instrs {
			if ins == a {
				return true
			}
			if ins == b {
				return false
			}
		}
		return false
	}
	return ba.Dominates(bb)
}

// reachableBlocks returns the set of blocks reachable from b (including b).
func reachableBlocks(b *ssa.BasicBlock) map[*ssa.BasicBlock]bool {
	seen := map[*ssa.BasicBlock]bool{}
	var walk func(*ssa.BasicBlock)
	walk = func(x *ssa.BasicBlock) {
		if seen[x] {
			return
		}
		seen[x] = true
		for _, s := range x.Succs {
			walk(s)
		}
	}
	walk(b)
	return seen
}

// returnsOf lists the Return instructions of fn.
func returnsOf(fn *ssa.Function) []*ssa.Return {
	var out []*ssa.Return
	for _, b := range fn.Blocks {
		if len(b.Instrs) == 0 {
			continue
		}
		if r, ok := b.Instrs[len(b.Instrs)-1].(*ssa.Return); ok {
			out = append(out, r)
		}
	}
	return out
}

// isErrorType reports whether t is the predeclared error interface.
func isErrorType(t types.Type) bool {
	return types.Identical(t, types.Universe.Lookup("error").Type())
}

// mayBeNonFailure reports whether the returned value at index i of ret may denote success
// for a result of type error (nil), bool (want) or pointer (non-nil).
func definitelyNil(v ssa.Value) bool { return isNilConst(stripConv(v)) }

// posOf returns a usable position for an instruction (falling back to its block's first
// positioned instruction).
func posOf(ins ssa.Instruction) token.Pos {
	if ins == nil {
		return token.NoPos
	}
	if p := ins.Pos(); p.IsValid() {
		return p
	}
	if c, ok := ins.(ssa.CallInstruction); ok {
		if p := c.Common().Pos(); p.IsValid() {
			return p
		}
	}
	if b := ins.Block(); b != nil {
		for _, i := range b.Instrs {
			if i.Pos().IsValid() {
				return i.Pos()
			}
		}
		if b.Parent() != nil {
			return b.Parent().Pos()
		}
	}
	return token.NoPos
}

// topFunc returns the outermost named function enclosing fn.
func topFunc(fn *ssa.Function) *ssa.Function {
	for fn.Parent() != nil {
		fn = fn.Parent()
	}
	return fn
}

// ---- path helpers ---------------------------------------------------------------------------

// returnsReachableAvoiding walks forward from just after instruction `from` and returns
// every Return reachable without executing an instruction for which barrier is true.
func returnsReachableAvoiding(from ssa.Instruction, barrier func(ssa.Instruction) bool) []*ssa.Return {
	var out []*ssa.Return
	seen := map[*ssa.BasicBlock]bool{}
	var walkBlock func(b *ssa.BasicBlock, start int)
	walkBlock = func(b *ssa.BasicBlock, start int) {
		for i := start; i < len(b.Instrs); i++ {
			ins := b.Instrs[i]
			if barrier(ins) {
				return
			}
			if r, ok := ins.(*ssa.Return); ok {
				out = append(out, r)
				return
			}
		}
		for _, s := range b.Succs {
			if !seen[s] {
				seen[s] = true
				walkBlock(s, 0)
			}
		}
	}
	b := from.Block()
	idx := 0
	for i, ins := range b.Instrs {
		if ins == from {
			idx = i + 1
		}
	}
	walkBlock(b, idx)
	return out
}

// errorResultIndex returns the index of the last result of fn's signature if it is of
// type error, else -1.
func errorResultIndex(fn *ssa.Function) int {
	res := fn.Signature.Results()
	if res.Len() == 0 {
		return -1
	}
	if isErrorType(res.At(res.Len() - 1).Type()) {
		return res.Len() - 1
	}
	return -1
}

// isFailureReturn reports whether ret certainly returns a non-nil error: the error operand
// is a non-nil constant-free value for which a dominating edge established NonNil, or a
// freshly constructed error (call to errors.New / fmt.Errorf / a package-level error var).
func isFailureReturn(ret *ssa.Return) bool {
	fn := ret.Parent()
	ei := errorResultIndex(fn)
	if ei < 0 || ei >= len(ret.Results) {
		return false
	}
	return definitelyNonNilError(retResult(ret, ei), ret.Block())
}

// retResult returns the value returned at result index i, looking through the result
// spill cells go/ssa introduces in functions with defers (*cell = v; rundefers; t = *cell;
// return t).
func retResult(ret *ssa.Return, i int) ssa.Value {
	v := ret.Results[i]
	ld, ok := v.(*ssa.UnOp)
	if !ok || ld.Op != token.MUL {
		return v
	}
	cell, ok := ld.X.(*ssa.Alloc)
	if !ok {
		return v
	}
	instrs := ret.Block().Instrs
	for k := len(instrs) - 1; k >= 0; k-- {
		if st, ok := instrs[k].(*ssa.Store); ok && st.Addr == cell {
			return st.Val
		}
	}
	return v
}

func definitelyNonNilError(v ssa.Value, at *ssa.BasicBlock) bool {
	if isNilConst(v) {
		return false
	}
	for _, f := range factsAt(at) {
		if f.Kind == NonNil && sameValue(f.Val, v) {
			return true
		}
	}
	switch x := stripConv(v).(type) {
	case *ssa.UnOp:
		if x.Op == token.MUL {
			// package-level sentinel error (var ErrX = errors.New(..))
			if g, ok := x.X.(*ssa.Global); ok && isErrorType(g.Type().(*types.Pointer).Elem()) {
				n := strings.ToLower(g.Name())
				return strings.HasPrefix(n, "err")
			}
		}
	case *ssa.Call:
		if f := calleeObj(x); f != nil && f.Pkg() != nil {
			p := f.Pkg().Path()
			if (p == "errors" && (f.Name() == "New" || f.Name() == "Join")) || (p == "fmt" && f.Name() == "Errorf") {
				return true
			}
		}
	case *ssa.Alloc:
		return true
	case *ssa.Phi:
		for _, e := range x.Edges {
			if !definitelyNonNilError(e, at) {
				return false
			}
		}
		return len(x.Edges) > 0
	}
	return false
}

// sameValue compares SSA values modulo loads of the same local cell.
func sameValue(a, b ssa.Value) bool {
	if a == nil || b == nil {
		return false
	}
	a, b = unspill(stripConv(a)), unspill(stripConv(b))
	if a == b {
		return true
	}
	la, ok1 := a.(*ssa.UnOp)
	lb, ok2 := b.(*ssa.UnOp)
	if ok1 && ok2 && la.Op == token.MUL && lb.Op == token.MUL && la.X == lb.X {
		if _, isAlloc := la.X.(*ssa.Alloc); isAlloc {
			return true
		}
		if _, isFV := la.X.(*ssa.FreeVar); isFV {
			return true
		}
	}
	return false
}

// unspill: a load of a local cell that is stored exactly once denotes the stored value
// (parameters and single-assignment locals whose address is taken are spilled by go/ssa).
func unspill(v ssa.Value) ssa.Value {
	for i := 0; i < 4; i++ {
		ld, ok := v.(*ssa.UnOp)
		if !ok || ld.Op != token.MUL {
			return v
		}
		cell, ok := ld.X.(*ssa.Alloc)
		if !ok {
			return v
		}
		sts := storesTo(cell)
		if len(sts) != 1 {
			return v
		}
		v = stripConv(sts[0])
	}
	return v
}

// fieldLoadName: if v is a load of a struct field (x.f or (*x).f), return the field name and
// the base value.
func fieldLoadName(v ssa.Value) (string, ssa.Value) {
	switch x := v.(type) {
	case *ssa.UnOp:
		if x.Op == token.MUL {
			if fa, ok := x.X.(*ssa.FieldAddr); ok {
				return fieldName(fa.X.Type(), fa.Field), fa.X
			}
		}
	case *ssa.Field:
		return fieldName(x.X.Type(), x.Field), x.X
	}
	return "", nil
}

func fieldName(t types.Type, idx int) string {
	if p, ok := t.Underlying().(*types.Pointer); ok {
		t = p.Elem()
	}
	st, ok := t.Underlying().(*types.Struct)
	if !ok || idx >= st.NumFields() {
		return ""
	}
	return st.Field(idx).Name()
}

// paramIndex returns the index of v among fn's parameters or -1.
func paramIndex(fn *ssa.Function, v ssa.Value) int {
	for i, p := range fn.Params {
		if p == v {
			return i
		}
	}
	return -1
}

// everyPathCrosses reports whether every path from the function entry to target traverses
// at least one conditional edge d->d.Succs[k] for which edgeSat(d,k) holds (decided by
// deleting those edges and testing reachability).
func everyPathCrosses(target *ssa.BasicBlock, edgeSat func(d *ssa.BasicBlock, k int) bool) bool {
	fn := target.Parent()
	if len(fn.Blocks) == 0 {
		return false
	}
	seen := map[*ssa.BasicBlock]bool{}
	var reach func(b *ssa.BasicBlock) bool
	reach = func(b *ssa.BasicBlock) bool {
		if b == target {
			return true
		}
		if seen[b] {
			return false
		}
		seen[b] = true
		for k, s := range b.Succs {
			if len(b.Succs) == 2 && b.Succs[0] != b.Succs[1] && edgeSat(b, k) {
				continue
			}
			if reach(s) {
				return true
			}
		}
		return false
	}
	return !reach(fn.Blocks[0])
}

// edgeFacts returns the facts established by taking edge d->d.Succs[k].
func edgeFacts(d *ssa.BasicBlock, k int) []Fact {
	if len(d.Instrs) == 0 {
		return nil
	}
	iff, ok := d.Instrs[len(d.Instrs)-1].(*ssa.If)
	if !ok {
		return nil
	}
	var out []Fact
	decompose(iff.Cond, k == 0, iff, &out)
	return out
}

// everyPathEstablishes: every path from entry to target crosses an edge one of whose facts
// satisfies pred.
func everyPathEstablishes(target *ssa.BasicBlock, pred func(Fact) bool) bool {
	return everyPathCrosses(target, func(d *ssa.BasicBlock, k int) bool {
		for _, f := range edgeFacts(d, k) {
			if pred(f) {
				return true
			}
		}
		return false
	})
}

// isLenOf: v is len(x) where x satisfies pred.
func isLenOf(v ssa.Value, pred func(ssa.Value) bool) bool {
	c, ok := v.(*ssa.Call)
	if !ok {
		return false
	}
	b, ok := c.Call.Value.(*ssa.Builtin)
	return ok && b.Name() == "len" && len(c.Call.Args) == 1 && pred(c.Call.Args[0])
}

func intConst(v ssa.Value) (int64, bool) {
	c, ok := v.(*ssa.Const)
	if !ok || c.Value == nil || c.Value.Kind() != constant.Int {
		return 0, false
	}
	return c.Int64(), true
}

// factSaysEmpty: the fact implies len(x)==0 for an x satisfying pred.
func factSaysEmpty(f Fact, pred func(ssa.Value) bool) bool {
	switch f.Kind {
	case EqConst:
		if n, ok := intConst(f.Const); ok && n == 0 && isLenOf(f.Val, pred) {
			return true
		}
	case IsFalse, IsTrue:
		if b, ok := f.Val.(*ssa.BinOp); ok && isLenOf(b.X, pred) {
			n, isc := intConst(b.Y)
			if !isc {
				return false
			}
			switch {
			case b.Op == token.GTR && n == 0 && f.Kind == IsFalse: // !(len > 0)
				return true
			case b.Op == token.GEQ && n == 1 && f.Kind == IsFalse:
				return true
			case b.Op == token.LSS && n == 1 && f.Kind == IsTrue:
				return true
			case b.Op == token.LEQ && n == 0 && f.Kind == IsTrue:
				return true
			}
		}
	}
	return false
}

// ---- lockset (F5) -------------------------------------------------------------------------

// mutexOp: if ins is a (deferred or direct) call of sync.(*Mutex|*RWMutex).<name> on a
// struct field, returns the field name and base value.
func mutexOp(ins ssa.Instruction) (op string, field string, base ssa.Value, deferred bool) {
	var cc *ssa.CallCommon
	switch x := ins.(type) {
	case *ssa.Call:
		cc = &x.Call
	case *ssa.Defer:
		cc = &x.Call
		deferred = true
	default:
		return
	}
	sc := cc.StaticCallee()
	if sc == nil || sc.Pkg == nil || sc.Pkg.Pkg.Path() != "sync" || len(cc.Args) == 0 {
		return "", "", nil, false
	}
	switch sc.Name() {
	case "Lock", "Unlock", "RLock", "RUnlock":
	default:
		return "", "", nil, false
	}
	if fa, ok := cc.Args[0].(*ssa.FieldAddr); ok {
		return sc.Name(), fieldName(fa.X.Type(), fa.Field), fa.X, deferred
	}
	return sc.Name(), "", cc.Args[0], deferred
}

// lockHeldAt reports whether the mutex stored in field muField (of any base) is certainly
// held when ins executes: a Lock/RLock on it dominates ins and no non-deferred unlock that
// follows that lock can reach ins.
func lockHeldAt(ins ssa.Instruction, muField string, allowRead bool) bool {
	fn := ins.Parent()
	var locks, unlocks []ssa.Instruction
	allInstrs(fn, false, func(_ *ssa.Function, i ssa.Instruction) {
		op, f, _, deferred := mutexOp(i)
		if f != muField {
			return
		}
		switch op {
		case "Lock":
			locks = append(locks, i)
		case "RLock":
			if allowRead {
				locks = append(locks, i)
			}
		case "Unlock", "RUnlock":
			if !deferred {
				unlocks = append(unlocks, i)
			}
		}
	})
	for _, l := range locks {
		if !instrDominates(l, ins) {
			continue
		}
		ok := true
		for _, u := range unlocks {
			if instrDominates(l, u) && canReach(u, ins) {
				ok = false
			}
		}
		if ok {
			return true
		}
	}
	return false
}

// canReach reports whether execution can flow from instruction a to instruction b.
func canReach(a, b ssa.Instruction) bool {
	ba, bb := a.Block(), b.Block()
	if ba == bb {
		ia, ib := -1, -1
		for i, ins := range ba.Instrs {
			if ins == a {
				ia = i
			}
			if ins == b {
				ib = i
			}
		}
		if ia < ib {
			return true
		}
	}
	seen := map[*ssa.BasicBlock]bool{}
	var walk func(x *ssa.BasicBlock) bool
	walk = func(x *ssa.BasicBlock) bool {
		for _, s := range x.Succs {
			if s == bb {
				return true
			}
			if !seen[s] {
				seen[s] = true
				if walk(s) {
					return true
				}
			}
		}
		return false
	}
	return walk(ba)
}

// everyPathFromCrosses: every path from block `from` to block `target` traverses at least
// one conditional edge satisfying edgeSat (or target is unreachable from `from`).
func everyPathFromCrosses(from, target *ssa.BasicBlock, edgeSat func(d *ssa.BasicBlock, k int) bool) bool {
	seen := map[*ssa.BasicBlock]bool{}
	var reach func(b *ssa.BasicBlock) bool
	reach = func(b *ssa.BasicBlock) bool {
		if b == target {
			return true
		}
		if seen[b] {
			return false
		}
		seen[b] = true
		for k, s := range b.Succs {
			if len(b.Succs) == 2 && b.Succs[0] != b.Succs[1] && edgeSat(b, k) {
				continue
			}
			if reach(s) {
				return true
			}
		}
		return false
	}
	return !reach(from)
}

func edgeEstablishes(pred func(Fact) bool) func(d *ssa.BasicBlock, k int) bool {
	return func(d *ssa.BasicBlock, k int) bool {
		for _, f := range edgeFacts(d, k) {
			if pred(f) {
				return true
			}
		}
		return false
	}
}

// sinksReachable walks forward from just after instruction `from` and returns every
// instruction satisfying sink that can execute without first executing a barrier
// instruction or traversing a blocked conditional edge.
func sinksReachable(from ssa.Instruction, barrier func(ssa.Instruction) bool, edgeBlocked func(d *ssa.BasicBlock, k int) bool, sink func(ssa.Instruction) bool) []ssa.Instruction {
	var out []ssa.Instruction
	seen := map[*ssa.BasicBlock]bool{}
	var walkBlock func(b *ssa.BasicBlock, start int)
	walkBlock = func(b *ssa.BasicBlock, start int) {
		for i := start; i < len(b.Instrs); i++ {
			ins := b.Instrs[i]
			if barrier != nil && barrier(ins) {
				return
			}
			if sink(ins) {
				out = append(out, ins)
				return
			}
		}
		for k, s := range b.Succs {
			if edgeBlocked != nil && len(b.Succs) == 2 && b.Succs[0] != b.Succs[1] && edgeBlocked(b, k) {
				continue
			}
			if !seen[s] {
				seen[s] = true
				walkBlock(s, 0)
			}
		}
	}
	b := from.Block()
	idx := 0
	for i, ins := range b.Instrs {
		if ins == from {
			idx = i + 1
		}
	}
	walkBlock(b, idx)
	return out
}

// forwardReaches follows the uses of v (phis, conversions, append arguments and results,
// stores into locals and their loads, slices) and reports whether some use satisfies pred.
func forwardReaches(v ssa.Value, pred func(user ssa.Instruction, via ssa.Value) bool) bool {
	seen := map[ssa.Value]bool{}
	var walk func(v ssa.Value, depth int) bool
	walk = func(v ssa.Value, depth int) bool {
		if v == nil || seen[v] || depth > 40 {
			return false
		}
		seen[v] = true
		refs := v.Referrers()
		if refs == nil {
			return false
		}
		for _, u := range *refs {
			if pred(u, v) {
				return true
			}
			switch x := u.(type) {
			case *ssa.Phi, *ssa.ChangeType, *ssa.Convert, *ssa.MakeInterface, *ssa.Slice, *ssa.ChangeInterface:
				if walk(x.(ssa.Value), depth+1) {
					return true
				}
			case *ssa.Call:
				if b, ok := x.Call.Value.(*ssa.Builtin); ok && b.Name() == "append" {
					if walk(x, depth+1) {
						return true
					}
				}
			case *ssa.Store:
				if x.Val == v {
					switch a := x.Addr.(type) {
					case *ssa.IndexAddr:
						// element of an array pack / slice: the container's later uses
						if walk(a.X, depth+1) {
							return true
						}
					case *ssa.Alloc:
						for _, r := range *a.Referrers() {
							if ld, ok := r.(*ssa.UnOp); ok && ld.Op == token.MUL {
								if walk(ld, depth+1) {
									return true
								}
							}
							// captured by a closure: follow the free variable's loads
							if mc, ok := r.(*ssa.MakeClosure); ok {
								if f, ok := mc.Fn.(*ssa.Function); ok {
									for i, bnd := range mc.Bindings {
										if bnd == ssa.Value(a) && i < len(f.FreeVars) {
											for _, r2 := range *f.FreeVars[i].Referrers() {
												if ld, ok := r2.(*ssa.UnOp); ok && ld.Op == token.MUL {
													if walk(ld, depth+1) {
														return true
													}
												}
											}
										}
									}
								}
							}
						}
					case *ssa.FreeVar:
						// stored into a variable of the enclosing function: follow its loads there
						fn := x.Parent()
						hit := false
						if fn.Parent() != nil {
							allInstrs(fn.Parent(), false, func(_ *ssa.Function, ins ssa.Instruction) {
								if mc, ok := ins.(*ssa.MakeClosure); ok && mc.Fn == fn {
									for i, fv := range fn.FreeVars {
										if fv == a && i < len(mc.Bindings) {
											if al, ok := mc.Bindings[i].(*ssa.Alloc); ok {
												for _, r := range *al.Referrers() {
													if ld, ok := r.(*ssa.UnOp); ok && ld.Op == token.MUL {
														if walk(ld, depth+1) {
															hit = true
														}
													}
												}
											}
										}
									}
								}
							})
						}
						if hit {
							return true
						}
					}
				}
			}
		}
		return false
	}
	return walk(v, 0)
}

// bindingOf resolves a free variable to the value bound to it where the closure is made.
func bindingOf(fv *ssa.FreeVar) ssa.Value {
	fn := fv.Parent()
	if fn == nil || fn.Parent() == nil {
		return nil
	}
	var out ssa.Value
	allInstrs(fn.Parent(), false, func(_ *ssa.Function, ins ssa.Instruction) {
		if mc, ok := ins.(*ssa.MakeClosure); ok && mc.Fn == fn {
			for i, f := range fn.FreeVars {
				if f == fv && i < len(mc.Bindings) {
					out = mc.Bindings[i]
				}
			}
		}
	})
	if inner, ok := out.(*ssa.FreeVar); ok {
		return bindingOf(inner)
	}
	return out
}
