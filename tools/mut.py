#!/usr/bin/env python3
"""usage: mut.py <Cnn> <name> <expect-regex> <file> [<file2> ...]  (stdin: blocks 'old\n=====\nnew' separated by a line '#####', one per file)
Applies the textual replacements to /repo, then runs mkmutant.sh (build check, capture diff, restore)."""
import sys, subprocess, os
REPO = os.environ.get("MUTREPO", "/repo")
cid, name, expect, *files = sys.argv[1:]
blocks = sys.stdin.read().split("\n#####\n")
assert len(blocks) == len(files), (len(blocks), len(files))
for f, b in zip(files, blocks):
    old, new = b.split("\n=====\n")
    new = new.rstrip("\n") if not old.endswith("\n") else new
    p = REPO + "/" + f
    s = open(p).read()
    if s.count(old) != 1:
        subprocess.run(["git", "-C", REPO, "checkout", "--", "."])
        sys.exit(f"{f}: old text occurs {s.count(old)} times")
    open(p, "w").write(s.replace(old, new))
sys.exit(subprocess.run(["/verif/tools/mkmutant.sh", cid, name, expect]).returncode)
