package main

import (
	"go/token"
	"go/types"

	"golang.org/x/tools/go/ssa"
)

// C12 — AppendObject extends the object without losing concurrent appends.
func init() { register("C12", checkC12) }

// globalErrLoaded: v is a load of the package-level error variable `name`.
func globalErrLoaded(v ssa.Value, name string) bool {
	if ld, ok := stripConv(v).(*ssa.UnOp); ok && ld.Op == token.MUL {
		if g, ok := ld.X.(*ssa.Global); ok && g.Name() == name {
			return true
		}
	}
	return false
}

// returnsErr: the return yields the package-level error `name`.
func returnsErr(ret *ssa.Return, name string) bool {
	ei := errorResultIndex(ret.Parent())
	return ei >= 0 && globalErrLoaded(retResult(ret, ei), name)
}

func derivesFromFieldOf(v ssa.Value, field string, srcPred func(ssa.Value) bool) bool {
	ok := false
	backSlice(v, false, func(x ssa.Value) {
		var base ssa.Value
		switch y := x.(type) {
		case *ssa.FieldAddr:
			if fieldName(y.X.Type(), y.Field) == field {
				base = y.X
			}
		case *ssa.Field:
			if fieldName(y.X.Type(), y.Field) == field {
				base = y.X
			}
		}
		if base != nil && (srcPred == nil || sliceContains(base, false, srcPred)) {
			ok = true
		}
	})
	return ok
}

func checkC12(w *World, r *Run) {
	ruleOffset := r.Rule("write-offset-equals-current-size", "F1",
		"in metadataPartStorage.AppendObject every path to the metadata AppendObject call passes a test that opts/WriteOffset is absent, or that *WriteOffset equals the Size of the object HeadObject returned in this transaction (0 when there is none), the failing side returning ErrInvalidWriteOffset", 3)
	ruleCAS := r.Rule("in-place-append-is-a-cas-on-the-row-read", "F1",
		"sqlMetadataStore.AppendObject updates the existing row only through UpdateObjectByIdAndOptimisticLockVersion keyed with the OptimisticLockVersion of the row it read, returns ErrCASFailure when nothing was updated, saves part rows only after a successful CAS; the storage maps ErrCASFailure to ErrInvalidWriteOffset", 4)
	rulePrefix := r.Rule("append-keeps-the-stored-prefix", "F1",
		"the in-place append fails unless the caller's part list starts with exactly the part ids stored for the row (length and per-index id test), and saves only the suffix obj.Parts[len(existing):] at sequence offset len(existing)", 3)
	ruleShape := r.Rule("appended-object-is-previous-parts-then-new-part", "F9",
		"the object handed to the metadata store has Parts = (parts of the object read) followed by the single new part as last element, Size = size read + bytes written, and the new part's bytes go to PutPart under the new part id", 3)

	// ---- storage layer
	var lit *ssa.Function
	top := w.SSAFunc(relMP, "metadataPartStorage.AppendObject")
	if top == nil {
		r.Anchor(ruleOffset, "metadataPartStorage.AppendObject")
		return
	}
	var mdCall ssa.CallInstruction
	allInstrs(top, true, func(fn *ssa.Function, ins ssa.Instruction) {
		if c, m := mdStoreInvoke(ins); c != nil && m == "AppendObject" {
			mdCall, lit = c, fn
		}
	})
	if mdCall == nil {
		r.Bad(ruleOffset, "metadataPartStorage.AppendObject → metadataStore.AppendObject", top.Pos(), "no metadata AppendObject call found")
		return
	}
	isHead := func(x ssa.Value) bool { return isCallNamed(x, "HeadObject") }
	isOffset := func(v ssa.Value) bool { return derivesFromFieldOf(v, "WriteOffset", nil) }
	sat := func(d *ssa.BasicBlock, k int) bool {
		for _, f := range edgeFacts(d, k) {
			switch f.Kind {
			case IsNil:
				if _, isParam := unspill(f.Val).(*ssa.FreeVar); isParam {
					return true // opts == nil (captured parameter)
				}
				if p, ok := f.Val.(*ssa.UnOp); ok {
					if _, isFV := p.X.(*ssa.FreeVar); isFV {
						return true
					}
				}
				if n, _ := fieldLoadName(f.Val); n == "WriteOffset" {
					return true
				}
			case EqConst:
				if f.Other != nil {
					if (isOffset(f.Val) && derivesFromFieldOf(f.Other, "Size", isHead)) || (isOffset(f.Other) && derivesFromFieldOf(f.Val, "Size", isHead)) {
						return true
					}
				}
				if f.Const != nil && isOffset(f.Val) {
					if n, isc := intConst(f.Const); isc && n == 0 {
						// only valid where no object exists
						for _, g := range factsAt(d) {
							if g.Kind == IsNil && sliceContains(g.Val, false, isHead) {
								return true
							}
						}
					}
				}
			}
		}
		return false
	}
	r.Check(everyPathCrosses(mdCall.Block(), sat), ruleOffset, "AppendObject: every path to the metadata write checked the offset", posOf(mdCall), "opts/WriteOffset absent, or *WriteOffset == current size (0 without object)", "a path reaches the metadata AppendObject without *WriteOffset having been compared with the size of the object read in this transaction: an append at a stale offset is accepted")
	// the failing sides return ErrInvalidWriteOffset
	nFail := 0
	for _, ret := range returnsOf(lit) {
		if !returnsErr(ret, "ErrInvalidWriteOffset") {
			continue
		}
		for _, f := range factsAt(ret.Block()) {
			if f.Kind == NeConst && (isOffset(f.Val) || (f.Other != nil && isOffset(f.Other))) {
				nFail++
				break
			}
		}
	}
	r.Check(nFail >= 2, ruleOffset, "AppendObject: offset mismatch answers ErrInvalidWriteOffset", lit.Pos(), "both mismatch branches (no object / size differs) return ErrInvalidWriteOffset", "an offset that differs from the current size (or a non-zero offset for a missing object) is not rejected with ErrInvalidWriteOffset")
	// CAS failure mapping
	mapped := false
	for _, ret := range returnsOf(lit) {
		if !returnsErr(ret, "ErrInvalidWriteOffset") {
			continue
		}
		for _, f := range factsAt(ret.Block()) {
			if f.Kind == EqConst && f.Other != nil && (globalErrLoaded(f.Other, "ErrCASFailure") || globalErrLoaded(f.Val, "ErrCASFailure")) {
				mapped = true
			}
		}
	}
	r.Check(mapped, ruleOffset, "AppendObject: a lost CAS answers ErrInvalidWriteOffset", lit.Pos(), "err == ErrCASFailure → ErrInvalidWriteOffset", "a concurrent append that won the row is not reported as an invalid write offset")

	// shape of the object handed over
	obj := mdCall.Common().Args[len(mdCall.Common().Args)-2]
	var partsVal, sizeVal ssa.Value
	backSlice(obj, false, func(x ssa.Value) {
		a, ok := x.(*ssa.Alloc)
		if !ok || structNameOf(a.Type()) != "Object" {
			return
		}
		for _, ref := range *a.Referrers() {
			if fa, ok := ref.(*ssa.FieldAddr); ok {
				for _, s := range storesTo(fa) {
					switch fieldName(fa.X.Type(), fa.Field) {
					case "Parts":
						partsVal = s
					case "Size":
						sizeVal = s
					}
				}
			}
		}
	})
	shapeOK, why := false, "Parts of the appended object not found"
	if partsVal != nil {
		// the last append: append(prev, newPart)
		if c, ok := stripConv(partsVal).(*ssa.Call); ok && isBuiltinCall(c, "append") {
			var last ssa.Value
			backSlice(c.Call.Args[1], false, func(x ssa.Value) {
				if a, ok := x.(*ssa.Alloc); ok && a.Comment == "varargs" {
					for _, ref := range *a.Referrers() {
						if ia, ok := ref.(*ssa.IndexAddr); ok {
							for _, s := range storesTo(ia) {
								last = s
							}
						}
					}
				}
			})
			newOK := last != nil && partOrigin(last, func(ssa.Value) bool { return false }, 0) == "fresh" && sliceContains(last, false, func(x ssa.Value) bool { return isCallNamed(x, "dedupeFreshPart") })
			prevOK := sliceContains(c.Call.Args[0], true, func(x ssa.Value) bool {
				n, base := fieldLoadName(x)
				return n == "Parts" && sliceContains(base, false, isHead)
			})
			switch {
			case !newOK:
				why = "the last element appended is not the freshly written part"
			case !prevOK:
				why = "the list the new part is appended to does not derive from the parts of the object read"
			default:
				shapeOK = true
			}
		} else {
			why = "Parts is not 'append(previous, newPart)'"
		}
	}
	r.Check(shapeOK, ruleShape, "AppendObject: Parts = previous parts ++ [new part]", posOf(mdCall), "append(existing…, newPart)", why+": the content after the append is not the previous content followed by the appended bytes")
	sizeOK := sizeVal != nil && derivesFromFieldOf(sizeVal, "Size", isHead) && sliceContains(sizeVal, false, func(x ssa.Value) bool {
		e, ok := x.(*ssa.Extract)
		return ok && e.Index == 0 && isCallNamed(e.Tuple, "CalculateChecksumsStreaming")
	}) && sliceContains(sizeVal, false, func(x ssa.Value) bool { b, ok := x.(*ssa.BinOp); return ok && b.Op == token.ADD })
	r.Check(sizeOK, ruleShape, "AppendObject: Size = size read + bytes written", posOf(mdCall), "existingObject.Size + *newPartSize", "the recorded size is not the previous size plus the number of bytes written")
	// PutPart under the new id
	putOK := false
	allInstrs(lit, true, func(_ *ssa.Function, ins ssa.Instruction) {
		c, ok := ins.(ssa.CallInstruction)
		if !ok || !c.Common().IsInvoke() || c.Common().Method.Name() != "PutPart" {
			return
		}
		id := c.Common().Args[len(c.Common().Args)-2]
		if sliceContains(id, false, func(x ssa.Value) bool { return isCallNamed(x, "NewRandomPartId") }) || func() bool {
			ok := false
			backSlice(id, false, func(x ssa.Value) {
				if fv, isFV := x.(*ssa.FreeVar); isFV {
					if b := bindingOf(fv); b != nil && sliceContains(b, false, func(y ssa.Value) bool { return isCallNamed(y, "NewRandomPartId") }) {
						ok = true
					}
				}
			})
			return ok
		}() {
			putOK = true
		}
	})
	r.Check(putOK, ruleShape, "AppendObject: appended bytes are stored under a fresh part id", lit.Pos(), "PutPart(NewRandomPartId())", "the appended bytes are not written under a freshly generated part id: an existing part could be overwritten")

	// ---- SQL layer
	fn := w.SSAFunc(relSQLStore, "sqlMetadataStore.AppendObject")
	if fn == nil {
		r.Anchor(ruleCAS, "sqlMetadataStore.AppendObject")
		return
	}
	var cas, find *ssa.Call
	var saves []*ssa.Call
	allInstrs(fn, false, func(_ *ssa.Function, ins ssa.Instruction) {
		c, ok := ins.(*ssa.Call)
		if !ok {
			return
		}
		switch {
		case isCallNamed(c, "UpdateObjectByIdAndOptimisticLockVersion"):
			cas = c
		case isCallNamed(c, "FindObjectByBucketNameAndKey"):
			find = c
		case isCallNamed(c, "savePartRows"):
			saves = append(saves, c)
		case isCallNamed(c, "UpdateObjectById", "DeleteObjectById"):
			r.Bad(ruleCAS, "sqlMetadataStore.AppendObject → "+calleeObj(c).Name(), posOf(c), "the existing row is modified without the optimistic-lock CAS")
		}
	})
	if cas == nil || find == nil {
		r.Bad(ruleCAS, "sqlMetadataStore.AppendObject CAS", fn.Pos(), "no UpdateObjectByIdAndOptimisticLockVersion / FindObjectByBucketNameAndKey call: a concurrent append is silently overwritten")
		return
	}
	verArg := cas.Call.Args[len(cas.Call.Args)-1]
	n, base := fieldLoadName(verArg)
	keyed := false
	if fc, fi := extractOf(base); n == "OptimisticLockVersion" && fc == find && fi == 0 {
		keyed = true
	}
	r.Check(keyed, ruleCAS, "sqlMetadataStore.AppendObject: CAS keyed with the version of the row read", posOf(cas), "oldObjectEntity.OptimisticLockVersion", "the CAS version is not the OptimisticLockVersion of the row FindObjectByBucketNameAndKey returned: a concurrent append between read and update is not detected")
	// the updated entity keeps the row id
	ent := cas.Call.Args[len(cas.Call.Args)-2]
	idOK := false
	backSlice(ent, false, func(x ssa.Value) {
		if a, ok := x.(*ssa.Alloc); ok {
			for _, ref := range *a.Referrers() {
				if fa, ok := ref.(*ssa.FieldAddr); ok && fieldName(fa.X.Type(), fa.Field) == "Id" {
					for _, s := range storesTo(fa) {
						if nn, b := fieldLoadName(s); nn == "Id" && sliceContains(b, false, func(y ssa.Value) bool { return y == ssa.Value(find) }) {
							idOK = true
						}
					}
				}
			}
		}
	})
	r.Check(idOK, ruleCAS, "sqlMetadataStore.AppendObject: CAS updates the row read", posOf(cas), "Id: oldObjectEntity.Id", "the CAS does not address the row that was read")
	// !*updated → ErrCASFailure
	failOK := false
	for _, ret := range returnsOf(fn) {
		if !returnsErr(ret, "ErrCASFailure") {
			continue
		}
		for _, f := range factsAt(ret.Block()) {
			if f.Kind == IsFalse && sliceContains(f.Val, false, func(x ssa.Value) bool { return x == ssa.Value(cas) }) {
				failOK = true
			}
		}
	}
	r.Check(failOK, ruleCAS, "sqlMetadataStore.AppendObject: lost CAS returns ErrCASFailure", fn.Pos(), "!*updated → ErrCASFailure", "a CAS that updated no row is not reported: the loser's part rows are appended to a row it did not extend")
	// in-place savePartRows after successful CAS, suffix only
	var inPlace *ssa.Call
	for _, s := range saves {
		if instrDominates(cas, s) {
			inPlace = s
		}
	}
	okSave := false
	if inPlace != nil {
		for _, f := range factsAt(inPlace.Block()) {
			if f.Kind == IsTrue && sliceContains(f.Val, false, func(x ssa.Value) bool { return x == ssa.Value(cas) }) {
				okSave = true
			}
		}
	}
	r.Check(okSave, ruleCAS, "sqlMetadataStore.AppendObject: part rows saved only after a won CAS", posOrFn(inPlace, fn), "savePartRows dominated by *updated == true", "part rows are saved although the CAS may have lost")

	// prefix
	var existing *ssa.Call
	allInstrs(fn, false, func(_ *ssa.Function, ins ssa.Instruction) {
		if c, ok := ins.(*ssa.Call); ok && isCallNamed(c, "FindPartsByObjectIdOrderBySequenceNumberAsc") {
			existing = c
		}
	})
	if existing == nil {
		r.Bad(rulePrefix, "sqlMetadataStore.AppendObject: stored part list", fn.Pos(), "the stored part rows are never read")
		return
	}
	isExisting := func(x ssa.Value) bool { return x == ssa.Value(existing) }
	isObjParts := func(v ssa.Value) bool {
		return derivesFromFieldOf(v, "Parts", func(x ssa.Value) bool { _, isP := x.(*ssa.Parameter); return isP })
	}
	lenFail, idFail := false, false
	for _, ret := range returnsOf(fn) {
		if !isFailureReturn(ret) {
			continue
		}
		for _, f := range factsAt(ret.Block()) {
			if f.Kind == IsTrue {
				if b, ok := f.Val.(*ssa.BinOp); ok && b.Op == token.LSS && isLenOf(b.X, isObjParts) && isLenOf(b.Y, func(x ssa.Value) bool { return sliceContains(x, false, isExisting) }) {
					lenFail = true
				}
			}
			if f.Kind == NeConst && f.Other != nil {
				a, b2 := f.Val, f.Other
				aParts := derivesFromFieldOf(a, "Id", nil) && isObjParts(a)
				bRow := derivesFromFieldOf(b2, "PartId", nil) && sliceContains(b2, false, isExisting)
				aRow := derivesFromFieldOf(a, "PartId", nil) && sliceContains(a, false, isExisting)
				bParts := derivesFromFieldOf(b2, "Id", nil) && isObjParts(b2)
				if (aParts && bRow) || (aRow && bParts) {
					idFail = true
				}
			}
		}
	}
	r.Check(lenFail, rulePrefix, "sqlMetadataStore.AppendObject: shorter part list fails", fn.Pos(), "len(obj.Parts) < len(existingParts) → error", "a caller whose part list is shorter than the stored one is not rejected: stored parts silently drop out of the object")
	r.Check(idFail, rulePrefix, "sqlMetadataStore.AppendObject: per-index part id mismatch fails", fn.Pos(), "obj.Parts[i].Id != existing[i].PartId → error", "a caller that read an older part list is not rejected: a concurrent append's part is overwritten at its sequence number")
	sufOK := false
	if inPlace != nil {
		args := inPlace.Call.Args
		partsArg, offArg := args[len(args)-2], args[len(args)-1]
		if sl, ok := stripConv(partsArg).(*ssa.Slice); ok && sl.Low != nil && sl.High == nil &&
			isLenOf(sl.Low, func(x ssa.Value) bool { return sliceContains(x, false, isExisting) }) && isObjParts(sl.X) &&
			isLenOf(offArg, func(x ssa.Value) bool { return sliceContains(x, false, isExisting) }) {
			sufOK = true
		}
	}
	r.Check(sufOK, rulePrefix, "sqlMetadataStore.AppendObject: only the suffix is saved, at the next sequence number", posOrFn(inPlace, fn), "savePartRows(obj.Parts[len(existing):], len(existing))", "the appended rows are not exactly the caller's parts beyond the stored prefix, numbered after it")
	_ = types.Typ
	ruleDrained := r.Rule("append-runs-on-drained-state", "F1",
		"the outbox storage forwards AppendObject to the inner storage only after an error-checked wait for the key's queued entries (with or without a write offset): an append applied before an acknowledged queued put is replayed is overwritten by that put and lost", 1)
	checkOutboxDrain(w, r, ruleDrained, map[string]bool{"AppendObject": true})
	checkPartInsertIsPlain(w, r)
	checkC12OffsetZeroIsAnOffset(w, r)
	r.NotCovered("the concurrent histories themselves and byte-level content; that the database serialises the CAS; appends that create a new version (routed to PutObject) are covered by C07/C13 rules")
}
