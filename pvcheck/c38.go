package main

import (
	"go/ast"
	"go/types"
	"sort"
	"strings"
)

// C38 — the S3 client backend behaves like the storage it forwards to.
func init() { register("C38", checkC38) }

const relS3Client = "internal/storage/s3client"

// option/result fields the S3 wire protocol has no place for, or that are derived.
var c38Exempt = map[string]string{
	"ListObjectsOptions.SkipPartFetch":                        "internal optimisation hint of the metadata store, no observable effect",
	"PutObject:ChecksumInput.ChecksumType":                    "S3 has no checksum-type field on single-request uploads (always FULL_OBJECT)",
	"UploadPart:ChecksumInput.ChecksumType":                   "S3 has no checksum-type field on part uploads",
	"CompleteMultipartUpload:ChecksumInput.ChecksumAlgorithm": "not a request field of CompleteMultipartUpload; the algorithm is fixed at CreateMultipartUpload",
	"CompleteMultipartUpload:ChecksumInput.ETag":              "CompleteMultipartUpload carries no Content-MD5 of the object; part ETags travel in the part manifest",
}

func checkC38(w *World, r *Run) {
	iface := checkStorageTable(w, r)
	T := w.Named(relS3Client, "s3ClientStorage")
	ruleOpts := r.Rule("s3client-reads-every-option-field", "F3",
		"every s3ClientStorage method reads every field of each options struct it receives (nested condition structs included): an unread option is silently ignored by the backend", 30)
	ruleImpl := r.Rule("s3client-implements-every-operation", "F1",
		"no s3ClientStorage method of storage.Storage returns ErrNotImplemented", 37)
	ruleRes := r.Rule("s3client-fills-result-fields", "F3",
		"every field of the result struct a method returns is assigned from the SDK output", 30)
	if iface == nil || T == nil {
		r.Anchor(ruleOpts, relS3Client+".s3ClientStorage")
		return
	}
	mat := overrideMatrix(T, iface)
	storagePkgs := map[string]bool{"internal/storage": true, "internal/storage/metadatapart/metadatastore": true}
	var names []string
	for m := range storageMethods {
		names = append(names, m)
	}
	sort.Strings(names)
	for _, m := range names {
		if storageMethods[m] == mLifecycle {
			continue
		}
		o := mat[m]
		if !o.Own {
			r.Bad(ruleImpl, "(*s3ClientStorage)."+m, T.Obj().Pos(), "method not implemented by the type itself")
			continue
		}
		fd := w.Decl(o.Func)
		info := w.InfoFor(fd)
		// helpers of the package called from the method body count as part of it
		nodes := []ast.Node{fd.Body}
		ast.Inspect(fd.Body, func(n ast.Node) bool {
			if c, ok := n.(*ast.CallExpr); ok {
				if f := calleeOfExpr(info, c); f != nil && f.Pkg() != nil && pkgRel(f.Pkg()) == relS3Client {
					if hd := w.Decl(f); hd != nil && hd != fd {
						nodes = append(nodes, hd.Body)
					}
				}
			}
			return true
		})
		read := map[*types.Var]bool{}
		assigned := map[*types.Var]bool{}
		notImpl := ""
		for _, nd := range nodes {
			for f := range fieldsSelectedIn(info, nd) {
				read[f] = true
			}
			for f := range fieldsAssignedIn(info, nd) {
				assigned[f] = true
			}
		}
		ast.Inspect(fd.Body, func(n ast.Node) bool {
			if rs, ok := n.(*ast.ReturnStmt); ok {
				for _, e := range rs.Results {
					if se, ok := e.(*ast.SelectorExpr); ok && se.Sel.Name == "ErrNotImplemented" {
						notImpl = w.Pos(rs.Pos())
					}
				}
			}
			return true
		})
		cons := "(*s3ClientStorage)." + m
		whole := false
		if notImpl != "" {
			whole = true
			// whole method unimplemented vs. a sub-case
			ast.Inspect(fd.Body, func(n ast.Node) bool {
				if c, ok := n.(*ast.CallExpr); ok {
					if se, ok := c.Fun.(*ast.SelectorExpr); ok {
						if id, ok := se.X.(*ast.SelectorExpr); ok && id.Sel.Name == "s3Client" {
							whole = false
						}
					}
				}
				return true
			})
			if whole {
				r.Bad(ruleImpl, cons, o.Func.Pos(), "always returns ErrNotImplemented: the operation cannot be performed through this backend")
			} else {
				r.Bad(ruleImpl, cons+" (sub-case)", o.Func.Pos(), "returns ErrNotImplemented for some inputs ("+notImpl+"): those requests behave differently from the storage the endpoint fronts")
			}
		} else {
			r.OK(ruleImpl, cons, o.Func.Pos(), "implemented")
		}
		if whole {
			continue // nothing is forwarded at all; reported once above
		}
		// option structs among the parameters
		sig := o.Func.Type().(*types.Signature)
		for i := 0; i < sig.Params().Len(); i++ {
			pt := sig.Params().At(i).Type()
			if p, ok := types.Unalias(pt).(*types.Pointer); ok {
				pt = p.Elem()
			}
			n, ok := types.Unalias(pt).(*types.Named)
			if !ok || n.Obj().Pkg() == nil || !storagePkgs[pkgRel(n.Obj().Pkg())] {
				continue
			}
			if !strings.HasSuffix(n.Obj().Name(), "Options") && n.Obj().Name() != "ChecksumInput" {
				continue
			}
			var walk func(n *types.Named, prefix string)
			walk = func(n *types.Named, prefix string) {
				for _, f := range structFieldsOf(n) {
					fname := prefix + "." + f.Name()
					if sub, ok := types.Unalias(f.Type()).(*types.Named); ok && sub.Obj().Pkg() != nil && storagePkgs[pkgRel(sub.Obj().Pkg())] {
						if _, isStruct := sub.Underlying().(*types.Struct); isStruct && strings.HasSuffix(sub.Obj().Name(), "Conditions") {
							walk(sub, fname)
							continue
						}
					}
					c2 := cons + " reads " + fname
					why, ex := c38Exempt[fname]
					if !ex {
						why, ex = c38Exempt[m+":"+fname]
					}
					if ex {
						r.Exempt(ruleOpts, c2, f.Pos(), why)
						continue
					}
					r.Check(read[f], ruleOpts, c2, fd.Pos(), "read", "the option is never read: the backend performs the operation as if it had not been given")
				}
			}
			walk(n, n.Obj().Name())
		}
		// result struct
		if sig.Results().Len() >= 1 {
			rt := sig.Results().At(0).Type()
			if p, ok := types.Unalias(rt).(*types.Pointer); ok {
				rt = p.Elem()
			}
			if n, ok := types.Unalias(rt).(*types.Named); ok && n.Obj().Pkg() != nil && storagePkgs[pkgRel(n.Obj().Pkg())] && strings.HasSuffix(n.Obj().Name(), "Result") {
				for _, f := range structFieldsOf(n) {
					c2 := cons + " fills " + n.Obj().Name() + "." + f.Name()
					if why, ex := c38Exempt[n.Obj().Name()+"."+f.Name()]; ex {
						r.Exempt(ruleRes, c2, f.Pos(), why)
						continue
					}
					r.Check(assigned[f], ruleRes, c2, fd.Pos(), "assigned", "the result field is never assigned: callers see the zero value where the direct storage reports a value")
				}
			}
		}
	}
	checkC38Directives(w, r)
	checkCopySourceCodec(w, r)
	checkC38ErrorKinds(w, r, T)
	r.NotCovered("that each SDK field has the same meaning as the option it is filled from; error kinds the endpoint reports with a code that is not the storage error's text; listing pagination behaviour; everything the remote endpoint does")
}
