package main

import (
	"fmt"
	"go/constant"
	"go/types"
	"sort"

	"golang.org/x/tools/go/ssa"
)

// C26 — the audit log records every operation and always verifies.
func init() { register("C26", checkC26) }

const relAudit = "internal/storage/middlewares/audit"

func checkC26(w *World, r *Run) {
	iface := checkStorageTable(w, r)
	T := w.Named(relAudit, "AuditLogMiddleware")
	ruleOv := r.Rule("audit-overrides-every-method", "F2",
		"every storage.Storage method except Start/Stop is implemented by *AuditLogMiddleware itself; an inherited method reaches the inner storage without a START/COMPLETE record", 37)
	ruleRec := r.Rule("audit-records-inner-call", "F1",
		"in every overriding method, each inner call m.Next.<M> happens inside the closure given to m.run, or inline between m.log(..START..) (dominating) and m.log(..COMPLETE.., err of that call) on every path to the return; all records of one method carry one operation constant", 31)
	ruleInj := r.Rule("audit-operation-injective", "F7",
		"different storage methods are recorded under different operation constants", 31)
	ruleRun := r.Rule("audit-run-brackets-fn", "F1",
		"(*AuditLogMiddleware).run logs PhaseStart before calling fn and PhaseComplete with fn's error on every path after it, and returns that error", 3)
	ruleLock := r.Rule("audit-chain-state-under-mutex", "F5",
		"every access to the chain state lastHash / hashBuffer happens with m.mu held (constructor exempt: value not shared yet); helpers without own lock are called only with it held", 8)
	ruleGround := r.Rule("audit-grounding-threshold", "F1",
		"emitGrounding is called exactly under len(hashBuffer) >= GroundingBlockSize, hashes are appended only after sink.WriteEntry succeeded, emitGrounding resets the buffer only after its own write succeeded", 3)
	if iface == nil || T == nil {
		r.Anchor(ruleOv, relAudit+".AuditLogMiddleware")
		return
	}
	mat := overrideMatrix(T, iface)
	runFn := w.Func(relAudit, "AuditLogMiddleware.run")
	logFn := w.Func(relAudit, "AuditLogMiddleware.log")
	if runFn == nil || logFn == nil {
		r.Anchor(ruleRun, "AuditLogMiddleware.run/log")
		return
	}
	opOf := map[string]string{}
	var names []string
	for m := range storageMethods {
		names = append(names, m)
	}
	sort.Strings(names)
	for _, m := range names {
		if storageMethods[m] == mLifecycle {
			continue
		}
		cons := "(*AuditLogMiddleware)." + m
		o, ok := mat[m]
		if !ok || !o.Own {
			r.Bad(ruleOv, cons, T.Obj().Pos(), "inherited from the embedded delegator: calls of "+m+" are forwarded without any audit record")
			continue
		}
		r.OK(ruleOv, cons, o.Func.Pos(), "own implementation")
		fn := w.Prog.FuncValue(o.Func)
		if op, ok := checkC26Method(w, r, ruleRec, cons, m, fn, runFn, logFn); ok {
			opOf[m] = op
		}
	}
	// injectivity
	byOp := map[string][]string{}
	for m, op := range opOf {
		byOp[op] = append(byOp[op], m)
	}
	for _, m := range names {
		op, ok := opOf[m]
		if !ok {
			continue
		}
		ms := byOp[op]
		sort.Strings(ms)
		r.Check(len(ms) == 1, ruleInj, "(*AuditLogMiddleware)."+m+" ↦ "+op, mat[m].Func.Pos(), "unique", fmt.Sprintf("operation %q is also recorded for %v: the log cannot tell the calls apart", op, ms))
	}
	checkC26Run(w, r, ruleRun, w.Prog.FuncValue(runFn), logFn)
	checkC26Lock(w, r, ruleLock)
	checkC26Grounding(w, r, ruleGround, w.Prog.FuncValue(logFn))
	checkSinkRecoveryTracksValidator(w, r)
	checkSerializedTimesAreUTC(w, r)
	checkC26VerifierAcceptsWhatIsWritten(w, r)
	r.NotCovered("signature validity, hash values and Merkle roots (runtime values); ordering of START/COMPLETE entries of concurrent calls")
}

func phaseOfLogCall(c ssa.CallInstruction) string {
	a := c.Common().Args // recv, ctx, op, phase, resource, err, status, dur
	if len(a) < 6 {
		return ""
	}
	if k, ok := a[3].(*ssa.Const); ok && k.Value != nil && k.Value.Kind() == constant.String {
		return constant.StringVal(k.Value)
	}
	return ""
}

func constString(v ssa.Value) (string, bool) {
	if k, ok := v.(*ssa.Const); ok && k.Value != nil && k.Value.Kind() == constant.String {
		return constant.StringVal(k.Value), true
	}
	return "", false
}

func checkC26Method(w *World, r *Run, rule, cons, method string, fn *ssa.Function, runFn, logFn *types.Func) (string, bool) {
	type innerSite struct {
		in   *ssa.Function
		call ssa.CallInstruction
	}
	var inner []innerSite
	ops := map[string]bool{}
	allInstrs(fn, true, func(in *ssa.Function, ins ssa.Instruction) {
		c, ok := ins.(ssa.CallInstruction)
		if !ok {
			return
		}
		if c.Common().IsInvoke() {
			if n, _ := fieldLoadName(c.Common().Value); n == "Next" && c.Common().Method.Name() == method {
				inner = append(inner, innerSite{in, c})
			}
			return
		}
		f := calleeObj(c)
		if f == runFn || f == logFn {
			if s, ok := constString(c.Common().Args[2]); ok {
				ops[s] = true
			} else {
				ops["<non-constant>"] = true
			}
		}
	})
	if len(inner) == 0 {
		r.Bad(rule, cons, fn.Pos(), "no inner call m.Next."+method+" found")
		return "", false
	}
	good := true
	for _, s := range inner {
		if s.in != fn {
			// inside a closure: the closure must be the fn argument of m.run in the method
			okRun := false
			for _, rc := range callsTo(fn, false, func(f *types.Func) bool { return f == runFn }) {
				arg := rc.Common().Args[4]
				if mc, ok := arg.(*ssa.MakeClosure); ok && mc.Fn == s.in {
					okRun = true
				}
				if f, ok := arg.(*ssa.Function); ok && f == s.in {
					okRun = true
				}
			}
			if !okRun {
				good = false
				r.Bad(rule, cons, posOf(s.call), "inner call sits in a function literal that is not the fn argument of m.run")
			}
			continue
		}
		// inline idiom
		startOK := false
		for _, lc := range callsTo(fn, false, func(f *types.Func) bool { return f == logFn }) {
			if phaseOfLogCall(lc) == "START" && instrDominates(lc, s.call) {
				startOK = true
			}
		}
		errVal := errResultOf(s.call)
		complete := func(ins ssa.Instruction) bool {
			c, ok := ins.(ssa.CallInstruction)
			if !ok || calleeObj(c) != logFn || phaseOfLogCall(c) != "COMPLETE" {
				return false
			}
			return errVal != nil && sameValue(c.Common().Args[5], errVal)
		}
		rets := returnsReachableAvoiding(s.call, complete)
		if !startOK || len(rets) > 0 {
			good = false
			d := "inner call not bracketed: "
			if !startOK {
				d += "no dominating m.log(PhaseStart); "
			}
			if len(rets) > 0 {
				d += fmt.Sprintf("return at %s reachable without m.log(PhaseComplete, err)", w.Pos(posOf(rets[0])))
			}
			r.Bad(rule, cons, posOf(s.call), d)
		}
	}
	if len(ops) != 1 {
		good = false
		r.Bad(rule, cons, fn.Pos(), fmt.Sprintf("records carry %d different operation constants %v", len(ops), keys(ops)))
	}
	if good {
		op := keys(ops)[0]
		r.OK(rule, cons, fn.Pos(), "recorded as "+op)
		return op, true
	}
	return "", false
}

func keys(m map[string]bool) []string {
	var out []string
	for k := range m {
		out = append(out, k)
	}
	sort.Strings(out)
	return out
}

// errResultOf returns the SSA value of the error result of a call (Extract of the last
// tuple element, or the call itself).
func errResultOf(c ssa.CallInstruction) ssa.Value {
	v := c.Value()
	if v == nil {
		return nil
	}
	res := c.Common().Signature().Results()
	if res.Len() == 0 || !isErrorType(res.At(res.Len()-1).Type()) {
		return nil
	}
	if res.Len() == 1 {
		return v
	}
	for _, ref := range *v.Referrers() {
		if e, ok := ref.(*ssa.Extract); ok && e.Index == res.Len()-1 {
			return e
		}
	}
	return nil
}

func checkC26Run(w *World, r *Run, rule string, fn *ssa.Function, logFn *types.Func) {
	cons := "(*AuditLogMiddleware).run"
	var fnCall ssa.CallInstruction
	allInstrs(fn, false, func(_ *ssa.Function, ins ssa.Instruction) {
		if c, ok := ins.(ssa.CallInstruction); ok && !c.Common().IsInvoke() && c.Common().StaticCallee() == nil {
			if paramIndex(fn, c.Common().Value) >= 0 {
				fnCall = c
			}
		}
	})
	if fnCall == nil {
		r.Bad(rule, cons+": calls fn", fn.Pos(), "no call of the fn parameter found")
		return
	}
	start := false
	for _, lc := range callsTo(fn, false, func(f *types.Func) bool { return f == logFn }) {
		if phaseOfLogCall(lc) == "START" && instrDominates(lc, fnCall) && sameValue(lc.Common().Args[2], fn.Params[2]) {
			start = true
		}
	}
	r.Check(start, rule, cons+": START before fn", fn.Pos(), "m.log(ctx, op, PhaseStart, ..) dominates fn(ctx)", "fn is called without a dominating START record for op")
	errVal := fnCall.Value()
	rets := returnsReachableAvoiding(fnCall, func(ins ssa.Instruction) bool {
		c, ok := ins.(ssa.CallInstruction)
		return ok && calleeObj(c) == logFn && phaseOfLogCall(c) == "COMPLETE" && sameValue(c.Common().Args[5], errVal) && sameValue(c.Common().Args[2], fn.Params[2])
	})
	r.Check(len(rets) == 0, rule, cons+": COMPLETE after fn", fn.Pos(), "every path after fn(ctx) logs PhaseComplete with fn's error", "a return is reachable after fn(ctx) without a COMPLETE record carrying its error")
	retOK := true
	for _, ret := range returnsOf(fn) {
		if len(ret.Results) != 1 || !sameValue(retResult(ret, 0), errVal) {
			retOK = false
		}
	}
	r.Check(retOK, rule, cons+": returns fn's error", fn.Pos(), "return err", "run does not return fn's error: the caller's outcome differs from the recorded one")
}

func checkC26Lock(w *World, r *Run, rule string) {
	p := w.Pkg(relAudit)
	sp := w.SSA[p.Types]
	state := map[string]bool{"lastHash": true, "hashBuffer": true}
	// per function: all accesses
	perFn := map[*ssa.Function][]ssa.Instruction{}
	for _, fn := range w.allFuncs {
		if fn.Pkg != sp {
			continue
		}
		allInstrs(fn, false, func(_ *ssa.Function, ins ssa.Instruction) {
			if fa, ok := ins.(*ssa.FieldAddr); ok {
				if n := recvOfPtr(fa.X.Type()); n != nil && n.Obj().Name() == "AuditLogMiddleware" && state[fieldName(fa.X.Type(), fa.Field)] {
					perFn[fn] = append(perFn[fn], ins)
				}
			}
		})
	}
	var fns []*ssa.Function
	for fn := range perFn {
		fns = append(fns, fn)
	}
	sort.Slice(fns, func(i, j int) bool { return fns[i].String() < fns[j].String() })
	var requiresLock func(fn *ssa.Function, depth int) (bool, string)
	requiresLock = func(fn *ssa.Function, depth int) (bool, string) {
		// all static callers must hold the lock at the call site (or themselves be covered)
		cs := w.callers[fn]
		if len(cs) == 0 || len(w.escapes[fn]) > 0 || depth > 3 {
			return false, "no static callers / function value escapes"
		}
		for _, c := range cs {
			if lockHeldAt(c, "mu", false) {
				continue
			}
			if ok, why := requiresLock(c.Parent(), depth+1); !ok {
				return false, "caller " + funcName(c.Parent()) + " does not hold m.mu (" + why + ")"
			}
		}
		return true, ""
	}
	for _, fn := range fns {
		for _, ins := range perFn[fn] {
			fa := ins.(*ssa.FieldAddr)
			cons := funcName(fn) + " accesses m." + fieldName(fa.X.Type(), fa.Field)
			if fn.Name() == "NewAuditLogMiddleware" {
				r.Exempt(rule, cons, posOf(ins), "constructor: the middleware value is not shared with any other goroutine before it is returned")
				continue
			}
			if lockHeldAt(ins, "mu", false) {
				r.OK(rule, cons, posOf(ins), "m.mu held (Lock dominates, only deferred Unlock)")
				continue
			}
			if ok, why := requiresLock(fn, 0); ok {
				r.OK(rule, cons, posOf(ins), "helper without own lock; every caller holds m.mu at the call site")
			} else {
				r.Bad(rule, cons, posOf(ins), "chain state accessed without m.mu: "+why)
			}
		}
	}
}

func recvOfPtr(t types.Type) *types.Named {
	if p, ok := t.Underlying().(*types.Pointer); ok {
		t = p.Elem()
	}
	n, _ := t.(*types.Named)
	return n
}

func checkC26Grounding(w *World, r *Run, rule string, logSSA *ssa.Function) {
	emit := w.SSAFunc(relAudit, "AuditLogMiddleware.emitGrounding")
	if emit == nil {
		r.Anchor(rule, "AuditLogMiddleware.emitGrounding")
		return
	}
	gbs := w.lookup("internal/auditlog", "GroundingBlockSize")
	var want int64 = -1
	if c, ok := gbs.(*types.Const); ok {
		want, _ = constant.Int64Val(c.Val())
	}
	calls := callsTo(logSSA, false, func(f *types.Func) bool { return f == emit.Object() })
	ok := len(calls) == 1
	if ok {
		ok = false
		for _, f := range factsAt(calls[0].Block()) {
			if b, isb := f.Val.(*ssa.BinOp); isb && f.Kind == IsTrue && b.Op.String() == ">=" {
				if n, isc := intConst(b.Y); isc && n == want && isLenOf(b.X, func(v ssa.Value) bool { n, _ := fieldLoadName(v); return n == "hashBuffer" }) {
					ok = true
				}
			}
		}
	}
	r.Check(ok, rule, "(*AuditLogMiddleware).log → emitGrounding under len(hashBuffer) >= GroundingBlockSize", logSSA.Pos(), fmt.Sprintf("threshold %d", want), "emitGrounding is not called exactly under len(m.hashBuffer) >= auditlog.GroundingBlockSize")
	// append only after WriteEntry == nil
	check := func(fn *ssa.Function, what string) {
		good := false
		n := 0
		allInstrs(fn, false, func(_ *ssa.Function, ins ssa.Instruction) {
			st, isStore := ins.(*ssa.Store)
			if !isStore {
				return
			}
			fa, isFA := st.Addr.(*ssa.FieldAddr)
			if !isFA || fieldName(fa.X.Type(), fa.Field) != "hashBuffer" {
				return
			}
			n++
			for _, f := range factsAt(st.Block()) {
				if f.Kind == IsNil {
					if c, _ := callOf(f.Val); c != nil && c.Call.IsInvoke() && c.Call.Method.Name() == "WriteEntry" {
						good = true
					}
				}
			}
		})
		r.Check(good && n == 1, rule, what, fn.Pos(), "store to hashBuffer dominated by WriteEntry(..) == nil", "hashBuffer is modified on a path where the entry was not written")
	}
	check(logSSA, "(*AuditLogMiddleware).log appends to hashBuffer only after sink.WriteEntry succeeded")
	check(emit, "(*AuditLogMiddleware).emitGrounding resets hashBuffer only after sink.WriteEntry succeeded")
}
