package main

import (
	"fmt"
	"go/ast"
	"go/types"
	"sort"
	"strings"

	"golang.org/x/tools/go/ssa"
)

// C21 — storage outbox: read-your-writes and convergence.
func init() { register("C21", checkC21) }

const relOutbox = "internal/storage/outbox"

// drain scopes, weakest to strongest
var drainScope = map[string]int{
	"waitForGlobalOutboxEntries":                           1,
	"waitForGlobalOutboxEntriesOfBucket":                   2,
	"waitForAllOutboxEntriesOfBucketAndKeyIncludingGlobal": 3,
	"waitForAllOutboxEntriesOfBucket":                      4,
}

// minimum drain scope each forwarded storage method needs for read-your-writes
func c21MinScope(method string) int {
	switch method {
	case "ListBuckets":
		return 1
	case "HeadBucket", "GetBucketVersioningConfiguration", "PutBucketVersioningConfiguration",
		"GetBucketWebsiteConfiguration", "PutBucketWebsiteConfiguration", "DeleteBucketWebsiteConfiguration",
		"GetBucketCORSConfiguration", "PutBucketCORSConfiguration", "DeleteBucketCORSConfiguration",
		"GetBucketLifecycleConfiguration", "PutBucketLifecycleConfiguration", "DeleteBucketLifecycleConfiguration",
		"GetBucketNotificationConfiguration", "PutBucketNotificationConfiguration":
		return 2
	case "ListMultipartUploads":
		return 2 // multipart uploads are never queued (create/upload/complete/abort are synchronous): only bucket existence is pending state
	case "ListObjects", "ListObjectVersions", "DeleteObjects":
		return 4
	default:
		return 3 // key-scoped
	}
}

var c21Exempt = map[string]string{
	"(*outboxStorage).PutObject → innerStorage.GetBucketVersioningConfiguration":                 "pre-routing probe: the result only decides whether the put must be synchronous; no data is returned to the caller and versioning changes themselves are synchronous",
	"(*outboxStorage).bucketHasVersioningStatus → innerStorage.GetBucketVersioningConfiguration": "pre-routing probe of DeleteObject/DeleteObjects: the result only decides whether the delete must be synchronous",
	"(*outboxStorage).Start → innerStorage.Start":                                                "lifecycle",
	"(*outboxStorage).Stop → innerStorage.Stop":                                                  "lifecycle",
}

func checkC21(w *World, r *Run) {
	iface := checkStorageTable(w, r)
	stmts := collectSQL(w)
	checkSQLSiblings(w, r, stmts, map[string]bool{"storageoutboxentry": true}, 25)
	T := w.Named(relOutbox, "outboxStorage")
	ruleOv := r.Rule("outbox-implements-every-method", "F2",
		"*outboxStorage implements every storage.Storage method itself (no promoted method can bypass queue ordering)", 39)
	ruleDrain := r.Rule("drain-before-forward", "F1",
		"every call os.innerStorage.<X> outside the replay worker is dominated by a drain call (waitFor…) whose error was checked nil, for the same bucket as the forwarded call and with at least the scope the method needs (bucket listing ⇒ all entries of the bucket; key operation ⇒ key + bucket-global entries; bucket configuration ⇒ bucket-global entries; ListBuckets ⇒ global entries)", 37)
	ruleWorker := r.Rule("worker-replays-every-queued-operation", "F7",
		"every operation constant handed to storeStorageOutboxEntry has a case in the worker's switch; the entry is finalized only after the replay returned nil and released otherwise; the claim takes the first entry", 6)
	ruleOpts := r.Rule("queued-put-carries-all-options", "F3",
		"every field of storage.PutObjectOptions either forces the synchronous path or is persisted with the entry and restored on replay; content type, bucket, key and version id of queued entries are replayed from the entry", 8)
	ruleSQL := r.Rule("outbox-sql-scoped-and-ordered", "F4",
		"every statement on storage_outbox_entries is scoped by outbox_id; findFirst…/findLast… pairs share their WHERE clause and order by id ASC/DESC LIMIT 1; claim is conditioned on version and a free/expired claim; delete/release/extend on claim_owner", 19)
	if iface == nil || T == nil {
		r.Anchor(ruleOv, relOutbox+".outboxStorage")
		return
	}
	mat := overrideMatrix(T, iface)
	for _, m := range methodsOf(iface) {
		o := mat[m]
		r.Check(o.Own, ruleOv, "(*outboxStorage)."+m, T.Obj().Pos(), "own", "promoted from "+o.Via+": bypasses the outbox ordering")
	}
	worker := w.SSAFunc(relOutbox, "outboxStorage.maybeProcessOutboxEntries")
	checkClaimExtensionArgs(w, r, ruleSQL)
	checkOutboxDrain(w, r, ruleDrain, nil)
	checkC21Worker(w, r, ruleWorker, worker)
	checkC21Options(w, r, ruleOpts, mat)
	checkOutboxSQL(w, r, ruleSQL, stmts, "storageoutboxentry", "storage_outbox_entries")
	r.NotCovered("FIFO behaviour at run time (claims, lease expiry, crashes between replay and finalize ⇒ at-least-once replay); idempotence of replayed operations")
}

// checkOutboxDrain: every forward to the inner storage happens after an error-checked drain
// of sufficient scope. `only` restricts the rule to some forwarded methods (C07 uses it for
// the operations that evaluate a condition against the inner storage's state).
func checkOutboxDrain(w *World, r *Run, rule string, only map[string]bool) {
	if w.Pkg(relOutbox) == nil {
		r.Anchor(rule, relOutbox)
		return
	}
	sp := w.SSA[w.Pkg(relOutbox).Types]
	worker := w.SSAFunc(relOutbox, "outboxStorage.maybeProcessOutboxEntries")

	for _, fn := range w.allFuncs {
		if fn.Pkg != sp || topFunc(fn) == worker {
			continue
		}
		allInstrs(fn, false, func(_ *ssa.Function, ins ssa.Instruction) {
			c, ok := ins.(ssa.CallInstruction)
			if !ok || !c.Common().IsInvoke() {
				return
			}
			if n, _ := fieldLoadName(c.Common().Value); n != "innerStorage" {
				return
			}
			m := c.Common().Method.Name()
			if _, isStorage := storageMethods[m]; !isStorage {
				return // WithTransaction etc.
			}
			if only != nil && !only[m] {
				return
			}
			cons := strings.ReplaceAll(funcName(fn), relOutbox+".", "") + " → innerStorage." + m
			if why, ok := c21Exempt[cons]; ok {
				r.Exempt(rule, cons, posOf(c), why)
				return
			}
			need := c21MinScope(m)
			var buckets []ssa.Value
			for _, a := range c.Common().Args {
				if isNamedType(a.Type(), "BucketName") {
					buckets = append(buckets, a)
				}
			}
			// dominating drains with nil error
			type drain struct {
				scope int
				args  []ssa.Value
			}
			var drains []drain
			for _, f := range factsAt(c.Block()) {
				if f.Kind != IsNil {
					continue
				}
				dc, _ := callOf(f.Val)
				if dc == nil {
					continue
				}
				g := calleeObj(dc)
				if g == nil || recvNamed(g) == nil || recvNamed(g).Obj().Name() != "outboxStorage" {
					continue
				}
				if sc, ok := drainScope[g.Name()]; ok {
					drains = append(drains, drain{sc, dc.Call.Args})
				}
			}
			if len(drains) == 0 {
				r.Bad(rule, cons, posOf(c), "forwarded without a dominating, error-checked drain of the outbox: the inner storage may not yet contain accepted writes")
				return
			}
			best := 0
			for _, b := range buckets {
				found := false
				for _, d := range drains {
					for _, a := range d.args {
						if sameValue(a, b) {
							found = true
						}
					}
				}
				if !found {
					r.Bad(rule, cons, posOf(c), "the drain does not cover a bucket passed to the forwarded call")
					return
				}
			}
			for _, d := range drains {
				if d.scope > best {
					best = d.scope
				}
			}
			r.Check(best >= need, rule, cons, posOf(c), fmt.Sprintf("drain scope %d ≥ required %d", best, need), fmt.Sprintf("drain scope %d is weaker than the scope %d this method needs to reflect accepted writes", best, need))
		})
	}
}

func checkC21Worker(w *World, r *Run, rule string, worker *ssa.Function) {
	if worker == nil {
		r.Anchor(rule, "outboxStorage.maybeProcessOutboxEntries")
		return
	}
	// operations enqueued
	store := w.Func(relOutbox, "outboxStorage.storeStorageOutboxEntry")
	enq := map[string]bool{}
	for _, cs := range w.callers[w.Prog.FuncValue(store)] {
		if ci, ok := cs.(ssa.CallInstruction); ok {
			if s, ok := constString(ci.Common().Args[3]); ok {
				enq[s] = true
			} else {
				enq["<non-constant>"] = true
			}
		}
	}
	// worker switch: comparisons entry.Operation == const
	handled := map[string]bool{}
	allInstrs(worker, false, func(_ *ssa.Function, ins ssa.Instruction) {
		if b, ok := ins.(*ssa.BinOp); ok && b.Op.String() == "==" {
			if n, _ := fieldLoadName(b.X); n == "Operation" {
				if s, ok := constString(b.Y); ok {
					handled[s] = true
				}
			}
		}
	})
	for _, op := range keys(enq) {
		r.Check(handled[op], rule, "queued operation "+op+" has a replay case", worker.Pos(), "case present", "operation is enqueued but the worker's switch has no case for it: the entry can never be applied and blocks the queue")
	}
	// finalize only after success
	fin := w.Func(relOutbox, "outboxStorage.finalizeStorageOutboxEntry")
	rel := w.Func(relOutbox, "outboxStorage.releaseStorageOutboxEntry")
	for _, c := range callsTo(worker, false, func(f *types.Func) bool { return f == fin }) {
		okFin := false
		for _, f := range factsAt(c.Block()) {
			if f.Kind == IsNil && isErrorType(f.Val.Type()) {
				replay := false
				backSlice(f.Val, false, func(v ssa.Value) {
					if cc, ok := v.(*ssa.Call); ok && cc.Call.IsInvoke() {
						if n, _ := fieldLoadName(cc.Call.Value); n == "innerStorage" {
							replay = true
						}
					}
				})
				if replay {
					okFin = true
				}
			}
		}
		r.Check(okFin, rule, "worker finalizes only after replay err == nil", posOf(c), "dominated by the replay error being nil", "the entry is deleted without the replay having succeeded: the write is lost")
	}
	// on failure the claim is released: every NonNil-replay-error block calls release before returning
	relOK := false
	for _, c := range callsTo(worker, false, func(f *types.Func) bool { return f == rel }) {
		for _, f := range factsAt(c.Block()) {
			if f.Kind == NonNil && isErrorType(f.Val.Type()) {
				relOK = true
			}
		}
	}
	r.Check(relOK, rule, "worker releases the claim when replay fails", worker.Pos(), "release on the error edge", "no release of the claim on the replay-error path")
	// claim-first
	claim := w.SSAFunc(relOutbox, "outboxStorage.claimNextOutboxEntry")
	first := false
	if claim != nil {
		allInstrs(claim, true, func(_ *ssa.Function, ins ssa.Instruction) {
			if c, ok := ins.(ssa.CallInstruction); ok && c.Common().IsInvoke() && c.Common().Method.Name() == "ClaimFirstStorageOutboxEntry" {
				first = true
			}
		})
	}
	r.Check(first, rule, "worker claims the first entry", worker.Pos(), "ClaimFirstStorageOutboxEntry", "the worker does not claim the first (oldest) entry: acceptance order is not preserved")
	// replayed arguments come from the entry
	allInstrs(worker, false, func(_ *ssa.Function, ins ssa.Instruction) {
		c, ok := ins.(ssa.CallInstruction)
		if !ok || !c.Common().IsInvoke() {
			return
		}
		if n, _ := fieldLoadName(c.Common().Value); n != "innerStorage" {
			return
		}
		m := c.Common().Method.Name()
		fromEntry := true
		for _, a := range c.Common().Args {
			if isNamedType(a.Type(), "BucketName") || isNamedType(a.Type(), "ObjectKey") {
				okArg := false
				backSlice(a, true, func(v ssa.Value) {
					if fa, ok := v.(*ssa.FieldAddr); ok {
						if n := fieldName(fa.X.Type(), fa.Field); n == "Bucket" || n == "Key" {
							okArg = true
						}
					}
				})
				if !okArg {
					fromEntry = false
				}
			}
		}
		r.Check(fromEntry, rule, "replay of "+m+" uses the entry's bucket/key", posOf(c), "entry.Bucket / entry.Key", "replay passes a bucket or key that does not come from the claimed entry")
	})
}

func checkC21Options(w *World, r *Run, rule string, mat map[string]override) {
	put := mat["PutObject"]
	fd := w.Decl(put.Func)
	optsT := w.Named("internal/storage", "PutObjectOptions")
	if fd == nil || optsT == nil {
		r.Anchor(rule, "outboxStorage.PutObject / storage.PutObjectOptions")
		return
	}
	info := w.InfoFor(fd)
	// fields read in the initializer of putMustBeSynchronous
	syncFields := map[*types.Var]bool{}
	ast.Inspect(fd.Body, func(n ast.Node) bool {
		as, ok := n.(*ast.AssignStmt)
		if !ok || len(as.Lhs) != 1 {
			return true
		}
		if id, ok := as.Lhs[0].(*ast.Ident); ok && id.Name == "putMustBeSynchronous" {
			for _, f := range fieldsIn(info, as.Rhs[0]) {
				syncFields[f] = true
			}
		}
		return true
	})
	pairs := flowPairs(info, fd.Body, "", 0)
	persisted := map[string]bool{}
	for _, p := range pairs {
		if p.src.Pkg() != nil && pkgRel(p.src.Pkg()) == "internal/storage" && p.dst.Name() == p.src.Name() {
			if strings.Contains(pkgRel(p.dst.Pkg()), "storageoutboxentry") {
				persisted[p.src.Name()] = true
			}
		}
	}
	// replay side
	rd := w.Decl(w.Func(relOutbox, "outboxStorage.readStorageOutboxPutOptions"))
	restored := map[string]bool{}
	if rd != nil {
		for _, p := range flowPairs(w.InfoFor(rd), rd.Body, "", 0) {
			if p.dst.Pkg() != nil && pkgRel(p.dst.Pkg()) == "internal/storage" && p.dst.Name() == p.src.Name() {
				restored[p.dst.Name()] = true
			}
		}
	}
	var names []string
	for _, f := range structFieldsOf(optsT) {
		names = append(names, f.Name())
		cons := "PutObjectOptions." + f.Name()
		switch {
		case syncFields[f]:
			r.OK(rule, cons, f.Pos(), "forces the synchronous path")
		case persisted[f.Name()] && restored[f.Name()]:
			r.OK(rule, cons, f.Pos(), "persisted with the entry and restored on replay")
		case persisted[f.Name()]:
			r.Bad(rule, cons, fd.Pos(), "persisted with the entry but not restored by readStorageOutboxPutOptions: lost on replay")
		default:
			r.Bad(rule, cons, fd.Pos(), "neither forces the synchronous path nor is persisted with the queued entry: a queued put silently drops it")
		}
	}
	sort.Strings(names)
	// delete options
	del := mat["DeleteObject"]
	dd := w.Decl(del.Func)
	delT := w.Named("internal/storage", "DeleteObjectOptions")
	if dd != nil && delT != nil {
		dinfo := w.InfoFor(dd)
		read := map[*types.Var]bool{}
		for _, f := range fieldsIn(dinfo, dd.Body) {
			read[f] = true
		}
		for _, f := range structFieldsOf(delT) {
			r.Check(read[f], rule, "DeleteObjectOptions."+f.Name(), f.Pos(), "consulted by the outbox delete", "the outbox delete never reads this option: it is ignored for queued deletes")
		}
	}
	// replayed content type / version id come from the entry
	worker := w.SSAFunc(relOutbox, "outboxStorage.maybeProcessOutboxEntries")
	if worker != nil {
		for _, want := range []struct{ method, field string }{{"PutObject", "ContentType"}, {"DeleteObject", "VersionID"}} {
			found := false
			allInstrs(worker, false, func(_ *ssa.Function, ins ssa.Instruction) {
				c, ok := ins.(ssa.CallInstruction)
				if !ok || !c.Common().IsInvoke() || c.Common().Method.Name() != want.method {
					return
				}
				for _, a := range c.Common().Args {
					backSlice(a, false, func(v ssa.Value) {
						if fa, ok := v.(*ssa.FieldAddr); ok && fieldName(fa.X.Type(), fa.Field) == want.field {
							if nt := recvOfPtr(fa.X.Type()); nt != nil && nt.Obj().Name() == "Entity" {
								found = true
							}
						}
					})
				}
			})
			r.Check(found, rule, "replay of "+want.method+" passes entry."+want.field, worker.Pos(), "from the entry", "the replay does not pass the entry's "+want.field)
		}
	}
}

// checkOutboxSQL lints the statements of an outbox entry repository (shared by C18 and C21).
func checkOutboxSQL(w *World, r *Run, rule string, stmts []*sqlStmt, entity, table string) {
	byName := map[string]*sqlStmt{}
	for _, s := range stmts {
		if s.Entity != entity || s.Dialect != "sqlite" {
			continue
		}
		byName[s.Name] = s
	}
	var names []string
	for n := range byName {
		names = append(names, n)
	}
	sort.Strings(names)
	for _, n := range names {
		s := byName[n]
		if stmtTable(s) != table {
			continue
		}
		cons := entity + "." + n
		where := sqlClause(s.Toks, "WHERE")
		switch stmtVerb(s) {
		case "INSERT":
			r.Check(containsTok(s.Toks, "outbox_id"), rule, cons, s.Pos, "inserts outbox_id", "insert does not set outbox_id")
			continue
		}
		scoped := false
		for _, c := range splitTop(where, "AND") {
			j := joinToks(c)
			if strings.HasPrefix(j, "outbox_id = $") || strings.HasPrefix(j, "e.outbox_id = $") {
				scoped = true
			}
		}
		if !scoped {
			r.Bad(rule, cons, s.Pos, "statement is not scoped by outbox_id: entries of another outbox sharing the database are visible/affected")
			continue
		}
		detail := "scoped by outbox_id"
		ok := true
		lower := strings.ToLower(n)
		switch {
		case strings.HasPrefix(n, "findFirst") || strings.HasPrefix(n, "findLast"):
			order := joinToks(sqlClause(s.Toks, "ORDER", "BY"))
			limit := joinToks(sqlClause(s.Toks, "LIMIT"))
			want := "id ASC"
			if strings.HasPrefix(n, "findLast") {
				want = "id DESC"
			}
			if order != want || limit != "1" {
				if !strings.Contains(lower, "groupedby") {
					ok = false
					detail = "expected ORDER BY " + want + " LIMIT 1, found ORDER BY " + order + " LIMIT " + limit
				}
			}
			// the head (tail) of the queue is the oldest (newest) entry whatever its lease: a
			// lookup that skips claimed entries lets a later operation overtake an earlier one
			if j := joinToks(where); strings.Contains(j, "claim_owner") || strings.Contains(j, "claim_until") {
				ok = false
				detail = "the queue head lookup filters on the claim columns (" + j + "): an entry held under another worker's lease is skipped and a later operation on the same object is replayed before it"
			}
			// pair agreement
			var sibName string
			if strings.HasPrefix(n, "findFirst") {
				sibName = "findLast" + strings.TrimPrefix(n, "findFirst")
			} else {
				sibName = "findFirst" + strings.TrimPrefix(n, "findLast")
			}
			if sib := byName[sibName]; sib != nil {
				if joinToks(sqlClause(sib.Toks, "WHERE")) != joinToks(where) {
					ok = false
					detail = "WHERE differs from " + sibName + ": the snapshot of the newest entry and the poll for the oldest entry select different entry sets"
				}
			}
		case strings.HasPrefix(lower, "claim"):
			j := joinToks(where)
			if !strings.Contains(j, "version = $") || !strings.Contains(j, "claim_owner IS NULL OR claim_until <= $") {
				ok = false
				detail = "claim is not conditioned on version and a free/expired claim: " + j
			}
		case strings.HasPrefix(lower, "delete") && strings.Contains(lower, "claimowner"), strings.HasPrefix(lower, "release"), strings.HasPrefix(lower, "extend"):
			if !strings.Contains(joinToks(where), "claim_owner = $") {
				ok = false
				detail = "not conditioned on claim_owner: another worker's claim can be finalized/released/extended"
			}
		}
		r.Check(ok, rule, cons, s.Pos, detail, detail)
	}
}
