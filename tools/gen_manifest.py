#!/usr/bin/env python3
"""Regenerates /verif/MANIFEST.json from /verif/tools/claims.json (one entry per claimed
property) and properties.jsonl. Properties without a claim are listed under not_applicable
with the reason given in claims.json["not_applicable"] (or a default)."""
import json, os, sys
here = os.path.dirname(os.path.dirname(os.path.abspath(__file__)))
props = [json.loads(l) for l in open(os.path.join(here, "properties.jsonl"))]
claims = json.load(open(os.path.join(here, "tools", "claims.json")))
checks, na = [], []
for p in props:
    pid = p["id"]
    c = claims["claimed"].get(pid)
    if c is None:
        na.append({"property_id": pid, "reason": claims["not_applicable"].get(pid, claims["default_na"])})
        continue
    checks.append({
        "property_id": pid,
        "quick_cmd": "./check %s quick" % pid,
        "thorough_cmd": "./check %s thorough" % pid,
        "evidence_file": "/verif/evidence/%s.json" % pid,
        "replay_cmd_template": "./check %s quick --explain {path}" % pid,
        "engine": "pvcheck",
        "level_claimed": {"category": "other", "text": c["text"] + " Rules added after seeded changes (DESIGN.md §8.6) are listed with their statements and site counts in the evidence file (coverage.rules); all of them are structural necessary conditions, none decides the behaviour.", "design_ref": "DESIGN.md §4 " + pid + ", §8"},
        "level_note": c.get("note", claims["default_note"]),
        "technique": c["technique"],
    })
m = {
    "version": 1,
    "setup_cmd": "./check build",
    "hooks": {
        "guard": "verif",
        "enable": "none needed: the analyser reads /repo's sources; no hook or instrumentation exists in /repo (build tag 'verif' is reserved and unused)",
        "baseline_off_cmd": "cd /repo && PATH=/opt/veriftools/go1.27.0/bin:$PATH GOFLAGS=-mod=mod GOTOOLCHAIN=local go test -vet=off -count=1 -timeout 25m ./...",
        "source_commits": [],
        "add_only": True,
    },
    "engines": [{
        "name": "pvcheck",
        "path": "/verif/pvcheck",
        "serves_properties": [c["property_id"] for c in checks],
        "kind_free_text": "repository-specific static analyser (go/packages + go/types + go/ssa, x/tools v0.50.0, go1.27.0): dominance / must-pass-through, interface x implementation override matrix, struct-field coverage, SQL literal lint with sqlite/pgx sibling agreement, lockset, who-may-call, constant/table agreement, error discipline, untrusted-field taint",
    }],
    "checks": checks,
    "notes": claims["notes"],
    "not_applicable": na,
}
json.dump(m, open(os.path.join(here, "MANIFEST.json"), "w"), indent=1)
print("claimed", len(checks), "not_applicable", len(na))
