package main

import (
	"fmt"
	"go/token"
	"go/types"
	"strings"

	"golang.org/x/tools/go/ssa"
)

// C25 — lifecycle rules never act early or on the wrong data.
func init() { register("C25", checkC25) }

const relLifecycle = "internal/storage/middlewares/lifecyclereconciler"

type lcAction struct {
	fn        string   // reconciler method containing the mutating call
	call      string   // storage method called on m.Next
	dueFn     string   // storage.Lifecycle…DueTime function that must gate it ("" = none: immediate)
	retention bool     // NewerNoncurrentVersions test required
	optFields []string // fields the options literal must set from the listed item
	witness   bool     // decision carried by chosenDue/chosenTarget
}

var lcActions = []lcAction{
	{"expireObjectIfDue", "DeleteObject", "LifecycleExpirationDueTime", false, []string{"IfMatchETag"}, false},
	{"transitionObjectIfDue", "TransitionObjectStorageClass", "LifecycleTransitionDueTime", false, []string{"IfMatchETag"}, true},
	{"expireNoncurrentObjectVersionIfDue", "DeleteObject", "LifecycleNoncurrentExpirationDueTime", true, []string{"VersionID"}, false},
	{"transitionNoncurrentObjectVersionIfDue", "TransitionObjectStorageClass", "LifecycleNoncurrentTransitionDueTime", true, []string{"VersionID", "IfMatchETag"}, true},
	{"abortUploadIfDue", "AbortMultipartUpload", "LifecycleAbortDueTime", false, nil, false},
	{"expireObjectDeleteMarkerIfDue", "DeleteObject", "", false, []string{"VersionID"}, false},
}

// factDue: now.Before(*dueTime) is false with dueTime from the named due-time function.
func factDue(f Fact, dueFn string) bool {
	if f.Kind != IsFalse {
		return false
	}
	c, _ := callOf(f.Val)
	if c == nil || calleeObj(c) == nil || calleeObj(c).Name() != "Before" || len(c.Call.Args) != 2 {
		return false
	}
	found := false
	backSlice(c.Call.Args[1], false, func(x ssa.Value) {
		if cc, ok := x.(*ssa.Call); ok {
			if g := calleeObj(cc); g != nil && g.Name() == dueFn {
				found = true
			}
		}
	})
	return found
}

// valueReachesMatches: the value derives from a call of LifecycleRuleMatchesObject, directly
// or through a function literal of the same function that returns it.
func valueReachesMatches(v ssa.Value) bool {
	found := false
	backSlice(v, false, func(x ssa.Value) {
		c, ok := x.(*ssa.Call)
		if !ok {
			return
		}
		if g := calleeObj(c); g != nil && g.Name() == "LifecycleRuleMatchesObject" {
			found = true
			return
		}
		var lit *ssa.Function
		switch cv := c.Call.Value.(type) {
		case *ssa.MakeClosure:
			lit, _ = cv.Fn.(*ssa.Function)
		case *ssa.Function:
			lit = cv
		}
		if lit != nil {
			for _, ret := range returnsOf(lit) {
				if len(ret.Results) == 1 {
					if cc, _ := callOf(retResult(ret, 0)); cc != nil && calleeObj(cc) != nil && calleeObj(cc).Name() == "LifecycleRuleMatchesObject" {
						found = true
					}
				}
			}
		}
	})
	return found
}

func factMatches(f Fact) bool { return f.Kind == IsTrue && valueReachesMatches(f.Val) }

func factRetention(f Fact) bool {
	if f.Kind == IsNil {
		if n, _ := fieldLoadName(f.Val); n == "NewerNoncurrentVersions" {
			return true
		}
	}
	if f.Kind == IsFalse {
		if b, ok := f.Val.(*ssa.BinOp); ok && b.Op == token.LEQ {
			if p, isParam := b.X.(*ssa.Parameter); isParam && p.Name() == "newerNoncurrentVersions" {
				return true
			}
		}
	}
	return false
}

func checkC25(w *World, r *Run) {
	ruleGuard := r.Rule("lifecycle-action-guarded", "F1",
		"every mutating call of the reconciler is reachable only on paths that established: the action's own due-time test (now.Before(*due) false, due from storage.Lifecycle<Kind>DueTime), LifecycleRuleMatchesObject(rule, item…) true and — for noncurrent versions — the NewerNoncurrentVersions retention test; for transitions the decision is carried by the witness chosenDue and every assignment of it is so guarded", 6)
	ruleOpts := r.Rule("lifecycle-action-pins-listed-item", "F3",
		"the options handed to the mutating call pin the listed item: IfMatchETag from the listed object's ETag for current objects, VersionID (and ETag for transitions) from the listed version", 5)
	ruleEnabled := r.Rule("only-enabled-rules-are-collected", "F1",
		"reconcileBucket appends a rule to any per-kind rule list only on the edge where rule.Status == Enabled", 6)
	ruleOrder := r.Rule("expiration-precedes-transition", "F1",
		"reconcileBucket runs expireObjects before transitionObjects and expireNoncurrentObjectVersions before transitionNoncurrentObjectVersions", 2)
	ruleCand := r.Rule("candidate-filters", "F1",
		"delete-marker expiry is attempted only for keys whose only remaining version is the current delete marker; noncurrent actions are attempted only for versions that are neither latest nor delete markers", 3)
	ruleWho := r.Rule("reconciler-mutations-enumerated", "F6",
		"the reconciler calls no mutating storage method other than the six enumerated action sites", 6)

	sp := w.SSA[w.Pkg(relLifecycle).Types]
	if sp == nil {
		r.Anchor(ruleGuard, relLifecycle)
		return
	}
	known := map[ssa.Instruction]bool{}
	for _, a := range lcActions {
		fn := w.SSAFunc(relLifecycle, "lifecycleReconcilerStorageMiddleware."+a.fn)
		cons := "(*reconciler)." + a.fn + " → Next." + a.call
		if fn == nil {
			r.Anchor(ruleGuard, cons)
			continue
		}
		var site ssa.CallInstruction
		allInstrs(fn, false, func(_ *ssa.Function, ins ssa.Instruction) {
			if c, ok := ins.(ssa.CallInstruction); ok && c.Common().IsInvoke() && c.Common().Method.Name() == a.call {
				if n, _ := fieldLoadName(c.Common().Value); n == "Next" {
					site = c
				}
			}
		})
		if site == nil {
			r.Bad(ruleGuard, cons, fn.Pos(), "mutating call not found (anchor lost)")
			continue
		}
		known[site] = true
		var blocks []*ssa.BasicBlock // blocks at which the guards must hold
		why := ""
		if a.witness {
			// call dominated by witness != nil; collect assignment blocks of the witness
			var wit *ssa.Phi
			for _, f := range factsAt(site.Block()) {
				if f.Kind == NonNil {
					if p, ok := f.Val.(*ssa.Phi); ok {
						wit = p
					}
				}
			}
			if wit == nil {
				r.Bad(ruleGuard, cons, posOf(site), "the transition is not dominated by a non-nil test of the witness (chosenDue)")
				continue
			}
			seen := map[*ssa.Phi]bool{}
			var collect func(p *ssa.Phi)
			collect = func(p *ssa.Phi) {
				if seen[p] {
					return
				}
				seen[p] = true
				for i, e := range p.Edges {
					switch x := e.(type) {
					case *ssa.Phi:
						collect(x)
					case *ssa.Const:
					default:
						blocks = append(blocks, p.Block().Preds[i])
					}
				}
			}
			collect(wit)
			if len(blocks) == 0 {
				why = "no assignment of the witness found"
			}
		} else {
			blocks = []*ssa.BasicBlock{site.Block()}
		}
		for _, b := range blocks {
			if a.dueFn != "" && !everyPathEstablishes(b, func(f Fact) bool { return factDue(f, a.dueFn) }) {
				why += "not gated by now ≥ " + a.dueFn + "(..); "
			}
			if !everyPathEstablishes(b, factMatches) {
				why += "not gated by LifecycleRuleMatchesObject; "
			}
			if a.retention && !everyPathEstablishes(b, factRetention) {
				why += "NewerNoncurrentVersions retention not tested; "
			}
		}
		r.Check(why == "", ruleGuard, cons, posOf(site), fmt.Sprintf("guards hold at %d decision point(s)", len(blocks)), why)

		// options
		for _, of := range a.optFields {
			okOpt := false
			args := site.Common().Args
			optArg := args[len(args)-1]
			want := "ETag"
			if of == "VersionID" {
				want = "VersionID"
			}
			backSlice(optArg, false, func(x ssa.Value) {
				al, ok := x.(*ssa.Alloc)
				if !ok {
					return
				}
				for _, ref := range *al.Referrers() {
					fa, ok := ref.(*ssa.FieldAddr)
					if !ok || fieldName(fa.X.Type(), fa.Field) != of {
						continue
					}
					for _, st := range storesTo(fa) {
						backSlice(st, true, func(y ssa.Value) {
							if f2, ok := y.(*ssa.FieldAddr); ok && fieldName(f2.X.Type(), f2.Field) == want {
								if paramIndex(fn, unspill(stripConv(f2.X))) >= 0 {
									okOpt = true
								}
							}
						})
					}
				}
			})
			r.Check(okOpt, ruleOpts, cons+" options."+of, posOf(site), "from the listed item's "+want, "the call does not pin "+of+" to the listed item: an object replaced after listing would be deleted/transitioned")
		}
	}

	// any other mutating call through Next
	for _, fn := range w.allFuncs {
		if fn.Pkg != sp {
			continue
		}
		allInstrs(fn, false, func(_ *ssa.Function, ins ssa.Instruction) {
			c, ok := ins.(ssa.CallInstruction)
			if !ok || !c.Common().IsInvoke() {
				return
			}
			if n, _ := fieldLoadName(c.Common().Value); n != "Next" {
				return
			}
			m := c.Common().Method.Name()
			if !storageMethods[m].mutating() {
				return
			}
			cons := strings.ReplaceAll(funcName(fn), relLifecycle+".", "") + " → Next." + m
			if known[ins] {
				r.OK(ruleWho, cons, posOf(c), "enumerated action site")
			} else {
				r.Bad(ruleWho, cons, posOf(c), "a mutating storage call outside the enumerated, guarded action sites")
			}
		})
	}

	// enabled filter + order + candidates
	rb := w.SSAFunc(relLifecycle, "lifecycleReconcilerStorageMiddleware.reconcileBucket")
	if rb == nil {
		r.Anchor(ruleEnabled, "reconcileBucket")
		return
	}
	n := 0
	allInstrs(rb, false, func(_ *ssa.Function, ins ssa.Instruction) {
		c, ok := ins.(*ssa.Call)
		if !ok {
			return
		}
		if b, isB := c.Call.Value.(*ssa.Builtin); !isB || b.Name() != "append" {
			return
		}
		n++
		good := false
		for _, f := range factsAt(c.Block()) {
			if f.Kind == EqConst && f.Const != nil {
				if s, isStr := constString(f.Const); isStr && s == "Enabled" {
					if nm, _ := fieldLoadName(f.Val); nm == "Status" {
						good = true
					}
				}
			}
		}
		r.Check(good, ruleEnabled, fmt.Sprintf("reconcileBucket rule-list append #%d", n), posOf(c), "under rule.Status == Enabled", "a rule is collected without its Status having been compared with Enabled: disabled rules act")
	})
	callTo := func(name string) ssa.Instruction {
		var out ssa.Instruction
		allInstrs(rb, false, func(_ *ssa.Function, ins ssa.Instruction) {
			if c, ok := ins.(ssa.CallInstruction); ok {
				if f := calleeObj(c); f != nil && f.Name() == name {
					out = ins
				}
			}
		})
		return out
	}
	for _, p := range [][2]string{{"expireObjects", "transitionObjects"}, {"expireNoncurrentObjectVersions", "transitionNoncurrentObjectVersions"}} {
		a, b := callTo(p[0]), callTo(p[1])
		okOrd := a != nil && b != nil && canReach(a, b) && !canReach(b, a)
		r.Check(okOrd, ruleOrder, "reconcileBucket: "+p[0]+" before "+p[1], rb.Pos(), "expiration first", "transition can run before expiration: an object due for both is transitioned instead of deleted")
	}
	// candidates
	checkCaller := func(callee, cons string, pred func([]Fact) bool, bad string) {
		f := w.SSAFunc(relLifecycle, "lifecycleReconcilerStorageMiddleware."+callee)
		if f == nil {
			r.Anchor(ruleCand, callee)
			return
		}
		cs := w.callers[f]
		if len(cs) == 0 {
			r.Bad(ruleCand, cons, f.Pos(), "no caller found")
			return
		}
		all := true
		for _, c := range cs {
			if !pred(factsAt(c.Block())) {
				all = false
			}
		}
		r.Check(all, ruleCand, cons, f.Pos(), "filter dominates every call", bad)
	}
	checkCaller("expireObjectDeleteMarkerIfDue", "delete-marker expiry only when no object version remains", func(fs []Fact) bool {
		a, b := false, false
		for _, f := range fs {
			if nm, _ := fieldLoadName(f.Val); nm == "hasObjectVersion" && f.Kind == IsFalse {
				a = true
			}
			if nm, _ := fieldLoadName(f.Val); nm == "currentDeleteMarker" && f.Kind == NonNil {
				b = true
			}
		}
		return a && b
	}, "the delete marker is expired although object versions of the key may remain")
	for _, callee := range []string{"expireNoncurrentObjectVersionIfDue", "transitionNoncurrentObjectVersionIfDue"} {
		checkCaller(callee, callee+" only for non-latest, non-delete-marker versions", func(fs []Fact) bool {
			a, b := false, false
			for _, f := range fs {
				if nm, _ := fieldLoadName(f.Val); nm == "IsLatest" && f.Kind == IsFalse {
					a = true
				}
				if nm, _ := fieldLoadName(f.Val); nm == "IsDeleteMarker" && f.Kind == IsFalse {
					b = true
				}
			}
			return a && b
		}, "a current version or a delete marker can be treated as a noncurrent object version")
	}
	checkC25VersionPaging(w, r)
	checkC07DeleteCondition(w, r)
	checkC25ListingAge(w, r)
	checkC25TagPresence(w, r)
	r.NotCovered("due-time arithmetic (rounding to the next midnight UTC), retention counting over version orders, tag/size filter evaluation inside LifecycleRuleMatchesObject")
	_ = types.Universe
}
