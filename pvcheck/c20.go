package main

import (
	"go/types"

	"golang.org/x/tools/go/ssa"
)

// C20 — object-cache middleware is transparent.
//
// Structural necessary conditions decided here:
//  1. every storage.Storage method classed mutates_object is implemented by
//     *objectCacheStorageMiddleware itself (not promoted from the embedded delegator);
//  2. in each of them, every path from the inner call m.Next.<M>(..) to a return that may
//     report success passes an invalidation of both cache keys of the destination
//     (invalidateObjectCaches(ctx, <dst bucket>, <dst key>)), or the refresh idiom of
//     PutObject (body streamed into cache.Set(objectCacheKey(bucket,key)) and the head key
//     rewritten or removed on every success path), or the per-entry idiom of DeleteObjects
//     (invalidate inside the loop over the inner result's entries);
//  3. versioned and ranged reads are forwarded before any cache access;
//  4. invalidateObjectCaches removes both keys; both key functions are built from bucket
//     and key.
func init() { register("C20", checkC20) }

const relObjCache = "internal/storage/middlewares/objectcache"

type c20Ctx struct {
	iface      *types.Interface
	T          *types.Named
	mat        map[string]override
	invalidate *types.Func
}

// c20Context resolves the anchors shared by the object-cache rules.
func c20Context(w *World, r *Run) *c20Ctx {
	iface := checkStorageTable(w, r)
	T := w.Named(relObjCache, "objectCacheStorageMiddleware")
	if iface == nil || T == nil {
		r.Rule("c20-anchor", "F2", "anchors resolve", 0)
		r.Anchor("c20-anchor", relObjCache+".objectCacheStorageMiddleware")
		return nil
	}
	invalidate := w.Func(relObjCache, "objectCacheStorageMiddleware.invalidateObjectCaches")
	if invalidate == nil {
		r.Rule("c20-anchor", "F2", "anchors resolve", 0)
		r.Anchor("c20-anchor", "objectCacheStorageMiddleware.invalidateObjectCaches")
		return nil
	}
	return &c20Ctx{iface: iface, T: T, mat: overrideMatrix(T, iface), invalidate: invalidate}
}

func checkC20(w *World, r *Run) {
	c := c20Context(w, r)
	if c == nil {
		return
	}
	checkCacheMutators(w, r, c)
	checkCacheBypass(w, r, c)
	checkCacheEarlyFill(w, r, c)
	checkCacheFileNamesInjective(w, r)
	checkCacheFillCompletion(w, r)
	r.NotCovered("races between a concurrent cache fill and an invalidation (schedules)")
	r.NotCovered("that the cached bytes equal the stored bytes (runtime values)")
}

// checkCacheMutators: the object cache sees every mutation and drops both entries of the key (also used by C01).
func checkCacheMutators(w *World, r *Run, c *c20Ctx) {
	ruleOv := r.Rule("cache-overrides-mutators", "F2",
		"every mutates_object method of storage.Storage is implemented by *objectCacheStorageMiddleware itself; an inherited method forwards to the inner storage without touching the cache, so cached heads/bodies go stale", 9)
	ruleInv := r.Rule("cache-invalidate-after-inner", "F1",
		"in every overriding mutator, each path from the inner call to a possibly-successful return passes invalidateObjectCaches(ctx,<dst bucket>,<dst key>) (or the PutObject refresh idiom / the DeleteObjects per-entry idiom)", 8)
	T, mat, invalidate := c.T, c.mat, c.invalidate
	for _, m := range methodsOfClass(mObject) {
		o, ok := mat[m]
		cons := "(*objectCacheStorageMiddleware)." + m
		if !ok {
			r.Bad(ruleOv, cons, T.Obj().Pos(), "method missing from method set")
			continue
		}
		if !o.Own {
			r.Bad(ruleOv, cons, T.Obj().Pos(), "inherited from embedded "+o.Via+": the mutation bypasses the cache, a cached head/body of the key stays visible")
			continue
		}
		r.OK(ruleOv, cons, o.Func.Pos(), "own implementation")
		fn := w.Prog.FuncValue(o.Func)
		checkC20Invalidate(w, r, ruleInv, cons, m, fn, invalidate)
	}

	// 4. invalidate removes both keys
	ruleBoth := r.Rule("cache-invalidate-both-keys", "F3",
		"invalidateObjectCaches calls cache.Remove with objectCacheKey(bucket,key) and with headCacheKey(bucket,key)", 2)
	ifn := w.Prog.FuncValue(invalidate)
	for _, keyFn := range []string{"objectCacheKey", "headCacheKey"} {
		found := false
		for _, c := range callsTo(ifn, false, func(f *types.Func) bool { return f.Name() == "Remove" }) {
			if len(c.Common().Args) == 0 {
				continue
			}
			backSlice(c.Common().Args[0], false, func(v ssa.Value) {
				if call, ok := v.(*ssa.Call); ok {
					if f := calleeObj(call); f != nil && isFunc(f, relObjCache, keyFn) {
						if len(call.Call.Args) == 2 && paramIndex(ifn, call.Call.Args[0]) == 2 && paramIndex(ifn, call.Call.Args[1]) == 3 {
							found = true
						}
					}
				}
			})
		}
		r.Check(found, ruleBoth, "invalidateObjectCaches removes "+keyFn+"(bucket,key)", invalidate.Pos(), "cache.Remove("+keyFn+"(bucketName,key))", "no cache.Remove of "+keyFn+"(bucketName,key): that entry survives a mutation")
	}
}

func checkCacheBypass(w *World, r *Run, c *c20Ctx) {
	T, mat := c.T, c.mat
	// 3. bypass of versioned / ranged reads
	ruleBy := r.Rule("cache-bypass-versioned-ranged", "F1",
		"HeadObject/GetObject consult the cache only when no VersionID (and, for GetObject, no range) was requested: every cache read is dominated by the edge on which opts.VersionID is nil / len(ranges)==0", 2)
	for _, m := range []string{"HeadObject", "GetObject"} {
		o := mat[m]
		cons := "(*objectCacheStorageMiddleware)." + m
		if !o.Own {
			r.Bad(ruleBy, cons, T.Obj().Pos(), "read method not overridden (cache unused) — rule anchor lost")
			continue
		}
		fn := w.Prog.FuncValue(o.Func)
		checkC20Bypass(w, r, ruleBy, cons, m, fn)
	}

}

// checkCacheEarlyFill: a failed write leaves nothing in the cache (also used by C03).
func checkCacheEarlyFill(w *World, r *Run, c *c20Ctx) {
	mat, invalidate := c.mat, c.invalidate
	// 5. a mutator that starts filling the cache before the inner call returns must
	// invalidate when the inner call fails: the rejected bytes may already be cached
	ruleEarly := r.Rule("early-cache-fill-is-undone-on-failure", "F1",
		"a mutator that starts cache.Set (directly or in a goroutine) before its inner call passes invalidateObjectCaches on every path from the inner call's error edge to a return", 1)
	for m, o := range mat {
		if !o.Own || storageMethods[m] != mObject {
			continue
		}
		fn := w.Prog.FuncValue(o.Func)
		if fn == nil {
			continue
		}
		var inner *ssa.Call
		allInstrs(fn, false, func(_ *ssa.Function, ins ssa.Instruction) {
			if c, ok := ins.(*ssa.Call); ok && c.Call.IsInvoke() && c.Call.Method.Name() == m {
				if n, _ := fieldLoadName(c.Call.Value); n == "Next" {
					inner = c
				}
			}
		})
		if inner == nil {
			continue
		}
		early := false
		allInstrs(fn, false, func(_ *ssa.Function, ins ssa.Instruction) {
			var body *ssa.Function
			switch x := ins.(type) {
			case *ssa.Go:
				if mc, ok := x.Call.Value.(*ssa.MakeClosure); ok {
					body, _ = mc.Fn.(*ssa.Function)
				}
			case *ssa.Call:
				if x.Call.IsInvoke() && x.Call.Method.Name() == "Set" && instrDominates(x, inner) {
					early = true
				}
			}
			if body != nil && instrDominates(ins, inner) {
				allInstrs(body, true, func(_ *ssa.Function, i2 ssa.Instruction) {
					if c, ok := i2.(*ssa.Call); ok && c.Call.IsInvoke() && c.Call.Method.Name() == "Set" {
						early = true
					}
				})
			}
		})
		if !early {
			continue
		}
		cons := "(*objectCacheStorageMiddleware)." + m + " undoes its early cache fill when the inner call fails"
		isInv := func(i ssa.Instruction) bool {
			c, ok := i.(ssa.CallInstruction)
			return ok && calleeObj(c) == invalidate
		}
		leak := true
		for _, b := range fn.Blocks {
			for k := range b.Succs {
				if len(b.Succs) != 2 {
					continue
				}
				for _, f := range edgeFacts(b, k) {
					if f.Kind == NonNil && sliceContains(f.Val, false, func(x ssa.Value) bool { return x == ssa.Value(inner) }) {
						first := b.Succs[k].Instrs[0]
						leak = !isInv(first) && len(sinksReachable(first, isInv, nil, func(i ssa.Instruction) bool { _, isRet := i.(*ssa.Return); return isRet })) > 0
					}
				}
			}
		}
		r.Check(!leak, ruleEarly, cons, posOf(inner), "error edge → invalidateObjectCaches → return", "the cache is being filled while the inner call runs, and when that call fails after consuming the whole body the rejected bytes stay cached under the key (served with the old head entry): a failed write leaves a visible trace")
	}
}

// dstArgIdx gives, for each mutator, the positions of destination bucket and key among the
// call arguments (ctx is argument 0).
func dstArgIdx(method string) (int, int) {
	if method == "CopyObject" {
		return 3, 4
	}
	return 1, 2
}

func checkC20Invalidate(w *World, r *Run, rule, cons, method string, fn *ssa.Function, invalidate *types.Func) {
	var inner []ssa.CallInstruction
	for _, c := range callsTo(fn, false, func(f *types.Func) bool { return f.Name() == method }) {
		if c.Common().IsInvoke() {
			if name, _ := fieldLoadName(c.Common().Value); name == "Next" {
				inner = append(inner, c)
			}
		}
	}
	if len(inner) == 0 {
		r.Bad(rule, cons, fn.Pos(), "no call m.Next."+method+" found: the override does not forward the mutation")
		return
	}
	bi, ki := dstArgIdx(method)
	for _, ic := range inner {
		args := ic.Common().Args
		dstB, dstK := args[bi], args[ki]
		isInv := func(ins ssa.Instruction) bool {
			c, ok := ins.(ssa.CallInstruction)
			if !ok {
				return false
			}
			f := calleeObj(c)
			if f != invalidate {
				return false
			}
			a := c.Common().Args // recv, ctx, bucket, key
			return len(a) == 4 && sameValue(a[2], dstB) && sameValue(a[3], dstK)
		}
		// refresh idiom (PutObject): head key rewritten or removed
		isHeadRefresh := func(ins ssa.Instruction) bool {
			c, ok := ins.(ssa.CallInstruction)
			if !ok {
				return false
			}
			f := calleeObj(c)
			if f == nil {
				return false
			}
			var keyArg ssa.Value
			switch {
			case isFunc(f, relObjCache, "objectCacheStorageMiddleware.writeHeadToCache"):
				keyArg = c.Common().Args[2]
			case f.Name() == "Remove" && c.Common().IsInvoke():
				if n, _ := fieldLoadName(c.Common().Value); n != "cache" {
					return false
				}
				keyArg = c.Common().Args[0]
			default:
				return false
			}
			return keyDerivedFrom(keyArg, "headCacheKey", dstB, dstK)
		}
		bodySet := false
		allInstrs(fn, true, func(_ *ssa.Function, ins ssa.Instruction) {
			if c, ok := ins.(ssa.CallInstruction); ok {
				if f := calleeObj(c); f != nil && f.Name() == "Set" && c.Common().IsInvoke() && len(c.Common().Args) > 0 {
					if keyDerivedFrom(c.Common().Args[0], "objectCacheKey", dstB, dstK) {
						bodySet = true
					}
				}
			}
		})
		barrier := func(ins ssa.Instruction) bool {
			return isInv(ins) || (bodySet && isHeadRefresh(ins))
		}
		var offending []*ssa.Return
		for _, ret := range returnsReachableAvoiding(ic, barrier) {
			if !isFailureReturn(ret) {
				offending = append(offending, ret)
			}
		}
		if len(offending) == 0 {
			idiom := "invalidate on every possibly-successful path"
			if bodySet {
				idiom = "refresh idiom: body streamed into cache.Set(objectCacheKey), head rewritten/removed or invalidated on every path"
			}
			r.OK(rule, cons, ic.Pos(), idiom)
			continue
		}
		// per-entry idiom: an invalidation whose key derives from the inner call's result
		perEntry := false
		for _, c := range callsTo(fn, false, func(f *types.Func) bool { return f == invalidate }) {
			a := c.Common().Args
			if len(a) == 4 && sameValue(a[2], dstB) {
				backSlice(a[3], false, func(v ssa.Value) {
					if v == ic.Value() {
						perEntry = true
					}
				})
			}
		}
		if perEntry && method == "DeleteObjects" {
			r.OK(rule, cons, ic.Pos(), "per-entry idiom: invalidateObjectCaches(bucket, entry.Key) for the entries of the inner result")
			continue
		}
		r.Bad(rule, cons, posOf(offending[0]), "a path from the inner call reaches this return (not a certain failure) without invalidating the destination's cache keys")
	}
}

// keyDerivedFrom reports whether v's backward slice contains a call keyFn(b,k) with exactly
// these bucket/key values.
func keyDerivedFrom(v ssa.Value, keyFn string, b, k ssa.Value) bool {
	found := false
	backSlice(v, false, func(x ssa.Value) {
		if call, ok := x.(*ssa.Call); ok {
			if f := calleeObj(call); f != nil && isFunc(f, relObjCache, keyFn) && len(call.Call.Args) == 2 {
				if sameValue(call.Call.Args[0], b) && sameValue(call.Call.Args[1], k) {
					found = true
				}
			}
		}
	})
	return found
}

func checkC20Bypass(w *World, r *Run, rule, cons, method string, fn *ssa.Function) {
	// every cache access (m.cache.*, readHeadFromCache, readObjectFromCache, readGroup.Do)
	// in the method (deep) must be dominated by facts: opts == nil or opts.VersionID == nil,
	// and for GetObject len(ranges) == 0  (i.e. the forwarding early-returns come first).
	type need struct{ version, ranges bool }
	var sites []ssa.Instruction
	allInstrs(fn, false, func(_ *ssa.Function, ins ssa.Instruction) {
		c, ok := ins.(ssa.CallInstruction)
		if !ok {
			return
		}
		f := calleeObj(c)
		if f == nil {
			return
		}
		if isFunc(f, relObjCache, "objectCacheStorageMiddleware.readHeadFromCache") || isFunc(f, relObjCache, "objectCacheStorageMiddleware.readObjectFromCache") {
			sites = append(sites, ins)
			return
		}
		if c.Common().IsInvoke() {
			if n, _ := fieldLoadName(c.Common().Value); n == "cache" {
				sites = append(sites, ins)
			}
		}
	})
	if len(sites) == 0 {
		r.Bad(rule, cons, fn.Pos(), "no cache access found in the read method (anchor lost)")
		return
	}
	optsIdx, rangesIdx := -1, -1
	for i, p := range fn.Params {
		switch p.Name() {
		case "opts":
			optsIdx = i
		case "ranges":
			rangesIdx = i
		}
	}
	if optsIdx < 0 || (method == "GetObject" && rangesIdx < 0) {
		r.Bad(rule, cons, fn.Pos(), "parameters opts/ranges not found (anchor lost)")
		return
	}
	opts := fn.Params[optsIdx]
	noVersion := func(f Fact) bool {
		if f.Kind != IsNil {
			return false
		}
		if f.Val == opts {
			return true
		}
		if n, base := fieldLoadName(f.Val); n == "VersionID" && base == opts {
			return true
		}
		return false
	}
	for _, s := range sites {
		if !everyPathEstablishes(s.Block(), noVersion) {
			r.Bad(rule, cons, posOf(s), "a path reaches this cache access with opts.VersionID possibly set: a versioned read could be answered from the cache of the current version")
			return
		}
		if method == "GetObject" {
			ranges := fn.Params[rangesIdx]
			if !everyPathEstablishes(s.Block(), func(f Fact) bool { return factSaysEmpty(f, func(v ssa.Value) bool { return v == ranges }) }) {
				r.Bad(rule, cons, posOf(s), "a path reaches this cache access with len(ranges) possibly > 0: a ranged read could be answered with the whole cached body")
				return
			}
		}
	}
	r.OK(rule, cons, fn.Pos(), "every cache access is reached only with opts==nil/opts.VersionID==nil"+map[bool]string{true: " and len(ranges)==0", false: ""}[method == "GetObject"])
}
