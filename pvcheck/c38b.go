package main

import (
	"go/ast"
	"go/constant"
	"go/token"
	"go/types"
	"sort"
	"strings"

	"golang.org/x/tools/go/ssa"
)

// C38, error kinds and nested reads: the S3 client backend must report the error kinds of
// the storage behind the endpoint, and every nested read must address the requested version.

const relHTTPServer = "internal/http/server"

func isS3SDKOp(f *types.Func) bool {
	n := recvNamed(f)
	return n != nil && n.Obj().Name() == "Client" && n.Obj().Pkg() != nil &&
		strings.HasSuffix(n.Obj().Pkg().Path(), "aws-sdk-go-v2/service/s3")
}

func isC38Translator(f *types.Func) bool {
	return isFunc(f, relS3Client, "translateS3Error") || isFunc(f, relS3Client, "translateS3CopyError")
}

// c38RawSDKError returns the SDK call whose error result reaches v without passing a
// translator, nil when there is none.
func c38RawSDKError(v ssa.Value, seen map[ssa.Value]bool) *ssa.Call {
	if v == nil || seen[v] {
		return nil
	}
	seen[v] = true
	switch x := v.(type) {
	case *ssa.Phi:
		for _, e := range x.Edges {
			if c := c38RawSDKError(e, seen); c != nil {
				return c
			}
		}
	case *ssa.Extract:
		if c, ok := x.Tuple.(*ssa.Call); ok && isS3SDKOp(calleeObj(c)) && isErrorType(x.Type()) {
			return c
		}
	case *ssa.MakeInterface:
		return c38RawSDKError(x.X, seen)
	case *ssa.ChangeInterface:
		return c38RawSDKError(x.X, seen)
	case *ssa.ChangeType:
		return c38RawSDKError(x.X, seen)
	case *ssa.UnOp:
		if x.Op == token.MUL {
			for _, s := range storesTo(x.X) {
				if c := c38RawSDKError(s, seen); c != nil {
					return c
				}
			}
		}
	}
	return nil
}

// sentinelText resolves the text of a package-level error variable initialised with
// errors.New("…"), following `var A = pkg.B` chains.
func sentinelText(w *World, v *types.Var, depth int) (string, bool) {
	if v == nil || v.Pkg() == nil || depth > 4 {
		return "", false
	}
	pkg := w.Pkg(pkgRel(v.Pkg()))
	if pkg == nil {
		return "", false
	}
	for _, f := range pkg.Syntax {
		for _, d := range f.Decls {
			gd, ok := d.(*ast.GenDecl)
			if !ok || gd.Tok != token.VAR {
				continue
			}
			for _, sp := range gd.Specs {
				vs := sp.(*ast.ValueSpec)
				for i, id := range vs.Names {
					if pkg.TypesInfo.Defs[id] != v || i >= len(vs.Values) {
						continue
					}
					switch e := vs.Values[i].(type) {
					case *ast.CallExpr:
						if f := calleeOfExpr(pkg.TypesInfo, e); f != nil && f.Pkg() != nil && f.Pkg().Path() == "errors" && f.Name() == "New" && len(e.Args) == 1 {
							if tv, ok := pkg.TypesInfo.Types[e.Args[0]]; ok && tv.Value != nil && tv.Value.Kind() == constant.String {
								return constant.StringVal(tv.Value), true
							}
						}
					case *ast.SelectorExpr:
						if o, ok := pkg.TypesInfo.Uses[e.Sel].(*types.Var); ok {
							return sentinelText(w, o, depth+1)
						}
					case *ast.Ident:
						if o, ok := pkg.TypesInfo.Uses[e].(*types.Var); ok {
							return sentinelText(w, o, depth+1)
						}
					}
				}
			}
		}
	}
	return "", false
}

func exprVar(info *types.Info, e ast.Expr) *types.Var {
	switch x := e.(type) {
	case *ast.SelectorExpr:
		v, _ := info.Uses[x.Sel].(*types.Var)
		return v
	case *ast.Ident:
		v, _ := info.Uses[x].(*types.Var)
		return v
	}
	return nil
}

func checkC38ErrorKinds(w *World, r *Run, T *types.Named) {
	ruleTr := r.Rule("sdk-errors-are-translated", "F8",
		"in every s3ClientStorage method, no return hands out the raw error result of an s3.Client call: it passes translateS3Error / translateS3CopyError (or is replaced by a storage error), otherwise callers see an SDK error where the endpoint's storage reports NoSuchKey, InvalidRange, …", 30)
	ruleTab := r.Rule("translator-covers-the-servers-error-codes", "F7",
		"the server reports a storage error by the error's own text as S3 error code; the client's table s3ErrorCodeSentinels contains every storage error the server answers with a non-500 status, every entry's text resolves to a non-empty literal (the code the server sends), and translateS3Error returns the entry whose text equals the API error code", 15)
	ruleHead := r.Rule("head-not-found-is-disambiguated", "F1",
		"HeadObject answers a bodiless 404 with ErrNoSuchKey only after HeadBucket succeeded (whose error is returned otherwise) and never guesses ErrNoSuchBucket itself", 1)
	ruleVer := r.Rule("nested-calls-address-the-requested-version", "F9",
		"in every method that receives options with a VersionID, each nested s3ClientStorage call or SDK request that can name a version receives that VersionID: metadata and body must come from the same version", 6)

	// ---- rule A
	var names []string
	for m := range storageMethods {
		names = append(names, m)
	}
	sort.Strings(names)
	for _, m := range names {
		fn := w.SSAFunc(relS3Client, "s3ClientStorage."+m)
		if fn == nil {
			continue
		}
		ei := errorResultIndex(fn)
		if ei < 0 {
			continue
		}
		raw := map[*ssa.Call]*ssa.Return{}
		for _, ret := range returnsOf(fn) {
			if c := c38RawSDKError(retResult(ret, ei), map[ssa.Value]bool{}); c != nil {
				raw[c] = ret
			}
		}
		for _, ci := range callsTo(fn, true, isS3SDKOp) {
			c, ok := ci.(*ssa.Call)
			if !ok {
				continue
			}
			cons := "(*s3ClientStorage)." + m + ": error of s3.Client." + calleeObj(c).Name()
			if ret, bad := raw[c]; bad {
				r.Bad(ruleTr, cons, ret.Pos(), "returned as the SDK produced it: the caller cannot recognise the storage error kind the endpoint reported")
			} else {
				r.OK(ruleTr, cons, c.Pos(), "translated or replaced on every return")
			}
		}
	}

	// ---- rule B
	cpkg := w.Pkg(relS3Client)
	spkg := w.Pkg(relHTTPServer)
	if cpkg == nil || spkg == nil {
		r.Anchor(ruleTab, relS3Client+" / "+relHTTPServer)
		return
	}
	table := map[*types.Var]bool{}
	var tablePos token.Pos
	for _, f := range cpkg.Syntax {
		for _, d := range f.Decls {
			gd, ok := d.(*ast.GenDecl)
			if !ok || gd.Tok != token.VAR {
				continue
			}
			for _, sp := range gd.Specs {
				vs := sp.(*ast.ValueSpec)
				for i, id := range vs.Names {
					if id.Name != "s3ErrorCodeSentinels" || i >= len(vs.Values) {
						continue
					}
					tablePos = id.Pos()
					if cl, ok := vs.Values[i].(*ast.CompositeLit); ok {
						for _, e := range cl.Elts {
							if v := exprVar(cpkg.TypesInfo, e); v != nil {
								table[v] = true
							}
						}
					}
				}
			}
		}
	}
	if !tablePos.IsValid() {
		r.Anchor(ruleTab, relS3Client+".s3ErrorCodeSentinels")
		return
	}
	// the server's writer side
	var he *ast.FuncDecl
	if f := w.Func(relHTTPServer, "handleError"); f != nil {
		he = w.Decl(f)
	}
	if he == nil {
		r.Anchor(ruleTab, relHTTPServer+".handleError")
		return
	}
	sinfo := spkg.TypesInfo
	var errParam *types.Var
	if he.Type.Params != nil && len(he.Type.Params.List) > 0 && len(he.Type.Params.List[0].Names) > 0 {
		errParam, _ = sinfo.Defs[he.Type.Params.List[0].Names[0]].(*types.Var)
	}
	codeIsText := false
	ast.Inspect(he.Body, func(n ast.Node) bool {
		as, ok := n.(*ast.AssignStmt)
		if !ok || len(as.Lhs) != 1 || len(as.Rhs) != 1 {
			return true
		}
		se, ok := as.Lhs[0].(*ast.SelectorExpr)
		if !ok || se.Sel.Name != "Code" {
			return true
		}
		if call, ok := as.Rhs[0].(*ast.CallExpr); ok {
			if fs, ok := call.Fun.(*ast.SelectorExpr); ok && fs.Sel.Name == "Error" && exprVar(sinfo, fs.X) == errParam && errParam != nil {
				codeIsText = true
			}
		}
		return true
	})
	r.Check(codeIsText, ruleTab, "handleError reports the error's text as the S3 error code", he.Pos(), "errResponse.Code = err.Error()", "the server no longer reports the storage error's text as error code: the client's text-keyed table cannot recognise it")
	ast.Inspect(he.Body, func(n ast.Node) bool {
		sw, ok := n.(*ast.SwitchStmt)
		if !ok || exprVar(sinfo, sw.Tag) != errParam || errParam == nil {
			return true
		}
		for _, st := range sw.Body.List {
			cc := st.(*ast.CaseClause)
			is500, overridesCode := false, false
			for _, b := range cc.Body {
				if as, ok := b.(*ast.AssignStmt); ok && len(as.Lhs) == 1 && len(as.Rhs) == 1 {
					if id, ok := as.Lhs[0].(*ast.Ident); ok && id.Name == "statusCode" {
						if tv, ok := sinfo.Types[as.Rhs[0]]; ok && tv.Value != nil {
							if n, ok := constant.Int64Val(tv.Value); ok && n >= 500 {
								is500 = true
							}
						}
					}
					if se, ok := as.Lhs[0].(*ast.SelectorExpr); ok && se.Sel.Name == "Code" {
						overridesCode = true
					}
				}
			}
			for _, e := range cc.List {
				v := exprVar(sinfo, e)
				if v == nil || v.Pkg() == nil || pkgRel(v.Pkg()) != "internal/storage" {
					continue
				}
				cons := "s3ErrorCodeSentinels contains storage." + v.Name()
				if is500 || overridesCode {
					r.Exempt(ruleTab, cons, e.Pos(), "the server answers this error with its own code, not the error's text; it cannot be recognised by text")
					continue
				}
				r.Check(table[v], ruleTab, cons, tablePos, "listed", "the server reports this storage error by code but the client does not translate it back: callers of the S3 client backend get an SDK error instead of storage."+v.Name())
			}
		}
		return false
	})
	var tvars []*types.Var
	for v := range table {
		tvars = append(tvars, v)
	}
	sort.Slice(tvars, func(i, j int) bool { return tvars[i].Name() < tvars[j].Name() })
	for _, v := range tvars {
		txt, ok := sentinelText(w, v, 0)
		cons := "text of storage." + v.Name() + " is the code the server sends"
		if !ok {
			r.Unk(ruleTab, cons, tablePos, "initialiser not resolved to errors.New(literal)")
			continue
		}
		r.Check(txt != "", ruleTab, cons, tablePos, "\""+txt+"\"", "the error has an empty text: the entry would match responses without an error code")
	}
	// the translator's shape
	if tf := w.SSAFunc(relS3Client, "translateS3Error"); tf == nil {
		r.Anchor(ruleTab, relS3Client+".translateS3Error")
	} else {
		fromTable := func(v ssa.Value) bool {
			return sliceContains(v, false, func(x ssa.Value) bool {
				g, ok := x.(*ssa.Global)
				return ok && g.Name() == "s3ErrorCodeSentinels"
			})
		}
		isInvoke := func(v ssa.Value, name string) *ssa.Call {
			c, ok := v.(*ssa.Call)
			if ok && c.Call.IsInvoke() && c.Call.Method.Name() == name {
				return c
			}
			return nil
		}
		good := false
		for _, ret := range returnsOf(tf) {
			rv := retResult(ret, 0)
			if rv == nil || !fromTable(rv) {
				continue
			}
			for _, f := range factsAt(ret.Block()) {
				if f.Kind != EqConst || f.Other == nil {
					continue
				}
				a, b := isInvoke(f.Val, "ErrorCode"), isInvoke(f.Other, "Error")
				if a != nil && b != nil && fromTable(b.Call.Value) {
					good = true
				}
			}
		}
		r.Check(good, ruleTab, "translateS3Error returns the entry whose text equals apiErr.ErrorCode()", tf.Pos(), "entry returned under ErrorCode() == entry.Error()", "no return of a table entry is guarded by ErrorCode() == entry.Error(): codes are no longer matched against the storage errors' texts")
	}

	// ---- rule C
	if hf := w.SSAFunc(relS3Client, "s3ClientStorage.HeadObject"); hf == nil {
		r.Anchor(ruleHead, relS3Client+".s3ClientStorage.HeadObject")
	} else {
		okKey, guessBucket := false, false
		var pos token.Pos = hf.Pos()
		for _, ret := range returnsOf(hf) {
			if returnsErr(ret, "ErrNoSuchBucket") {
				guessBucket = true
				pos = ret.Pos()
			}
			if !returnsErr(ret, "ErrNoSuchKey") {
				continue
			}
			for _, f := range factsAt(ret.Block()) {
				if f.Kind != IsNil {
					continue
				}
				if c, _ := callOf(f.Val); c != nil && isFunc(calleeObj(c), relS3Client, "s3ClientStorage.HeadBucket") {
					okKey = true
				}
			}
		}
		r.Check(okKey && !guessBucket, ruleHead, "(*s3ClientStorage).HeadObject: bodiless 404", pos,
			"ErrNoSuchKey only after HeadBucket succeeded", "a HEAD 404 carries no error code; without asking for the bucket HeadObject reports a missing key as a missing bucket (or the reverse)")
	}

	// ---- rule D
	hasVersionField := func(t types.Type, field string) bool {
		if p, ok := types.Unalias(t).(*types.Pointer); ok {
			t = p.Elem()
		}
		st, ok := t.Underlying().(*types.Struct)
		if !ok {
			return false
		}
		for i := 0; i < st.NumFields(); i++ {
			if st.Field(i).Name() == field {
				return true
			}
		}
		return false
	}
	for _, m := range names {
		fn := w.SSAFunc(relS3Client, "s3ClientStorage."+m)
		if fn == nil {
			continue
		}
		var optsParam *ssa.Parameter
		for _, p := range fn.Params {
			if hasVersionField(p.Type(), "VersionID") {
				optsParam = p
			}
		}
		if optsParam == nil {
			continue
		}
		isOpts := func(b ssa.Value) bool { return b == optsParam }
		fromOpts := func(v ssa.Value) bool {
			if derivesFromFieldOf(v, "VersionID", isOpts) {
				return true
			}
			// VersionId: func() *string { if opts != nil { return opts.VersionID }; return nil }()
			if c, ok := stripConv(v).(*ssa.Call); ok {
				if mc, ok := c.Call.Value.(*ssa.MakeClosure); ok {
					if lit, ok := mc.Fn.(*ssa.Function); ok {
						for _, ret := range returnsOf(lit) {
							if len(ret.Results) == 1 && derivesFromFieldOf(ret.Results[0], "VersionID", isOpts) {
								return true
							}
						}
					}
				}
			}
			return false
		}
		allInstrs(fn, false, func(_ *ssa.Function, ins ssa.Instruction) {
			c, ok := ins.(*ssa.Call)
			if !ok {
				return
			}
			callee := calleeObj(c)
			if callee == nil {
				return
			}
			switch {
			case isS3SDKOp(callee):
				for _, a := range c.Call.Args {
					if !hasVersionField(a.Type(), "VersionId") {
						continue
					}
					cons := "(*s3ClientStorage)." + m + ": s3.Client." + callee.Name() + " input.VersionId"
					good := false
					if refs := a.Referrers(); refs != nil {
						for _, ref := range *refs {
							if fa, ok := ref.(*ssa.FieldAddr); ok && fieldName(fa.X.Type(), fa.Field) == "VersionId" {
								for _, sv := range storesTo(fa) {
									if fromOpts(sv) {
										good = true
									}
								}
							}
						}
					}
					r.Check(good, ruleVer, cons, c.Pos(), "from opts.VersionID", "the request does not name the version the caller asked for: it addresses the current version")
				}
			case recvNamed(callee) == T:
				for _, a := range c.Call.Args {
					if !hasVersionField(a.Type(), "VersionID") {
						continue
					}
					cons := "(*s3ClientStorage)." + m + ": nested " + callee.Name() + " options.VersionID"
					r.Check(!isNilConst(stripConv(a)) && fromOpts(a), ruleVer, cons, c.Pos(), "from opts.VersionID", "the nested call does not carry the caller's VersionID: its result describes the current version while the rest of the operation addresses the requested one")
				}
			}
		})
	}
}
