package main

import (
	"fmt"
	"go/constant"
	"go/token"
	"go/types"
	"sort"
	"strings"

	"golang.org/x/tools/go/ssa"
)

// C40 — downloads never silently mix or truncate content.
func init() { register("C40", checkC40) }

// capability bits by constant name, read from the partstore package
func capabilityBits(w *World) map[string]uint64 {
	out := map[string]uint64{}
	p := w.Pkg(relPartStore)
	if p == nil {
		return out
	}
	for _, n := range p.Types.Scope().Names() {
		if c, ok := p.Types.Scope().Lookup(n).(*types.Const); ok && strings.HasPrefix(n, "CapabilityTxFree") {
			if u, exact := constant.Uint64Val(c.Val()); exact {
				out[n] = u
			}
		}
	}
	return out
}

func checkC40(w *World, r *Run) {
	ruleBranch := r.Rule("tx-free-streaming-only-with-the-capability", "F1",
		"metadataPartStorage.GetObject hands its lazy readers a nil transaction (and the pre-transaction context) only where partStores.Capabilities().Has(CapabilityTxFreeGetPart) was true, runs the short WithTx only on that branch and WithTxReadClosers otherwise; the part list is built inside the metadata transaction", 4)
	ruleCaps := r.Rule("advertised-capabilities-are-honoured", "F2",
		"a part store that can advertise CapabilityTxFree{Get,Put,Delete}Part never calls a method on the tx parameter of that operation without a dominating tx != nil test; a wrapping store derives its capabilities only by intersecting (&) the capabilities of every store it wraps; NamedPartStores intersects over all stores; the SQL part store advertises nothing", 20)
	ruleLen := r.Rule("body-length-is-declared-before-streaming", "F1",
		"the GetObject handler sets Content-Length before WriteHeader on every path that writes a body and copies every range with CopyN(size): a reader that ends early cannot be presented as a complete response", 4)

	// ---- 1. GetObject branch
	top := w.SSAFunc(relMP, "metadataPartStorage.GetObject")
	if top == nil {
		r.Anchor(ruleBranch, "metadataPartStorage.GetObject")
		return
	}
	isTxFreeFlag := func(v ssa.Value) bool {
		// a (captured) boolean whose only definition is Capabilities().Has(CapabilityTxFreeGetPart)
		ok := false
		chk := func(x ssa.Value) {
			c, isCall := x.(*ssa.Call)
			if !isCall || !isCallNamed(c, "Has") {
				return
			}
			k, isConst := c.Call.Args[len(c.Call.Args)-1].(*ssa.Const)
			if !isConst || k.Value == nil {
				return
			}
			if u, exact := constant.Uint64Val(k.Value); exact && u == capabilityBits(w)["CapabilityTxFreeGetPart"] {
				if sliceContains(c.Call.Args[0], false, func(y ssa.Value) bool { return isCallNamed(y, "Capabilities") }) {
					ok = true
				}
			}
		}
		backSlice(v, false, func(x ssa.Value) {
			chk(x)
			if fv, isFV := x.(*ssa.FreeVar); isFV {
				if b := bindingOf(fv); b != nil {
					backSlice(b, false, chk)
				}
			}
		})
		return ok
	}
	txFreeTrue := func(fs []Fact) bool {
		for _, f := range fs {
			if f.Kind == IsTrue && isTxFreeFlag(f.Val) {
				return true
			}
		}
		return false
	}
	txFreeFalse := func(fs []Fact) bool {
		for _, f := range fs {
			if f.Kind == IsFalse && isTxFreeFlag(f.Val) {
				return true
			}
		}
		return false
	}
	var crr *ssa.Call
	allInstrs(top, true, func(_ *ssa.Function, ins ssa.Instruction) {
		if c, ok := ins.(*ssa.Call); ok && isCallNamed(c, "createRangeReader") {
			crr = c
		}
	})
	if crr == nil {
		r.Bad(ruleBranch, "GetObject → createRangeReader", top.Pos(), "no createRangeReader call found")
	} else {
		lit := crr.Parent()
		txArg := crr.Call.Args[2]
		ctxArg := crr.Call.Args[1]
		// nil tx only under the flag; the transaction parameter otherwise
		nilOK, txOK := true, false
		var visit func(v ssa.Value, from *ssa.BasicBlock, depth int)
		visit = func(v ssa.Value, from *ssa.BasicBlock, depth int) {
			if depth > 6 {
				return
			}
			switch x := v.(type) {
			case *ssa.Phi:
				for i, e := range x.Edges {
					visit(e, x.Block().Preds[i], depth+1)
				}
			case *ssa.Const:
				if x.Value == nil {
					if from == nil || !txFreeTrue(append(factsAt(from), edgeFactsInto(from, crr.Block())...)) {
						nilOK = false
					}
				}
			default:
				if p, ok := unspill(stripConv(v)).(*ssa.Parameter); ok && p.Parent() == lit {
					txOK = true
				}
			}
		}
		visit(txArg, nil, 0)
		r.Check(nilOK && txOK, ruleBranch, "GetObject: readers get a nil tx only under the tx-free capability", posOf(crr), "readerTx = nil only where txFreeStreaming", "the lazy readers are created without a transaction although not every configured store reads without one: SQL-backed part content is read outside the snapshot (or through a finished transaction)")
		// ctx: under the flag the pre-transaction context
		ctxOK := false
		var visitCtx func(v ssa.Value, depth int)
		visitCtx = func(v ssa.Value, depth int) {
			if depth > 6 {
				return
			}
			if phi, ok := v.(*ssa.Phi); ok {
				for _, e := range phi.Edges {
					visitCtx(e, depth+1)
				}
				return
			}
			if ld, ok := v.(*ssa.UnOp); ok && ld.Op == token.MUL {
				if fv, ok := ld.X.(*ssa.FreeVar); ok && fv.Name() == "streamCtx" {
					ctxOK = true
				}
			}
		}
		visitCtx(ctxArg, 0)
		r.Check(ctxOK, ruleBranch, "GetObject: tx-free readers use the pre-transaction context", posOf(crr), "readerCtx = streamCtx", "tx-free readers keep the context that carries the short-lived transaction: a later BeginTx inside a part store reuses the finished transaction")
		// the object whose parts are read is the one resolved in this closure
		objOK := sliceContains(crr.Call.Args[3], false, func(x ssa.Value) bool { return isCallNamed(x, "HeadObject", "HeadObjectVersion") })
		r.Check(objOK, ruleBranch, "GetObject: part list resolved inside the metadata transaction", posOf(crr), "createRangeReader(object from HeadObject/HeadObjectVersion of this transaction)", "the readers are built over an object that was not resolved in the metadata transaction of this request")
	}
	// outer branch
	var shortTx, longTx ssa.Instruction
	allInstrs(top, false, func(_ *ssa.Function, ins ssa.Instruction) {
		if c, ok := ins.(ssa.CallInstruction); ok {
			if f := calleeObj(c); f != nil {
				if isFunc(f, relDB, "WithTx") {
					shortTx = ins
				}
				if isFunc(f, relDB, "WithTxReadClosers") {
					longTx = ins
				}
			}
		}
	})
	brOK := shortTx != nil && longTx != nil && txFreeTrue(factsAt(shortTx.Block())) && txFreeFalse(factsAt(longTx.Block()))
	r.Check(brOK, ruleBranch, "GetObject: short transaction only with the capability, WithTxReadClosers otherwise", top.Pos(), "if txFreeStreaming { WithTx } else { WithTxReadClosers }", "the transaction is finished before streaming although a configured store needs it, or the snapshot-holding variant is not used for such stores: SQL part content can change or vanish under the download")

	// ---- 2. capabilities
	PS := w.Iface(relPartStore, "PartStore")
	bits := capabilityBits(w)
	opOf := map[string]string{"CapabilityTxFreeGetPart": "GetPart", "CapabilityTxFreePutPart": "PutPart", "CapabilityTxFreeDeletePart": "DeletePart"}
	if PS == nil || len(bits) != 3 {
		r.Anchor(ruleCaps, "partstore.PartStore / CapabilityTxFree*")
		return
	}
	var impls []*types.Named
	for _, p := range w.All {
		if !strings.HasPrefix(pkgRel(p.Types), "internal/") {
			continue
		}
		sc := p.Types.Scope()
		for _, n := range sc.Names() {
			tn, ok := sc.Lookup(n).(*types.TypeName)
			if !ok || tn.IsAlias() {
				continue
			}
			named, ok := tn.Type().(*types.Named)
			if !ok {
				continue
			}
			if _, isIface := named.Underlying().(*types.Interface); isIface {
				continue
			}
			if types.Implements(types.NewPointer(named), PS) || types.Implements(named, PS) {
				impls = append(impls, named)
			}
		}
	}
	sort.Slice(impls, func(i, j int) bool { return impls[i].String() < impls[j].String() })
	for _, T := range impls {
		short := pkgRel(T.Obj().Pkg()) + "." + T.Obj().Name()
		var capFn *ssa.Function
		ms := types.NewMethodSet(types.NewPointer(T))
		if sel := ms.Lookup(T.Obj().Pkg(), "Capabilities"); sel != nil {
			capFn = w.Prog.FuncValue(sel.Obj().(*types.Func))
		}
		// inner stores: fields of type PartStore / []PartStore
		var inner []string
		if st, ok := T.Underlying().(*types.Struct); ok {
			for i := 0; i < st.NumFields(); i++ {
				ft := st.Field(i).Type()
				if sl, ok := ft.Underlying().(*types.Slice); ok {
					ft = sl.Elem()
				}
				if n, ok := types.Unalias(ft).(*types.Named); ok && n.Obj().Name() == "PartStore" && n.Obj().Pkg() != nil && pkgRel(n.Obj().Pkg()) == relPartStore {
					inner = append(inner, st.Field(i).Name())
				}
			}
		}
		may := uint64(0) // capabilities the type may advertise
		if capFn == nil {
			r.OK(ruleCaps, short+" advertises nothing", T.Obj().Pos(), "no Capabilities method")
		} else if len(inner) == 0 {
			// leaf: union of the constants handed to NewCapabilities
			okShape := true
			for _, ret := range returnsOf(capFn) {
				backSlice(retResult(ret, 0), true, func(x ssa.Value) {
					if k, ok := x.(*ssa.Const); ok && k.Value != nil && k.Value.Kind() == constant.Int {
						if u, exact := constant.Uint64Val(k.Value); exact {
							may |= u
						}
					}
					if c, ok := x.(*ssa.Call); ok && !isCallNamed(c, "NewCapabilities") && !isBuiltinCall(c, "append") {
						okShape = false
					}
				})
			}
			r.Check(okShape, ruleCaps, short+".Capabilities is a constant set", capFn.Pos(), fmt.Sprintf("bits %#x", may), "the capability set of a leaf store is computed from something other than constants: cannot bound what it advertises")
			if !okShape {
				may = ^uint64(0)
			}
		} else {
			// wrapper: only & over CapabilitiesOf(inner…) (and constant masks)
			seenInner := map[string]bool{}
			shape := ""
			mask := ^uint64(0)
			for _, ret := range returnsOf(capFn) {
				v := retResult(ret, 0)
				if k, ok := v.(*ssa.Const); ok {
					if u, _ := constant.Uint64Val(k.Value); u == 0 {
						continue
					}
				}
				backSlice(v, false, func(x ssa.Value) {
					switch y := x.(type) {
					case *ssa.BinOp:
						if y.Op != token.AND {
							shape = "operator " + y.Op.String()
						}
					case *ssa.Call:
						switch {
						case isCallNamed(y, "CapabilitiesOf"):
							backSlice(y.Call.Args[0], false, func(z ssa.Value) {
								if fa, ok := z.(*ssa.FieldAddr); ok {
									seenInner[fieldName(fa.X.Type(), fa.Field)] = true
								}
							})
						case isCallNamed(y, "NewCapabilities"):
							// a constant mask intersected with the inner capabilities
							m := uint64(0)
							backSlice(y.Call.Args[0], false, func(z ssa.Value) {
								if k, ok := z.(*ssa.Const); ok && k.Value != nil && k.Value.Kind() == constant.Int {
									if u, exact := constant.Uint64Val(k.Value); exact {
										m |= u
									}
								}
							})
							mask &= m
						case isBuiltinCall(y, "len"):
						default:
							shape = "call " + describeVal(y)
						}
					}
				})
			}
			missing := ""
			for _, f := range inner {
				if !seenInner[f] {
					missing = f
				}
			}
			switch {
			case shape != "":
				r.Bad(ruleCaps, short+".Capabilities intersects its inner stores", capFn.Pos(), "capabilities are computed with "+shape+": a wrapper can advertise more than a store it wraps")
			case missing != "":
				r.Bad(ruleCaps, short+".Capabilities intersects its inner stores", capFn.Pos(), "inner store field "+missing+" does not take part in the capability set: the wrapper advertises tx-free operation although that store may need a transaction")
			default:
				r.OK(ruleCaps, short+".Capabilities intersects its inner stores", capFn.Pos(), "CapabilitiesOf("+strings.Join(inner, ", ")+") combined with & only")
			}
			may = mask
		}
		if strings.HasSuffix(pkgRel(T.Obj().Pkg()), "partstore/sql") {
			r.Check(may == 0, ruleCaps, short+" (SQL part content) never advertises tx-free reads", T.Obj().Pos(), "no capabilities", "the SQL part store advertises a tx-free capability: its content would be read outside the snapshot transaction")
		}
		// honoured: tx methods only under tx != nil
		names := make([]string, 0, 3)
		for n := range opOf {
			names = append(names, n)
		}
		sort.Strings(names)
		for _, cn := range names {
			if may&bits[cn] == 0 {
				continue
			}
			op := opOf[cn]
			sel := ms.Lookup(T.Obj().Pkg(), op)
			if sel == nil {
				continue
			}
			fn := w.Prog.FuncValue(sel.Obj().(*types.Func))
			if fn == nil || len(fn.Blocks) == 0 || len(fn.Params) < 3 {
				continue
			}
			tx := fn.Params[2]
			bad := ""
			allInstrs(fn, true, func(f2 *ssa.Function, ins ssa.Instruction) {
				c, ok := ins.(ssa.CallInstruction)
				if !ok || !c.Common().IsInvoke() {
					return
				}
				recv := c.Common().Value
				isTx := unspill(recv) == ssa.Value(tx)
				if !isTx {
					if fv, ok := unspill(recv).(*ssa.FreeVar); ok {
						if b := bindingOf(fv); b != nil && sliceContains(b, false, func(y ssa.Value) bool { return y == ssa.Value(tx) }) {
							isTx = true
						}
					}
					if ld, ok := recv.(*ssa.UnOp); ok && ld.Op == token.MUL {
						if fv, ok := ld.X.(*ssa.FreeVar); ok {
							if b := bindingOf(fv); b != nil && sliceContains(b, false, func(y ssa.Value) bool { return y == ssa.Value(tx) }) {
								isTx = true
							}
						}
					}
				}
				if !isTx {
					return
				}
				guarded := guardedHereOrInCallers(w, ins, func(fs []Fact) bool {
					for _, f := range fs {
						if f.Kind == NonNil && (unspill(f.Val) == ssa.Value(tx) || sliceContains(f.Val, false, func(y ssa.Value) bool { return y == ssa.Value(tx) })) {
							return true
						}
					}
					return false
				}, 0)
				if !guarded {
					bad = "tx." + c.Common().Method.Name() + " at " + w.Pos(posOf(ins))
				}
			})
			r.Check(bad == "", ruleCaps, short+"."+op+" tolerates a nil tx ("+cn+")", fn.Pos(), "every method call on tx is under tx != nil", bad+" is reached without a tx != nil test although the store can advertise "+cn+": a tx-free call panics or fails mid-stream")
		}
	}
	// NamedPartStores
	if fn := w.SSAFunc(relPartStore, "NamedPartStores.Capabilities"); fn == nil {
		r.Anchor(ruleCaps, "NamedPartStores.Capabilities")
	} else {
		and, overAll, other := false, false, ""
		allInstrs(fn, false, func(_ *ssa.Function, ins ssa.Instruction) {
			switch x := ins.(type) {
			case *ssa.BinOp:
				if x.Op == token.AND {
					and = true
				} else if x.Op == token.OR || x.Op == token.XOR || x.Op == token.AND_NOT {
					other = x.Op.String()
				}
			case *ssa.Range:
				if n, _ := fieldLoadName(x.X); n == "stores" {
					overAll = true
				}
			}
		})
		r.Check(and && overAll && other == "", ruleCaps, "NamedPartStores.Capabilities intersects over every store", fn.Pos(), "first = CapabilitiesOf(store); then &= for each further store", "the store set's capabilities are not the intersection over all configured stores: tx-free streaming is chosen although one store needs the transaction")
	}
	if fn := w.SSAFunc(relPartStore, "Capabilities.Has"); fn == nil {
		r.Anchor(ruleCaps, "Capabilities.Has")
	} else {
		// c & cap == cap
		good := false
		allInstrs(fn, false, func(_ *ssa.Function, ins ssa.Instruction) {
			if b, ok := ins.(*ssa.BinOp); ok && b.Op == token.EQL {
				if a, ok := b.X.(*ssa.BinOp); ok && a.Op == token.AND {
					good = true
				}
			}
		})
		r.Check(good, ruleCaps, "Capabilities.Has tests containment", fn.Pos(), "c & cap == cap", "Has does not test that the bit is contained in the set")
	}

	// ---- 3. handler declares length
	checkC40Handler(w, r, ruleLen)
	checkCacheFillCompletion(w, r)
	ruleDel := r.Rule("tx-free-read-answers-from-the-latest-outbox-entry", "F1",
		"the transaction-free GetPart of the outbox part store looks up the latest entry of the requested part, reads the inner store only when there is none and answers ErrPartNotFound when it is a pending delete: a part deleted by a concurrent overwrite must fail the download, not end it early as an empty part", 3)
	checkPartOutboxGetPart(w, r, ruleDel, []string{"getPartTxFree"})
	checkCacheStoreChecksCopy(w, r)
	checkCapabilitiesOverAllStores(w, r, ruleCaps)
	checkEmptyPartOnlyForExistingEntry(w, r, ruleDel)
	ruleKeep := r.Rule("bytes-delivered-with-an-error-are-kept", "F1",
		"every Read wrapper of the repository returns 0 after its inner Read only where the inner n is known to be 0, and ioutils.ReadChunk extends its buffer by n before looking at err (io.Reader may return n > 0 together with io.EOF)", 8)
	checkReadersKeepBytes(w, r, ruleKeep)
	r.NotCovered("the interleavings with overwrite, delete and GC themselves; that an open file descriptor keeps delivering unlinked content (filesystem semantics); remote stores (sftp, cloud drives) changing content under a reader; truncation below the HTTP layer is detected by the client through the declared Content-Length, which the rules show is always declared before the body and that the body is copied with the exact count")
}

// edgeFactsInto: facts established on the edge from -> to.
func edgeFactsInto(from, to *ssa.BasicBlock) []Fact {
	for k, s := range from.Succs {
		if s == to && len(from.Succs) == 2 {
			return edgeFacts(from, k)
		}
	}
	return nil
}

func checkC40Handler(w *World, r *Run, rule string) {
	var handler *ssa.Function
	for _, fn := range w.allFuncs {
		if fn.Pkg != nil && pkgRel(fn.Pkg.Pkg) == relServer && fn.Name() == "getObjectHandler" {
			handler = fn
		}
	}
	if handler == nil {
		for _, fn := range w.allFuncs {
			if fn.Pkg != nil && pkgRel(fn.Pkg.Pkg) == relServer && fn.Parent() == nil && strings.Contains(strings.ToLower(fn.Name()), "getobject") && !strings.Contains(fn.Name(), "Tagging") && !strings.Contains(fn.Name(), "Attributes") {
				if len(callsTo(fn, true, func(f *types.Func) bool { return f.Name() == "CopyN" })) > 0 {
					handler = fn
				}
			}
		}
	}
	if handler == nil {
		r.Anchor(rule, "server GetObject handler")
		return
	}
	isSetCL := func(ins ssa.Instruction) bool {
		c, ok := ins.(*ssa.Call)
		if !ok || !isCallNamed(c, "Set") || len(c.Call.Args) < 3 {
			return false
		}
		s, isStr := constString(c.Call.Args[1])
		return isStr && strings.EqualFold(s, "Content-Length")
	}
	nWH := 0
	allInstrs(handler, false, func(_ *ssa.Function, ins ssa.Instruction) {
		c, ok := ins.(ssa.CallInstruction)
		if !ok || !c.Common().IsInvoke() || c.Common().Method.Name() != "WriteHeader" {
			return
		}
		code, isc := intConst(c.Common().Args[0])
		if !isc || (code != 200 && code != 206) {
			return
		}
		nWH++
		// a Content-Length Set in the same block before it, or in a dominating block
		declared := false
		allInstrs(handler, false, func(_ *ssa.Function, i2 ssa.Instruction) {
			if isSetCL(i2) && instrDominates(i2, ins) {
				declared = true
			}
		})
		cons := fmt.Sprintf("GetObject handler: WriteHeader(%d) #%d after Content-Length", code, nWH)
		r.Check(declared, rule, cons, posOf(ins), "Content-Length set on every path before the status line", "the body is streamed without a declared length: a reader that ends early produces a response the client accepts as complete")
	})
	if nWH == 0 {
		r.Bad(rule, "GetObject handler: WriteHeader", handler.Pos(), "no 200/206 WriteHeader found")
	}
	// body copies: CopyN only (no io.Copy from the readers)
	nCopy := 0
	bad := ""
	allInstrs(handler, false, func(_ *ssa.Function, ins ssa.Instruction) {
		c, ok := ins.(*ssa.Call)
		if !ok {
			return
		}
		f := calleeObj(c)
		if f == nil {
			return
		}
		if f.Name() == "CopyN" {
			nCopy++
		}
		if f.Pkg() != nil && f.Pkg().Path() == "io" && (f.Name() == "Copy" || f.Name() == "CopyBuffer") {
			bad = w.Pos(posOf(c))
		}
	})
	r.Check(nCopy >= 3 && bad == "", rule, "GetObject handler: every range is copied with its exact size", handler.Pos(), fmt.Sprintf("%d CopyN sites, no unbounded io.Copy", nCopy), "an unbounded copy at "+bad+" (or a missing CopyN) streams whatever the reader yields")
}
