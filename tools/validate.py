#!/usr/bin/env python3-vt
import json, jsonschema, glob, sys
jsonschema.validate(json.load(open('/verif/MANIFEST.json')), json.load(open('/root/.vp/MANIFEST.schema.json')))
sch = json.load(open('/root/.vp/EVIDENCE.schema.json'))
n = 0
for f in sorted(glob.glob('/verif/evidence/C*.json')):
    jsonschema.validate(json.load(open(f)), sch); n += 1
print('manifest ok; %d evidence files ok' % n)
