#!/usr/bin/env python3
"""usage: seedkeep.py <Cnn> …   Stores a verified seeded change under /verif/seeded/<Cnn>/ and
records which checks report it: applies patch.diff to /repo, runs every check, restores /repo."""
import json, os, shutil, subprocess, sys, re, fcntl
lock = open("/tmp/seedout/.repo.lock", "w"); fcntl.flock(lock, fcntl.LOCK_EX)
SEEDOUT = os.environ.get("SEEDOUT", "/tmp/seedout")     # where the sub-agent delivered
SUB = os.environ.get("SEEDSUB", "")                       # e.g. "round2": store under /verif/seeded/<Cnn>/round2
for pid in sys.argv[1:]:
    src = f"{SEEDOUT}/{pid}"; dst = f"/verif/seeded/{pid}" + ("/" + SUB if SUB else "")
    v = json.load(open(f"{src}/verify.json"))
    if not (v["build"] == "ok" and v["existing_suite"] == "ok" and v["demo_on_unchanged_tree"] == "pass" and v["demo_on_changed_tree"] == "fail"):
        print(pid, "NOT CONFIRMED", v); continue
    os.makedirs(dst, exist_ok=True)
    shutil.copy(f"{src}/patch.diff", f"{dst}/patch.diff")
    if os.path.isdir(f"{dst}/demo"): shutil.rmtree(f"{dst}/demo")
    shutil.copytree(f"{src}/demo", f"{dst}/demo")
    try: meta = json.load(open(f"{src}/meta.json"))
    except Exception as e: meta = {"property": pid, "summary": "(agent meta.json unreadable: %s)" % e}
    assert subprocess.run(["git", "-C", "/repo", "diff", "--quiet"]).returncode == 0, "/repo not clean"
    subprocess.run(["git", "-C", "/repo", "apply", f"{dst}/patch.diff"], check=True)
    try:
        env = dict(os.environ, PVCHECK_OUT=f"{src}/ev")
        out = subprocess.run(["/verif/check", "all", "quick"], capture_output=True, text=True, env=env).stdout
    finally:
        subprocess.run(["git", "-C", "/repo", "checkout", "--", "."], check=True)
    caught = sorted(set(re.findall(r"^VIOLATION property=(C\d+)", out, re.M)))
    lines = [l for l in out.splitlines() if re.match(r"^\S+: C\d+: \[", l) and "(violated)" in l or "(undecided)" in l]
    meta["verification"] = {"build": v["build"], "existing_suite_on_changed_tree": v["existing_suite"],
                            "demo_on_unchanged_tree": v["demo_on_unchanged_tree"], "demo_on_changed_tree": v["demo_on_changed_tree"],
                            "confirmed_by": "tools/seedverify.sh in a fresh worktree of /repo HEAD"}
    if v.get("note"): meta["verification"]["note"] = v["note"]
    meta["caught_by"] = caught
    meta["reports"] = [l[:400] for l in lines[:6]]
    meta["verdict"] = ("caught by " + ", ".join(caught)) if caught else "not caught"
    json.dump(meta, open(f"{dst}/meta.json", "w"), indent=1, ensure_ascii=False)
    print(pid, meta["verdict"])
