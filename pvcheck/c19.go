package main

import (
	"fmt"
	"go/types"
	"sort"
	"strings"

	"golang.org/x/tools/go/ssa"
)

// C19 — caches never serve bytes that were not stored.
func init() { register("C19", checkC19) }

const (
	relCache     = "internal/cache"
	relPersistor = "internal/cache/persistor"
	relEviction  = "internal/cache/evictionpolicy"
	relFSPersist = "internal/cache/persistor/filesystem"
)

// implsOf lists pithos types implementing the interface.
func implsOf(w *World, iface *types.Interface) []*types.Named {
	var out []*types.Named
	for _, p := range w.All {
		if !strings.HasPrefix(pkgRel(p.Types), "internal/") {
			continue
		}
		sc := p.Types.Scope()
		for _, n := range sc.Names() {
			tn, ok := sc.Lookup(n).(*types.TypeName)
			if !ok || tn.IsAlias() {
				continue
			}
			named, ok := tn.Type().(*types.Named)
			if !ok {
				continue
			}
			if _, isIface := named.Underlying().(*types.Interface); isIface {
				continue
			}
			if types.Implements(types.NewPointer(named), iface) || types.Implements(named, iface) {
				out = append(out, named)
			}
		}
	}
	sort.Slice(out, func(i, j int) bool { return out[i].String() < out[j].String() })
	return out
}

// sharedStateAccesses lists the instructions of fn (deep) that read or write a map held in
// a field of the receiver, with whether the access writes.
func sharedStateAccesses(fn *ssa.Function) (out []ssa.Instruction, writes []bool) {
	if len(fn.Params) == 0 {
		return
	}
	recv := fn.Params[0]
	isRecvMap := func(v ssa.Value) bool {
		if _, isMap := v.Type().Underlying().(*types.Map); !isMap {
			return false
		}
		n, b := fieldLoadName(v)
		return n != "" && sliceContains(b, false, func(x ssa.Value) bool { return x == ssa.Value(recv) })
	}
	allInstrs(fn, true, func(_ *ssa.Function, ins ssa.Instruction) {
		switch x := ins.(type) {
		case *ssa.MapUpdate:
			if isRecvMap(x.Map) {
				out, writes = append(out, ins), append(writes, true)
			}
		case *ssa.Lookup:
			if isRecvMap(x.X) {
				out, writes = append(out, ins), append(writes, false)
			}
		case *ssa.Range:
			if isRecvMap(x.X) {
				out, writes = append(out, ins), append(writes, false)
			}
		case *ssa.Call:
			if isBuiltinCall(x, "delete") && isRecvMap(x.Call.Args[0]) {
				out, writes = append(out, ins), append(writes, true)
			}
		}
	})
	return
}

func mutexFieldOf(T *types.Named) string {
	st, ok := T.Underlying().(*types.Struct)
	if !ok {
		return ""
	}
	for i := 0; i < st.NumFields(); i++ {
		t := st.Field(i).Type().String()
		if t == "sync.Mutex" || t == "sync.RWMutex" {
			return st.Field(i).Name()
		}
	}
	return ""
}

func checkC19(w *World, r *Run) {
	ruleLock := r.Rule("cache-shared-state-is-lock-protected", "F5",
		"GenericCache calls its eviction policy only with its mutex held; every persistor method GenericCache can call without that mutex guards each access to its in-memory map with the persistor's own lock (write lock for writes); eviction-policy methods are called from nowhere but GenericCache and other policies", 14)
	ruleAtomic := r.Rule("values-are-published-whole", "F1",
		"the filesystem persistor never truncates or writes an entry's final name in place: content reaches it only through os.Rename of a completely written and closed temp file; the in-memory persistor assigns the entry only after the whole value was read; GenericCache removes the entry when a Store failed", 4)
	rulePart := r.Rule("part-cache-is-keyed-by-the-part-id", "F9",
		"cachePartStore derives every cache key from its own partId parameter, fills the cache on a miss under that same key from the inner store's GetPart of that id, and removes the key when the fill failed", 4)

	gc := w.Named(relCache, "GenericCache")
	if gc == nil {
		r.Anchor(ruleLock, "cache.GenericCache")
		return
	}
	// ---- 1. GenericCache call sites
	unlockedPersistor := map[string]bool{}
	ms := types.NewMethodSet(types.NewPointer(gc))
	for i := 0; i < ms.Len(); i++ {
		fn := w.Prog.FuncValue(ms.At(i).Obj().(*types.Func))
		if fn == nil || len(fn.Blocks) == 0 {
			continue
		}
		ord := map[string]int{}
		allInstrs(fn, true, func(_ *ssa.Function, ins ssa.Instruction) {
			c, ok := ins.(ssa.CallInstruction)
			if !ok || !c.Common().IsInvoke() {
				return
			}
			fld, _ := fieldLoadName(c.Common().Value)
			m := c.Common().Method.Name()
			switch fld {
			case "cacheEvictionPolicy":
				key := "GenericCache." + fn.Name() + " → policy." + m
				ord[key]++
				cons := fmt.Sprintf("%s #%d", key, ord[key])
				r.Check(lockHeldAt(ins, "mu", false), ruleLock, cons, posOf(ins), "GenericCache.mu held", "the eviction policy (unsynchronised maps and heap) is called without GenericCache.mu: concurrent Set/Get/Remove corrupt its bookkeeping or crash with a concurrent map access")
			case "cachePersistor":
				if !lockHeldAt(ins, "mu", false) {
					unlockedPersistor[m] = true
				}
			}
		})
	}
	// ---- persistors
	if pi := w.Iface(relPersistor, "CachePersistor"); pi == nil {
		r.Anchor(ruleLock, "persistor.CachePersistor")
	} else {
		var ul []string
		for m := range unlockedPersistor {
			ul = append(ul, m)
		}
		sort.Strings(ul)
		for _, T := range implsOf(w, pi) {
			short := pkgRel(T.Obj().Pkg())
			short = short[strings.LastIndex(short, "/")+1:] + "." + T.Obj().Name()
			mu := mutexFieldOf(T)
			tms := types.NewMethodSet(types.NewPointer(T))
			for i := 0; i < tms.Len(); i++ {
				mobj := tms.At(i).Obj().(*types.Func)
				fn := w.Prog.FuncValue(mobj)
				if fn == nil || len(fn.Blocks) == 0 {
					continue
				}
				acc, wr := sharedStateAccesses(fn)
				cons := short + "." + mobj.Name() + " guards its map accesses"
				if len(acc) == 0 {
					if _, isIfaceMethod := map[string]bool{"Store": true, "Get": true, "Remove": true, "RemoveAll": true}[mobj.Name()]; isIfaceMethod {
						r.OK(ruleLock, cons, fn.Pos(), "no in-memory shared state")
					}
					continue
				}
				bad := ""
				for k, a := range acc {
					held := mu != "" && lockHeldAt(a, mu, !wr[k])
					if !held {
						bad = w.Pos(posOf(a))
					}
				}
				detail := "every access under " + mu
				if len(ul) > 0 {
					detail += " (GenericCache calls " + strings.Join(ul, ", ") + " without its own mutex)"
				}
				r.Check(bad == "", ruleLock, cons, fn.Pos(), detail, "the map access at "+bad+" is not under the persistor's own lock although GenericCache calls persistor methods ("+strings.Join(ul, ", ")+") concurrently without its mutex: concurrent map read and write crashes the process or serves a torn value")
			}
		}
	}
	// ---- policies called only from the cache / other policies
	if ei := w.Iface(relEviction, "CacheEvictionPolicy"); ei == nil {
		r.Anchor(ruleLock, "evictionpolicy.CacheEvictionPolicy")
	} else {
		outside := ""
		for _, fn := range w.allFuncs {
			if fn.Pkg == nil {
				continue
			}
			rel := pkgRel(fn.Pkg.Pkg)
			if rel == relCache || strings.HasPrefix(rel, relEviction) {
				continue
			}
			allInstrs(fn, false, func(_ *ssa.Function, ins ssa.Instruction) {
				if c, ok := ins.(ssa.CallInstruction); ok && c.Common().IsInvoke() {
					if n := recvNamedOfInvoke(c); n != nil && n.Obj().Name() == "CacheEvictionPolicy" {
						outside = w.Pos(posOf(ins))
					}
				}
			})
		}
		r.Check(outside == "", ruleLock, "eviction policies are driven only by GenericCache", 0, "no other caller", "an eviction policy method is called at "+outside+", outside GenericCache's mutex discipline")
	}

	// ---- 2. whole values
	if fn := w.SSAFunc(relFSPersist, "filesystemCachePersistor.Store"); fn == nil {
		r.Anchor(ruleAtomic, "filesystemCachePersistor.Store")
	} else {
		var final ssa.Value
		allInstrs(fn, false, func(_ *ssa.Function, ins ssa.Instruction) {
			if c, ok := ins.(*ssa.Call); ok && isCallNamed(c, "getFilename") {
				final = c
			}
		})
		inPlace, renamed := "", false
		var closeCall, rename *ssa.Call
		allInstrs(fn, false, func(_ *ssa.Function, ins ssa.Instruction) {
			c, ok := ins.(*ssa.Call)
			if !ok {
				return
			}
			f := calleeObj(c)
			if f == nil || f.Pkg() == nil {
				return
			}
			if f.Pkg().Path() == "os" {
				switch f.Name() {
				case "OpenFile", "Create", "WriteFile":
					if final != nil && stripConv(c.Call.Args[0]) == final {
						inPlace = w.Pos(posOf(c))
					}
				case "Rename":
					if final != nil && stripConv(c.Call.Args[1]) == final && sliceContains(c.Call.Args[0], false, func(x ssa.Value) bool { return isCallNamed(x, "CreateTemp", "Name") }) {
						renamed, rename = true, c
					}
				}
			}
			if f.Name() == "Close" {
				closeCall = c
			}
		})
		closedFirst := rename != nil && closeCall != nil && instrDominates(closeCall, rename)
		if closedFirst {
			closedFirst = false
			for _, f := range factsAt(rename.Block()) {
				if f.Kind == IsNil && sliceContains(f.Val, false, func(x ssa.Value) bool { return x == ssa.Value(closeCall) }) {
					closedFirst = true
				}
			}
		}
		r.Check(inPlace == "" && renamed, ruleAtomic, "filesystem persistor publishes an entry by rename only", fn.Pos(), "temp file → os.Rename(temp, final)", "the entry's final file is opened for writing in place ("+inPlace+") or never renamed into: a concurrent Get reads a truncated, half-written value")
		r.Check(closedFirst, ruleAtomic, "filesystem persistor renames only a completely written and closed temp file", posOrFn(rename, fn), "Close() == nil dominates the rename", "the temp file is renamed into place before it was written and closed successfully")
	}
	if fn := w.SSAFunc("internal/cache/persistor/inmemory", "inMemoryCachePersistor.Store"); fn == nil {
		r.Anchor(ruleAtomic, "inMemoryCachePersistor.Store")
	} else {
		ok := false
		allInstrs(fn, false, func(_ *ssa.Function, ins ssa.Instruction) {
			mu, isMU := ins.(*ssa.MapUpdate)
			if !isMU {
				return
			}
			for _, f := range factsAt(mu.Block()) {
				if f.Kind == IsNil && isErrorType(f.Val.Type()) {
					if c, _ := extractOf(f.Val); c != nil && isCallNamed(c, "ReadAll") {
						if vc, _ := extractOf(mu.Value); vc == c {
							ok = true
						}
					}
				}
			}
		})
		r.Check(ok, ruleAtomic, "in-memory persistor assigns only completely read values", fn.Pos(), "map[key] = ReadAll result on the nil-error edge", "a value whose read failed part-way is stored")
	}
	if fn := w.SSAFunc(relCache, "GenericCache.Set"); fn == nil {
		r.Anchor(ruleAtomic, "GenericCache.Set")
	} else {
		var store *ssa.Call
		allInstrs(fn, false, func(_ *ssa.Function, ins ssa.Instruction) {
			if c, ok := ins.(*ssa.Call); ok && isCallNamed(c, "Store") {
				store = c
			}
		})
		ok := false
		if store != nil {
			// on the error edge every path to a return passes cachePersistor.Remove(key)
			for _, b := range fn.Blocks {
				for k := range b.Succs {
					if len(b.Succs) != 2 {
						continue
					}
					for _, f := range edgeFacts(b, k) {
						if f.Kind == NonNil && sliceContains(f.Val, false, func(x ssa.Value) bool { return x == ssa.Value(store) }) {
							tgt := b.Succs[k]
							isRemove := func(i ssa.Instruction) bool {
								c, ok := i.(ssa.CallInstruction)
								if !ok || !c.Common().IsInvoke() || c.Common().Method.Name() != "Remove" {
									return false
								}
								n, _ := fieldLoadName(c.Common().Value)
								return n == "cachePersistor"
							}
							first := firstInstr(tgt)
							leaks := sinksReachable(first, isRemove, nil, func(i ssa.Instruction) bool { _, isRet := i.(*ssa.Return); return isRet })
							if isRemove(first) {
								leaks = nil
							}
							ok = len(leaks) == 0
						}
					}
				}
			}
		}
		r.Check(ok, ruleAtomic, "GenericCache.Set removes the entry when Store failed", posOrFn(store, fn), "Store error → cachePersistor.Remove(key) before returning", "after a failed Store the (possibly partial) entry stays retrievable")
	}

	// ---- 3. part cache
	for _, m := range []string{"GetPart", "PutPart", "DeletePart"} {
		fn := w.SSAFunc(relCacheStore, "cachePartStore."+m)
		if fn == nil {
			r.Anchor(rulePart, "cachePartStore."+m)
			continue
		}
		var pid *ssa.Parameter
		for _, p := range fn.Params {
			if nt, ok := types.Unalias(p.Type()).(*types.Named); ok && nt.Obj().Name() == "PartId" {
				pid = p
			}
		}
		keyOK, nKeys := pid != nil, 0
		allInstrs(fn, true, func(_ *ssa.Function, ins ssa.Instruction) {
			c, ok := ins.(*ssa.Call)
			if !ok || !isCallNamed(c, "getPartCacheKey") {
				return
			}
			nKeys++
			if unspill(stripConv(c.Call.Args[0])) != ssa.Value(pid) {
				keyOK = false
			}
		})
		// every cache.* call uses a key derived from getPartCacheKey
		allInstrs(fn, true, func(_ *ssa.Function, ins ssa.Instruction) {
			c, ok := ins.(ssa.CallInstruction)
			if !ok || !c.Common().IsInvoke() {
				return
			}
			if rn := recvNamedOfInvoke(c); rn == nil || rn.Obj().Name() != "Cache" {
				return
			}
			k := c.Common().Args[0]
			fromKey := sliceContains(k, false, func(x ssa.Value) bool {
				if isCallNamed(x, "getPartCacheKey") {
					return true
				}
				if fv, ok := x.(*ssa.FreeVar); ok {
					if b := bindingOf(fv); b != nil {
						return sliceContains(b, false, func(y ssa.Value) bool { return isCallNamed(y, "getPartCacheKey") })
					}
				}
				return false
			})
			if !fromKey {
				keyOK = false
			}
		})
		r.Check(keyOK && nKeys > 0, rulePart, "cachePartStore."+m+" keys the cache by its own part id", fn.Pos(), "getPartCacheKey(partId) for every cache call", "a cache entry is read, written or removed under a key that is not derived from the operation's part id: another part's bytes are served")
	}
	if fn := w.SSAFunc(relCacheStore, "cachePartStore.GetPart"); fn != nil {
		// the fill goroutine: Set(cacheKey, pipe) and Remove on failure
		fillOK := false
		for _, lit := range fn.AnonFuncs {
			var set *ssa.Call
			allInstrs(lit, false, func(_ *ssa.Function, ins ssa.Instruction) {
				if c, ok := ins.(*ssa.Call); ok && c.Call.IsInvoke() && c.Call.Method.Name() == "Set" {
					set = c
				}
			})
			if set == nil {
				continue
			}
			isRemove := func(i ssa.Instruction) bool {
				c, ok := i.(ssa.CallInstruction)
				return ok && c.Common().IsInvoke() && c.Common().Method.Name() == "Remove"
			}
			leak := false
			for _, b := range lit.Blocks {
				for k := range b.Succs {
					if len(b.Succs) != 2 {
						continue
					}
					for _, f := range edgeFacts(b, k) {
						if f.Kind == NonNil && f.Val == ssa.Value(set) {
							first := firstInstr(b.Succs[k])
							if !isRemove(first) && len(sinksReachable(first, isRemove, nil, func(i ssa.Instruction) bool { _, isRet := i.(*ssa.Return); return isRet })) > 0 {
								leak = true
							}
							fillOK = !leak
						}
					}
				}
			}
		}
		r.Check(fillOK, rulePart, "cachePartStore.GetPart removes the key when filling the cache failed", fn.Pos(), "Set error → cache.Remove(cacheKey) on every path", "a fill that failed half-way (reader closed early, part too large) leaves its entry behind")
	}
	checkCacheFillCompletion(w, r)
	r.NotCovered("races between a cache fill and a concurrent delete/replace of the same part (a fill that started before the delete can re-insert after the after-commit invalidation), eviction-policy arithmetic, and the runtime absence of data races as such — the rules decide the lock discipline and the publish-whole-values shape that are necessary for it")
}
