package main

import (
	"strings"

	"golang.org/x/tools/go/ssa"
)

// C02 — versioning: every live version stays addressable and latest is newest.
func init() { register("C02", checkC02) }

func checkC02(w *World, r *Run) {
	stmts := collectSQL(w)
	checkSQLSiblings(w, r, stmts, map[string]bool{"object": true}, 21)
	rulePromo := r.Rule("promotion-order-equals-version-listing-order", "F4",
		"the statement that picks the version to promote after the current version was deleted orders candidates by the same recency expression (and direction) as the version listing's per-key order; otherwise the row flagged is_latest is not the first version the listing shows for the key", 2)
	ruleDestr := r.Rule("key-only-delete-in-versioned-bucket-destroys-nothing", "F1",
		"in (*sqlMetadataStore).DeleteObject every data-destroying call (removePartRowsByObjectId, DeleteObjectById*, tag/user-metadata deletes) is reachable only on paths that established opts.VersionID != nil, versioningStatus == Suspended (null version only) or versioningStatus ≠ Enabled", 10)
	ruleNullOnly := r.Rule("suspended-delete-touches-null-version-only", "F1",
		"the destructive calls on the Suspended key-only path act on the row returned by FindNullObjectVersionByBucketNameAndKey", 4)
	ruleVersionSel := r.Rule("version-statements-select-by-version-id", "F4",
		"the by-version lookup selects on bucket_name, key and version_id (and upload_status); the null-version lookup on version_id = 'null'", 4)
	ruleIns := r.Rule("enabled-writes-insert-new-version", "F1",
		"in the versioning-Enabled branch of PutObject and CompleteMultipartUpload the saved entity carries a VersionID from NewRandomUploadId and, for PutObject, never an Id of an existing row", 2)
	ruleInPlace := r.Rule("in-place-rewrite-only-of-null-version", "F1",
		"a fresh entity that takes over the Id of a loaded row (content rewrite in place) takes it from the null-version row, a pending-upload row, or under a guard that the row's VersionID is nil/\"null\"", 2)

	// 1. promotion order
	var listingOrder string
	for _, s := range stmts {
		if s.Entity == "object" && s.Dialect == "sqlite" && strings.HasPrefix(s.Name, "findObjectVersionsBy") {
			items := splitTop(sqlClause(s.Toks, "ORDER", "BY"), ",")
			if len(items) == 2 {
				listingOrder = joinToks(items[1])
			}
		}
	}
	for _, s := range stmts {
		if s.Entity != "object" || s.Name != "findLatestObjectByBucketNameAndKeyExcludingIDStmt" {
			continue
		}
		ob := joinToks(sqlClause(normalizeDialect(s.Toks), "ORDER", "BY"))
		cons := s.Dialect + " object." + s.Name + " ORDER BY"
		if listingOrder == "" {
			r.Bad(rulePromo, cons, s.Pos, "version listing ORDER BY not found (anchor lost)")
			continue
		}
		if ob != listingOrder {
			// the finding is identified by the deviating order itself: a different wrong order is a new violation
			cons += " " + strings.ToLower(ob) + " ≠ listing order"
		}
		r.Check(ob == listingOrder, rulePromo, cons, s.Pos, "ORDER BY "+ob, "promotion orders by ["+ob+"] but versions are listed per key by ["+listingOrder+"]: after deleting the current version a version other than the first listed one can become current")
	}

	// 2./3. DeleteObject
	del := w.SSAFunc(relSQLStore, "sqlMetadataStore.DeleteObject")
	if del == nil {
		r.Anchor(ruleDestr, "sqlMetadataStore.DeleteObject")
	} else {
		destructive := func(c ssa.CallInstruction) bool {
			n := ""
			if c.Common().IsInvoke() {
				n = c.Common().Method.Name()
			} else if sc := c.Common().StaticCallee(); sc != nil {
				n = sc.Name()
			}
			return strings.HasPrefix(n, "removePartRows") || strings.HasPrefix(n, "DeleteObjectById") || n == "DeleteTagsByObjectId" || n == "DeleteUserMetadataByObjectId"
		}
		perName := map[string]int{}
		allInstrs(del, false, func(_ *ssa.Function, ins ssa.Instruction) {
			c, ok := ins.(ssa.CallInstruction)
			if !ok || !destructive(c) {
				return
			}
			name := ""
			if c.Common().IsInvoke() {
				name = c.Common().Method.Name()
			} else {
				name = c.Common().StaticCallee().Name()
			}
			perName[name]++
			cons := "(*sqlMetadataStore).DeleteObject → " + name + " #" + string(rune('0'+perName[name]))
			suspended := false
			guard := everyPathEstablishes(c.Block(), func(f Fact) bool {
				if f.Kind == NonNil {
					if n, _ := fieldLoadName(f.Val); n == "VersionID" {
						return true
					}
				}
				if f.Const != nil {
					if s, ok := constString(f.Const); ok {
						if f.Kind == EqConst && s == "Suspended" {
							suspended = true
							return true
						}
						if f.Kind == NeConst && s == "Enabled" {
							return true
						}
					}
				}
				return false
			})
			r.Check(guard, ruleDestr, cons, posOf(c), "only with an explicit version id, on the Suspended null-version path, or in an unversioned bucket", "reachable on the key-only path of a versioning-Enabled bucket: a plain delete would destroy data instead of adding a delete marker")
			if guard && suspended {
				// Suspended key-only path: argument must derive from FindNullObjectVersion…
				onlySusp := true
				for _, f := range factsAt(c.Block()) {
					if f.Kind == NonNil {
						if n, _ := fieldLoadName(f.Val); n == "VersionID" {
							onlySusp = false
						}
					}
					if f.Kind == NeConst && f.Const != nil {
						if s, _ := constString(f.Const); s == "Enabled" {
							onlySusp = false
						}
					}
				}
				if onlySusp {
					src := map[string]bool{}
					for _, a := range c.Common().Args {
						for _, s := range findSourcesOf(a) {
							src[s] = true
						}
					}
					ks := keys(src)
					r.Check(len(ks) == 1 && ks[0] == "FindNullObjectVersionByBucketNameAndKey", ruleNullOnly, cons, posOf(c), "acts on the null version row", "on the Suspended key-only path this call acts on a row from "+strings.Join(ks, ",")+" instead of the null version")
				}
			}
		})
	}

	// 4. version lookups
	for _, s := range stmts {
		if s.Entity != "object" {
			continue
		}
		where := sqlClause(normalizeDialect(s.Toks), "WHERE")
		switch s.Name {
		case "findObjectByBucketNameAndKeyAndVersionIDStmt":
			ok := hasConjunct(where, "bucket_name = $1") && hasConjunct(where, "key = $2") && hasConjunct(where, "version_id = $3") && hasConjunct(where, "upload_status = $4")
			r.Check(ok, ruleVersionSel, s.Dialect+" object."+s.Name, s.Pos, joinToks(where), "by-version lookup does not select on bucket_name, key, version_id and upload_status: "+joinToks(where))
		case "findNullObjectVersionByBucketNameAndKeyStmt":
			ok := hasConjunct(where, "bucket_name = $1") && hasConjunct(where, "key = $2") && hasConjunct(where, "version_id = 'null'") && hasConjunct(where, "upload_status = $3")
			r.Check(ok, ruleVersionSel, s.Dialect+" object."+s.Name, s.Pos, joinToks(where), "null-version lookup does not select version_id = 'null': "+joinToks(where))
		}
	}

	// 5. enabled inserts
	for _, name := range []string{"PutObject", "CompleteMultipartUpload"} {
		fn := w.SSAFunc(relSQLStore, "sqlMetadataStore."+name)
		if fn == nil {
			r.Anchor(ruleIns, "sqlMetadataStore."+name)
			continue
		}
		ok, why := enabledBranchInserts(fn, name == "PutObject")
		r.Check(ok, ruleIns, "(*sqlMetadataStore)."+name+" Enabled branch", fn.Pos(), "VersionID := NewRandomUploadId(); insert", why)
	}

	// 6. in-place rewrites
	perFn := map[string]int{}
	for _, c := range objectRepoWrites(w) {
		o := originOfEntity(c.Common().Args[2])
		if o.kind != "replace" {
			continue
		}
		key := shortSQLFunc(c.Parent()) + " → " + c.Common().Method.Name() + "(" + o.String() + ")"
		perFn[key]++
		cons := key
		allowed := true
		for _, s := range o.sources {
			if _, ok := c13AllowedRowSources[s]; !ok {
				allowed = false
			}
		}
		r.Check(allowed || nullVersionGuarded(c), ruleInPlace, cons, posOf(c), "null version / pending upload only", "an existing row that may be a real version is rewritten in place (content, size, ETag): a returned version id no longer reads back its original content")
	}
	checkC02PromotionUnconditional(w, r)
	checkVersionOrderRanksNull(w, r)
	if c := c20Context(w, r); c != nil {
		checkCacheMutators(w, r, c)
	}
	r.NotCovered("which version is current over arbitrary histories; readability of each version's part data (C08/C40); Last-Modified stability (C13)")
}
