package main

import (
	"fmt"
	"go/constant"
	"go/types"
	"sort"
	"strings"

	"golang.org/x/tools/go/ssa"
)

// C03 — a failed operation leaves no observable trace.
// C10 — operations are all-or-nothing across process crashes.
func init() {
	register("C03", checkC03)
	register("C10", checkC10)
}

const (
	relFSStore    = "internal/storage/metadatapart/partstore/filesystem"
	relSFTPStore  = "internal/storage/metadatapart/partstore/sftp"
	relCacheStore = "internal/storage/metadatapart/partstore/cache"
)

// packages whose functions must not drop a storage error
func c03Scope(rel string) bool {
	switch {
	case rel == relMP, rel == relSQLStore, rel == relDB, rel == relFSStore:
		return true
	case strings.HasPrefix(rel, relDBRepo+"/sqlite/repository/"), strings.HasPrefix(rel, relDBRepo+"/pgx/repository/"):
		return true
	}
	return false
}

// callees whose error matters for atomicity
func c03Callee(c ssa.CallInstruction) (string, bool) {
	com := c.Common()
	if com.IsInvoke() {
		n := recvNamedOfInvoke(c)
		if n == nil || n.Obj().Pkg() == nil {
			return "", false
		}
		rel := pkgRel(n.Obj().Pkg())
		name := n.Obj().Name() + "." + com.Method.Name()
		if n.Obj().Pkg().Path() == "database/sql" {
			return "sql." + name, true
		}
		switch {
		case n.Obj().Name() == "MetadataStore", n.Obj().Name() == "PartStore", n.Obj().Name() == "Database":
			return name, true
		case strings.Contains(rel, "/repository/") && n.Obj().Name() == "Repository":
			return rel[strings.LastIndex(rel, "/")+1:] + "." + name, true
		}
		return "", false
	}
	f := calleeObj(c)
	if f == nil || f.Pkg() == nil {
		return "", false
	}
	path := f.Pkg().Path()
	rel := pkgRel(f.Pkg())
	switch {
	case path == "database/sql":
		switch f.Name() {
		case "ExecContext", "QueryContext", "Scan", "RowsAffected", "Commit", "Err", "Next":
			return "sql." + f.Name(), f.Name() != "Next"
		}
		return "", false
	case c03Scope(rel), rel == relChecksum, rel == relMDStore:
		return objName(f), true
	}
	return "", false
}

func lastResultIsError(sig *types.Signature) (int, bool) {
	n := sig.Results().Len()
	if n == 0 || !isErrorType(sig.Results().At(n-1).Type()) {
		return 0, false
	}
	return n, true
}

func checkC03(w *World, r *Run) {
	ruleErr := r.Rule("storage-errors-are-never-dropped", "F8",
		"in the storage, the SQL metadata store, the repositories, the filesystem part store and the transaction controller no error returned by a metadata-store, part-store, repository, database/sql or in-package call is discarded on a path that can still report success", 400)
	ruleRb := r.Rule("rollback-runs-every-hook", "F1",
		"TxController.Rollback runs every registered rollback hook (no return inside the loop) after rolling the driver transaction back; Commit runs every pre-commit hook before the driver commit and every after-commit hook only after it", 4)
	ruleHooks := r.Rule("final-names-change-only-inside-transaction-hooks", "F6",
		"with a transaction, the filesystem and sftp part stores touch the final name of a part only inside functions registered with OnPreCommit / OnAfterCommit / OnRollback, register a rollback and an after-commit hook wherever they register a pre-commit hook, and register the hooks only after the temp file was written and closed", 8)
	ruleCache := r.Rule("side-caches-change-after-commit", "F1",
		"cachePartStore mutates its cache inside an OnAfterCommit hook whenever it was given a transaction", 2)

	// ---- 1. error discipline
	for _, fn := range w.allFuncs {
		if fn.Pkg == nil || !c03Scope(pkgRel(fn.Pkg.Pkg)) {
			continue
		}
		ord := map[string]int{}
		for _, b := range fn.Blocks {
			for _, ins := range b.Instrs {
				c, ok := ins.(*ssa.Call)
				if !ok {
					continue
				}
				name, want := c03Callee(c)
				if !want {
					continue
				}
				n, hasErr := lastResultIsError(c.Common().Signature())
				if !hasErr {
					continue
				}
				used := false
				if n == 1 {
					used = c.Referrers() != nil && len(*c.Referrers()) > 0
				} else {
					for _, ref := range *c.Referrers() {
						if e, ok := ref.(*ssa.Extract); ok && e.Index == n-1 && e.Referrers() != nil && len(*e.Referrers()) > 0 {
							used = true
						}
					}
				}
				key := funcName(fn) + " → " + name
				ord[key]++
				cons := key
				if ord[key] > 1 {
					cons = fmt.Sprintf("%s #%d", key, ord[key])
				}
				if used {
					r.OK(ruleErr, cons, posOf(c), "error consumed")
					continue
				}
				// dropped: acceptable only when every continuation already fails
				succ := sinksReachable(c, nil, nil, func(i ssa.Instruction) bool {
					ret, ok := i.(*ssa.Return)
					return ok && !isFailureReturn(ret)
				})
				if len(succ) == 0 && errorResultIndex(fn) >= 0 {
					r.OK(ruleErr, cons, posOf(c), "dropped on a path that reports another error anyway")
					continue
				}
				r.Bad(ruleErr, cons, posOf(c), "the error of "+name+" is discarded and the function can still report success: a failed step is acknowledged as done (or its partial effect is committed)")
			}
		}
	}

	// ---- 2. controller
	if fn := w.SSAFunc(relDB, "TxController.Rollback"); fn == nil {
		r.Anchor(ruleRb, "TxController.Rollback")
	} else {
		var loopBody []*ssa.BasicBlock
		hookCall := false
		for _, b := range fn.Blocks {
			if strings.Contains(b.Comment, "rangeindex.body") || strings.Contains(b.Comment, "range") && strings.Contains(b.Comment, "body") {
				loopBody = append(loopBody, b)
			}
		}
		retInLoop := false
		for _, body := range loopBody {
			for _, b := range fn.Blocks {
				if b == body || body.Dominates(b) {
					for _, ins := range b.Instrs {
						if _, ok := ins.(*ssa.Return); ok {
							retInLoop = true
						}
						if c, ok := ins.(*ssa.Call); ok {
							if _, isBuiltin := c.Call.Value.(*ssa.Builtin); !isBuiltin && c.Call.StaticCallee() == nil && !c.Call.IsInvoke() {
								hookCall = true
							}
						}
					}
				}
			}
		}
		var drv ssa.Instruction
		allInstrs(fn, false, func(_ *ssa.Function, ins ssa.Instruction) {
			if c, ok := ins.(*ssa.Call); ok && isCallNamed(c, "Rollback") {
				if f := calleeObj(c); f != nil && f.Pkg() != nil && f.Pkg().Path() == "database/sql" {
					drv = c
				}
			}
		})
		r.Check(len(loopBody) > 0 && hookCall && !retInLoop, ruleRb, "TxController.Rollback runs all rollback hooks", fn.Pos(), "loop over onRollback without early return", "Rollback stops at the first failing hook (or never calls them): later stores keep their published files although the database rolled back")
		r.Check(drv != nil, ruleRb, "TxController.Rollback rolls the driver transaction back", fn.Pos(), "t.tx.Rollback()", "the driver transaction is not rolled back")
	}
	if fn := w.SSAFunc(relDB, "TxController.Commit"); fn == nil {
		r.Anchor(ruleRb, "TxController.Commit")
	} else {
		var drv *ssa.Call
		var hookCalls []*ssa.Call
		allInstrs(fn, false, func(_ *ssa.Function, ins ssa.Instruction) {
			c, ok := ins.(*ssa.Call)
			if !ok {
				return
			}
			if f := calleeObj(c); f != nil && f.Pkg() != nil && f.Pkg().Path() == "database/sql" && f.Name() == "Commit" {
				drv = c
			}
			if _, isBuiltin := c.Call.Value.(*ssa.Builtin); !isBuiltin && c.Call.StaticCallee() == nil && !c.Call.IsInvoke() {
				hookCalls = append(hookCalls, c)
			}
		})
		pre, post := 0, 0
		for _, h := range hookCalls {
			fromPre := sliceContains(h.Call.Value, false, func(x ssa.Value) bool { n, _ := fieldLoadName(x); return n == "onPreCommit" })
			fromPost := sliceContains(h.Call.Value, false, func(x ssa.Value) bool { n, _ := fieldLoadName(x); return n == "onAfterCommit" })
			if fromPre && drv != nil && canReach(h, drv) && !canReach(drv, h) {
				pre++
			}
			if fromPost && drv != nil && instrDominates(drv, h) {
				// only on the success edge of the driver commit
				for _, f := range factsAt(h.Block()) {
					if f.Kind == IsNil && sliceContains(f.Val, false, func(x ssa.Value) bool { return x == ssa.Value(drv) }) {
						post++
					}
				}
			}
		}
		r.Check(drv != nil && pre == 1, ruleRb, "TxController.Commit runs pre-commit hooks before the driver commit", fn.Pos(), "onPreCommit loop → tx.Commit()", "pre-commit hooks do not run strictly before the driver commit: a part file is published after the rows that reference it (or never)")
		r.Check(drv != nil && post == 1, ruleRb, "TxController.Commit runs after-commit hooks only after a successful driver commit", fn.Pos(), "tx.Commit() == nil → onAfterCommit loop", "after-commit hooks (which delete backups and superseded files) can run although the commit failed")
	}

	// ---- 3. part stores
	for _, st := range []struct{ rel, typ string }{{relFSStore, "filesystemPartStore"}, {relSFTPStore, "sftpPartStore"}} {
		for _, m := range []string{"PutPart", "DeletePart"} {
			fn := w.SSAFunc(st.rel, st.typ+"."+m)
			cons := st.typ + "." + m
			if fn == nil {
				r.Anchor(ruleHooks, cons)
				continue
			}
			tx := fn.Params[2]
			var final ssa.Value
			allInstrs(fn, false, func(_ *ssa.Function, ins ssa.Instruction) {
				if c, ok := ins.(*ssa.Call); ok && isCallNamed(c, "getFilename") {
					final = c
				}
			})
			if final == nil {
				r.Unk(ruleHooks, cons, fn.Pos(), "no getFilename call: cannot tell the final name")
				continue
			}
			bad := ""
			reg := map[string]ssa.Instruction{}
			for _, b := range fn.Blocks {
				underTx := false
				for _, f := range factsAt(b) {
					if f.Kind == NonNil && unspill(f.Val) == ssa.Value(tx) {
						underTx = true
					}
				}
				for _, ins := range b.Instrs {
					c, ok := ins.(ssa.CallInstruction)
					if !ok {
						continue
					}
					if c.Common().IsInvoke() && unspill(c.Common().Value) == ssa.Value(tx) {
						reg[c.Common().Method.Name()] = ins
						continue
					}
					if !underTx {
						continue
					}
					for _, a := range c.Common().Args {
						isFinal := stripConv(a) == final
						if ld, ok := stripConv(a).(*ssa.UnOp); ok {
							if al, ok := ld.X.(*ssa.Alloc); ok {
								sts := storesTo(al)
								isFinal = len(sts) > 0
								for _, sv := range sts {
									if stripConv(sv) != final {
										isFinal = false
									}
								}
							}
						}
						if isFinal && !isCallNamed(c.Value(), "Base", "Dir", "Join") {
							if f := calleeObj(c); f != nil && f.Pkg() != nil && (f.Pkg().Path() == "os" || strings.Contains(f.Pkg().Path(), "sftp")) {
								bad = objName(f) + " at " + w.Pos(posOf(ins))
							}
						}
					}
				}
			}
			r.Check(bad == "", ruleHooks, cons+": final name untouched outside hooks when tx != nil", fn.Pos(), "only temp/backup names are touched before the hooks run", bad+" operates on the part's final name outside a transaction hook: the change is visible before commit and is not undone by a rollback")
			_, hasPre := reg["OnPreCommit"]
			_, hasRb := reg["OnRollback"]
			_, hasAfter := reg["OnAfterCommit"]
			r.Check(hasPre && hasRb && hasAfter, ruleHooks, cons+": pre-commit publication is paired with rollback and after-commit hooks", fn.Pos(), "OnPreCommit + OnRollback + OnAfterCommit", "a pre-commit hook changes files without a rollback hook restoring them (or without an after-commit hook removing the backup)")
			if m == "PutPart" {
				// data written and closed before the hooks are registered
				closed := false
				if pre, ok := reg["OnPreCommit"]; ok {
					allInstrs(fn, false, func(_ *ssa.Function, ins ssa.Instruction) {
						if c, ok := ins.(*ssa.Call); ok && isCallNamed(c, "Close") && instrDominates(c, pre) {
							// success edge
							for _, f := range factsAt(pre.Block()) {
								if f.Kind == IsNil && sliceContains(f.Val, false, func(x ssa.Value) bool { return x == ssa.Value(c) }) {
									closed = true
								}
							}
						}
					})
				}
				r.Check(closed, ruleHooks, cons+": hooks registered only after the temp file was written and closed", fn.Pos(), "Close() == nil dominates OnPreCommit", "the publication hook can run over a temp file that was not completely written and closed")
			}
		}
	}

	// ---- 4. cache
	for _, m := range []string{"PutPart", "DeletePart"} {
		fn := w.SSAFunc(relCacheStore, "cachePartStore."+m)
		if fn == nil {
			r.Anchor(ruleCache, "cachePartStore."+m)
			continue
		}
		tx := fn.Params[2]
		bad := ""
		for _, b := range fn.Blocks {
			underTx := false
			for _, f := range factsAt(b) {
				if f.Kind == NonNil && unspill(f.Val) == ssa.Value(tx) {
					underTx = true
				}
			}
			for _, ins := range b.Instrs {
				c, ok := ins.(ssa.CallInstruction)
				if !ok || !c.Common().IsInvoke() {
					continue
				}
				if rn := recvNamedOfInvoke(c); rn != nil && rn.Obj().Name() == "Cache" && c.Common().Method.Name() == "Set" && underTx {
					bad = "Set at " + w.Pos(posOf(ins))
				}
			}
		}
		// the after-commit hook performs the cache change
		inHook := false
		allInstrs(fn, false, func(_ *ssa.Function, ins ssa.Instruction) {
			c, ok := ins.(ssa.CallInstruction)
			if !ok || !c.Common().IsInvoke() || unspill(c.Common().Value) != ssa.Value(tx) || c.Common().Method.Name() != "OnAfterCommit" {
				return
			}
			if mc, ok := c.Common().Args[0].(*ssa.MakeClosure); ok {
				if lit, ok := mc.Fn.(*ssa.Function); ok {
					allInstrs(lit, true, func(_ *ssa.Function, i2 ssa.Instruction) {
						if cc, ok := i2.(ssa.CallInstruction); ok && cc.Common().IsInvoke() {
							if rn := recvNamedOfInvoke(cc); rn != nil && rn.Obj().Name() == "Cache" {
								mn := cc.Common().Method.Name()
								if (m == "DeletePart" && mn == "Remove") || (m == "PutPart" && (mn == "Set" || mn == "Remove")) {
									inHook = true
								}
							}
						}
					})
				}
			}
		})
		r.Check(bad == "" && inHook, ruleCache, "cachePartStore."+m+": cache follows the commit", fn.Pos(), "no cache.Set before commit; the entry is set/removed in the OnAfterCommit hook", "with a transaction the cache is filled before commit ("+bad+") or is not invalidated after it: a rolled-back write is served, or a deleted/replaced part stays cached")
	}
	// the object cache: a failed write must not leave the rejected bytes cached
	if c := c20Context(w, r); c != nil {
		checkCacheEarlyFill(w, r, c)
	}
	checkTxFinalization(w, r)
	checkRollbackHooksIgnoreContext(w, r)
	r.NotCovered("fault injection at every step; remote stores' behaviour on failure; stores that ignore the transaction by design (gdrive, dropbox, onedrive: documented as to be wrapped in the outbox store); correctness of each rollback hook's file operations")
}

func checkC10(w *World, r *Run) {
	ruleRec := r.Rule("intermediate-files-have-a-recovery-reader", "F7",
		"every name suffix/infix the filesystem part store gives a file that exists between the pre-commit hooks and the end of the transaction (temp files, renamed backups) is recognised by a function reachable from the store's Start, which restores or removes such files", 3)
	ruleOrd := r.Rule("publish-before-commit-destroy-after-commit", "F1",
		"in the filesystem part store the backup of the previous content is removed only in the OnAfterCommit hook, and the rollback hook renames it back", 4)
	ruleSqlite := r.Rule("sqlite-writer-is-wal-and-immediate", "F7",
		"the SQLite writer connection is opened with _txlock=immediate and switched to WAL journal mode", 2)

	// names created
	created := map[string]bool{}
	for _, m := range []string{"PutPart", "DeletePart"} {
		fn := w.SSAFunc(relFSStore, "filesystemPartStore."+m)
		if fn == nil {
			r.Anchor(ruleRec, "filesystemPartStore."+m)
			continue
		}
		allInstrs(fn, true, func(_ *ssa.Function, ins ssa.Instruction) {
			c, ok := ins.(*ssa.Call)
			if !ok {
				return
			}
			f := calleeObj(c)
			if f == nil || f.Pkg() == nil || f.Pkg().Path() != "os" {
				return
			}
			var nameArg ssa.Value
			switch f.Name() {
			case "CreateTemp":
				nameArg = c.Call.Args[1]
			case "Rename":
				nameArg = c.Call.Args[1]
			default:
				return
			}
			collect := func(x ssa.Value) {
				if k, ok := x.(*ssa.Const); ok && k.Value != nil && k.Value.Kind() == constant.String {
					s := constant.StringVal(k.Value)
					if len(s) >= 4 && strings.HasPrefix(s, ".") {
						created[s] = true
					}
				}
			}
			backSlice(nameArg, false, func(x ssa.Value) {
				collect(x)
				if fv, ok := x.(*ssa.FreeVar); ok {
					if b := bindingOf(fv); b != nil {
						backSlice(b, false, collect)
					}
				}
			})
		})
	}
	// functions reachable from Start (same package)
	reach := map[*ssa.Function]bool{}
	var visit func(fn *ssa.Function)
	visit = func(fn *ssa.Function) {
		if fn == nil || reach[fn] || fn.Pkg == nil || pkgRel(fn.Pkg.Pkg) != relFSStore {
			return
		}
		reach[fn] = true
		allInstrs(fn, true, func(_ *ssa.Function, ins ssa.Instruction) {
			if c, ok := ins.(ssa.CallInstruction); ok {
				visit(c.Common().StaticCallee())
			}
		})
	}
	start := w.SSAFunc(relFSStore, "filesystemPartStore.Start")
	if start == nil {
		r.Anchor(ruleRec, "filesystemPartStore.Start")
		return
	}
	visit(start)
	known := map[string]bool{}
	restores, removes := false, false
	for fn := range reach {
		allInstrs(fn, true, func(_ *ssa.Function, ins ssa.Instruction) {
			for _, op := range ins.Operands(nil) {
				if k, ok := (*op).(*ssa.Const); ok && k.Value != nil && k.Value.Kind() == constant.String {
					known[constant.StringVal(k.Value)] = true
				}
			}
			if c, ok := ins.(*ssa.Call); ok {
				if f := calleeObj(c); f != nil && f.Pkg() != nil && f.Pkg().Path() == "os" {
					if f.Name() == "Rename" {
						restores = true
					}
					if f.Name() == "Remove" {
						removes = true
					}
				}
			}
		})
	}
	var names []string
	for s := range created {
		names = append(names, s)
	}
	sort.Strings(names)
	if len(names) < 2 {
		r.Bad(ruleRec, "filesystemPartStore intermediate names", start.Pos(), fmt.Sprintf("expected the temp and backup name patterns, found %v", names))
	}
	for _, s := range names {
		r.Check(known[s], ruleRec, "filesystemPartStore: files named *"+s+"* are recovered at Start", start.Pos(), "referenced by a function reachable from Start", "files carrying "+s+" are created before the commit but nothing reachable from Start recognises them: after a crash between the pre-commit hooks and the end of the transaction a part that is still referenced stays renamed away (object unreadable) and leftovers accumulate")
	}
	r.Check(restores && removes, ruleRec, "filesystemPartStore: recovery restores and removes", start.Pos(), "os.Rename and os.Remove reachable from Start", "the start-up path never renames a backup back or removes a leftover")
	// the restore decision looks at the part's final name: Lstat(X) is not-exist → Rename(backup, X)
	for fn := range reach {
		allInstrs(fn, false, func(_ *ssa.Function, ins ssa.Instruction) {
			c, ok := ins.(*ssa.Call)
			if !ok {
				return
			}
			f := calleeObj(c)
			if f == nil || f.Pkg() == nil || f.Pkg().Path() != "os" || f.Name() != "Rename" {
				return
			}
			// guarded by errors.Is(err, fs.ErrNotExist) of a stat of the rename destination
			okStat := false
			for _, fact := range factsAt(c.Block()) {
				cc, isCall := fact.Val.(*ssa.Call)
				if !isCall || fact.Kind != IsTrue || !isCallNamed(cc, "Is") {
					continue
				}
				if st, _ := extractOf(cc.Call.Args[0]); st != nil && isCallNamed(st, "Lstat", "Stat") {
					if sameValue(st.Call.Args[0], c.Call.Args[1]) {
						okStat = true
					}
				}
			}
			r.Check(okStat, ruleRec, "filesystemPartStore recovery: a backup is restored when the part's own file is missing", posOf(c), "Lstat(part path) not-exist → Rename(backup, part path)", "the restore is not decided by the absence of the part's final file (the stat looks at another path): backups of uncommitted deletes are removed instead of restored and the still-referenced part is lost")
		})
	}

	// ordering of destructive steps
	for _, m := range []string{"PutPart", "DeletePart"} {
		fn := w.SSAFunc(relFSStore, "filesystemPartStore."+m)
		if fn == nil {
			continue
		}
		kindOf := map[*ssa.Function]string{}
		allInstrs(fn, false, func(_ *ssa.Function, ins ssa.Instruction) {
			c, ok := ins.(ssa.CallInstruction)
			if !ok || !c.Common().IsInvoke() || !strings.HasPrefix(c.Common().Method.Name(), "On") {
				return
			}
			if mc, ok := c.Common().Args[0].(*ssa.MakeClosure); ok {
				if lit, ok := mc.Fn.(*ssa.Function); ok {
					kindOf[lit] = c.Common().Method.Name()
				}
			}
		})
		isBackup := func(v ssa.Value) bool {
			ok := false
			backSlice(v, false, func(x ssa.Value) {
				if fv, isFV := x.(*ssa.FreeVar); isFV && strings.Contains(strings.ToLower(fv.Name()), "backup") {
					ok = true
				}
			})
			return ok
		}
		badRemove, restored := "", false
		for lit, kind := range kindOf {
			allInstrs(lit, false, func(_ *ssa.Function, ins ssa.Instruction) {
				c, ok := ins.(*ssa.Call)
				if !ok {
					return
				}
				f := calleeObj(c)
				if f == nil || f.Pkg() == nil || f.Pkg().Path() != "os" {
					return
				}
				if f.Name() == "Remove" && isBackup(c.Call.Args[0]) && kind != "OnAfterCommit" {
					badRemove = kind + " at " + w.Pos(posOf(c))
				}
				if f.Name() == "Rename" && isBackup(c.Call.Args[0]) && kind == "OnRollback" {
					restored = true
				}
			})
		}
		r.Check(badRemove == "", ruleOrd, "filesystemPartStore."+m+": backup removed only after commit", fn.Pos(), "os.Remove(backupName) only in OnAfterCommit", "the previous content is destroyed in "+badRemove+", before the transaction is known to have committed: a crash or rollback after that point loses committed data")
		r.Check(restored, ruleOrd, "filesystemPartStore."+m+": rollback renames the backup back", fn.Pos(), "os.Rename(backupName, filename) in OnRollback", "a rolled-back transaction does not restore the previous content")
	}

	// sqlite
	var consts []string
	for _, fn := range w.allFuncs {
		if fn.Pkg == nil || pkgRel(fn.Pkg.Pkg) != "internal/storage/database/sqlite" {
			continue
		}
		allInstrs(fn, false, func(_ *ssa.Function, ins ssa.Instruction) {
			for _, op := range ins.Operands(nil) {
				if k, ok := (*op).(*ssa.Const); ok && k.Value != nil && k.Value.Kind() == constant.String {
					consts = append(consts, constant.StringVal(k.Value))
				}
			}
		})
	}
	imm, wal := false, false
	for _, s := range consts {
		if strings.Contains(s, "mode=rwc") && strings.Contains(s, "_txlock=immediate") {
			imm = true
		}
		if strings.Contains(strings.ToUpper(s), "JOURNAL_MODE") && strings.Contains(strings.ToUpper(s), "WAL") {
			wal = true
		}
	}
	r.Check(imm, ruleSqlite, "sqlite writer DSN has _txlock=immediate", 0, "mode=rwc…_txlock=immediate", "the writer connection does not take the write lock at BEGIN: two writers can both pass their reads and one fails at commit time after its pre-commit hooks ran")
	r.Check(wal, ruleSqlite, "sqlite journal mode WAL", 0, "PRAGMA journal_mode = WAL", "the database is not switched to WAL")
	checkRecoveryVisitsEveryEntry(w, r)
	checkTxFinalization(w, r)
	r.NotCovered("the crash points themselves (power loss inside a rename, torn writes, fsync behaviour: the store does not fsync, which no rule here examines); the sftp store has the same window and no recovery (outside this property's configuration: filesystem + SQLite); that GC removes parts restored for a transaction that had in fact committed (C09)")
}
