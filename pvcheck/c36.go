package main

import (
	"go/types"

	"golang.org/x/tools/go/ssa"
)

// C36 — streaming reads hold their transaction exactly as long as needed.
func init() { register("C36", checkC36) }

const relDB = "internal/storage/database"

func checkC36(w *World, r *Run) {
	ruleOnce := r.Rule("reader-share-released-at-most-once", "F1",
		"in WithTxReadClosers the decrement of the shared open-reader counter executes at most once per returned reader: it sits in a function handed to a per-reader sync.Once.Do, or behind a successful per-reader atomic CAS/Swap, or the close-hook wrapper's Close itself is guarded by a closed flag / sync.Once", 1)
	ruleZero := r.Rule("rollback-only-when-last-reader-closed", "F1",
		"inside the close hook tx.Rollback is called only on the edge where the decremented counter equals 0", 1)
	ruleEarly := r.Rule("error-and-empty-paths-roll-back", "F1",
		"every return of WithTxReadClosers is dominated by tx.Rollback, except the BeginTx failure (no transaction yet) and the final return, which is reached only with fn's error nil and at least one reader", 4)
	ruleWrap := r.Rule("every-returned-reader-is-wrapped", "F1",
		"the readers slice returned on the success path has each element replaced by NewReadCloserWithCloseHook in a full range loop over it", 1)
	ruleWithTx := r.Rule("withtx-finalizes-exactly-once", "F1",
		"WithTx rolls back when fn fails and otherwise returns Commit's error; Commit rolls back on a failing pre-commit hook or driver commit and marks the controller finalized before after-commit hooks run", 4)

	fn := w.SSAFunc(relDB, "WithTxReadClosers")
	if fn == nil {
		r.Anchor(ruleOnce, "database.WithTxReadClosers")
		return
	}
	isRollback := func(ins ssa.Instruction) bool {
		c, ok := ins.(ssa.CallInstruction)
		if !ok {
			return false
		}
		f := calleeObj(c)
		return f != nil && f.Name() == "Rollback"
	}
	// locate the decrement
	var dec *ssa.Call
	var decFn *ssa.Function
	allInstrs(fn, true, func(in *ssa.Function, ins ssa.Instruction) {
		c, ok := ins.(*ssa.Call)
		if !ok {
			return
		}
		f := calleeObj(c)
		if f == nil || f.Pkg() == nil || f.Pkg().Path() != "sync/atomic" {
			return
		}
		if f.Name() == "AddInt64" || f.Name() == "AddInt32" || f.Name() == "Add" {
			dec, decFn = c, in
		}
	})
	if dec == nil {
		r.Bad(ruleOnce, "WithTxReadClosers close hook decrement", fn.Pos(), "no atomic decrement of the open-reader counter found (anchor lost / different mechanism: undecided)")
		return
	}
	once := false
	how := ""
	// (a) decFn handed to a per-reader sync.Once.Do
	for _, cs := range w.callers[decFn] {
		mc, ok := cs.(*ssa.MakeClosure)
		if !ok {
			continue
		}
		for _, ref := range *mc.Referrers() {
			c, ok := ref.(ssa.CallInstruction)
			if !ok {
				continue
			}
			f := calleeObj(c)
			if f == nil || f.Name() != "Do" || recvNamed(f) == nil || recvNamed(f).Obj().Name() != "Once" || f.Pkg().Path() != "sync" {
				continue
			}
			// the Once must be allocated per reader: its Alloc lies in the loop body of the
			// outer function (a block dominated by a loop header), not before the loop
			recv := c.Common().Args[0]
			perReader := false
			backSlice(recv, false, func(v ssa.Value) {
				if fv, ok := v.(*ssa.FreeVar); ok {
					// resolve binding in the creating function
					host := fv.Parent()
					for i, x := range host.FreeVars {
						if x != fv {
							continue
						}
						for _, hc := range w.callers[host] {
							if hmc, ok := hc.(*ssa.MakeClosure); ok && i < len(hmc.Bindings) {
								if a, ok := hmc.Bindings[i].(*ssa.Alloc); ok && inLoop(a.Block()) {
									perReader = true
								}
							}
						}
					}
				}
				if a, ok := v.(*ssa.Alloc); ok && inLoop(a.Block()) {
					perReader = true
				}
			})
			if perReader {
				once = true
				how = "per-reader sync.Once"
			}
		}
	}
	// (b) successful CAS/Swap dominates the decrement
	if !once {
		for _, f := range factsAt(dec.Block()) {
			if c, _ := callOf(f.Val); c != nil {
				if g := calleeObj(c); g != nil && g.Pkg() != nil && g.Pkg().Path() == "sync/atomic" && (g.Name() == "CompareAndSwap" || g.Name() == "CompareAndSwapInt32" || g.Name() == "CompareAndSwapUint32") && f.Kind == IsTrue {
					once = true
					how = "per-reader CAS"
				}
			}
		}
	}
	// (c) wrapper Close idempotent
	if !once {
		if cl := w.SSAFunc("internal/ioutils", "readCloserWithCloseHook.Close"); cl != nil {
			for _, c := range callsTo(cl, false, func(*types.Func) bool { return true }) {
				_ = c
			}
			allInstrs(cl, true, func(_ *ssa.Function, ins ssa.Instruction) {
				if c, ok := ins.(ssa.CallInstruction); ok {
					if f := calleeObj(c); f != nil && f.Name() == "Do" && f.Pkg() != nil && f.Pkg().Path() == "sync" {
						once = true
						how = "close-hook wrapper guarded by sync.Once"
					}
				}
			})
		}
	}
	r.Check(once, ruleOnce, "WithTxReadClosers close hook decrement", posOf(dec), how, "the counter decrement runs on every Close of a reader: closing one reader twice releases the transaction while other readers are still open")

	// rollback only at zero
	zeroOK := true
	nRB := 0
	allInstrs(fn, true, func(in *ssa.Function, ins ssa.Instruction) {
		if in == fn || !isRollback(ins) {
			return
		}
		nRB++
		ok := false
		for _, f := range factsAt(ins.Block()) {
			if f.Kind == EqConst && f.Const != nil {
				if n, isc := intConst(f.Const); isc && n == 0 && sameValue(f.Val, dec) {
					ok = true
				}
			}
		}
		if !ok {
			zeroOK = false
		}
	})
	r.Check(zeroOK && nRB == 1, ruleZero, "WithTxReadClosers close hook → tx.Rollback", posOf(dec), "only when the decremented counter == 0", "the hook rolls the transaction back although other readers may still be open (or never)")

	// early returns
	var fnCall *ssa.Call
	allInstrs(fn, false, func(_ *ssa.Function, ins ssa.Instruction) {
		if c, ok := ins.(*ssa.Call); ok && !c.Call.IsInvoke() && c.Call.StaticCallee() == nil {
			if paramIndex(fn, c.Call.Value) >= 0 {
				fnCall = c
			}
		}
	})
	n := 0
	for _, ret := range returnsOf(fn) {
		if ret.Block() == fn.Recover {
			continue
		}
		n++
		cons := "WithTxReadClosers return #" + string(rune('0'+n))
		dominated := false
		allInstrs(fn, false, func(_ *ssa.Function, ins ssa.Instruction) {
			if isRollback(ins) && instrDominates(ins, ret) {
				dominated = true
			}
		})
		if dominated {
			r.OK(ruleEarly, cons, posOf(ret), "after tx.Rollback")
			continue
		}
		beginFailed, fnOK, nonEmpty := false, false, false
		for _, f := range factsAt(ret.Block()) {
			c, _ := callOf(f.Val)
			if f.Kind == NonNil && c != nil && c.Call.IsInvoke() && c.Call.Method.Name() == "BeginTx" {
				beginFailed = true
			}
			if f.Kind == IsNil && c != nil && c == fnCall {
				fnOK = true
			}
			if f.Kind == NeConst && f.Const != nil {
				if k, isc := intConst(f.Const); isc && k == 0 {
					nonEmpty = true
				}
			}
		}
		r.Check(beginFailed || (fnOK && nonEmpty), ruleEarly, cons, posOf(ret), map[bool]string{true: "BeginTx failed: no transaction", false: "success path: fn ok and ≥1 reader"}[beginFailed], "a return leaves the transaction open without any reader bound to it (error or empty result path without Rollback)")
	}

	// wrapping loop
	wrapOK := false
	for _, c := range callsTo(fn, false, func(f *types.Func) bool { return isFunc(f, "internal/ioutils", "NewReadCloserWithCloseHook") }) {
		// result stored to readers[i] in a canonical range loop over readers
		for _, ref := range *c.Value().Referrers() {
			if st, ok := ref.(*ssa.Store); ok {
				if ia, ok := st.Addr.(*ssa.IndexAddr); ok {
					if inc, ok := ia.Index.(*ssa.BinOp); ok {
						if phi, ok := inc.X.(*ssa.Phi); ok {
							start := false
							for _, e := range phi.Edges {
								if k, isc := intConst(e); isc && k == -1 {
									start = true
								}
							}
							if one, isc := intConst(inc.Y); isc && one == 1 && start {
								wrapOK = true
							}
						}
					}
				}
			}
		}
	}
	r.Check(wrapOK, ruleWrap, "WithTxReadClosers wraps readers[i] for every i", fn.Pos(), "full range loop", "not every returned reader is wrapped with the transaction-releasing close hook")

	checkC36WithTx(w, r, ruleWithTx)
	ruleTxChoice := r.Rule("tx-free-streaming-is-chosen-from-sound-capabilities", "F2", "the Capabilities of the erasure-coding store (from which GetObject decides to end the read transaction early) intersect the capabilities of every shard store, parity included", 1)
	checkCapabilitiesOverAllStores(w, r, ruleTxChoice)
	r.NotCovered("that callers close every reader (resource leak otherwise); database-level isolation of the read transaction")
}

func inLoop(b *ssa.BasicBlock) bool {
	for d := b; d != nil; d = d.Idom() {
		for _, p := range d.Preds {
			if d.Dominates(p) && p != d || p == d {
				// d is a loop header dominating b; b must be inside the loop body: b can reach d
				if reachableBlocks(b)[d] {
					return true
				}
			}
		}
	}
	return false
}

func checkC36WithTx(w *World, r *Run, rule string) {
	withTx := w.SSAFunc(relDB, "WithTx")
	commit := w.SSAFunc(relDB, "TxController.Commit")
	if withTx == nil || commit == nil {
		r.Anchor(rule, "database.WithTx / TxController.Commit")
		return
	}
	// WithTx: fn error ⇒ Rollback before return; success ⇒ return Commit()
	var fnCall *ssa.Call
	allInstrs(withTx, false, func(_ *ssa.Function, ins ssa.Instruction) {
		if c, ok := ins.(*ssa.Call); ok && !c.Call.IsInvoke() && c.Call.StaticCallee() == nil && paramIndex(withTx, c.Call.Value) >= 0 {
			fnCall = c
		}
	})
	rbOnErr, commitOnOK := false, false
	if fnCall != nil {
		allInstrs(withTx, false, func(_ *ssa.Function, ins ssa.Instruction) {
			c, ok := ins.(ssa.CallInstruction)
			if !ok {
				return
			}
			f := calleeObj(c)
			if f == nil {
				return
			}
			for _, fa := range factsAt(c.Block()) {
				if f.Name() == "Rollback" && fa.Kind == NonNil && sameValue(fa.Val, fnCall) {
					rbOnErr = true
				}
				if f.Name() == "Commit" && fa.Kind == IsNil && sameValue(fa.Val, fnCall) {
					commitOnOK = true
				}
			}
		})
	}
	// every non-failure return returns Commit's result
	retOK := true
	for _, ret := range returnsOf(withTx) {
		if ret.Block() == withTx.Recover || isFailureReturn(ret) {
			continue
		}
		c, _ := callOf(retResult(ret, 0))
		if c == nil || calleeObj(c) == nil || calleeObj(c).Name() != "Commit" {
			retOK = false
		}
	}
	r.Check(rbOnErr, rule, "WithTx rolls back when fn fails", withTx.Pos(), "Rollback on fn error", "fn's failure does not roll the transaction back")
	r.Check(commitOnOK && retOK, rule, "WithTx returns Commit's error on success", withTx.Pos(), "return tx.Commit(ctx)", "a successful fn does not end in returning Commit's result (commit error swallowed or commit skipped)")
	// Commit: tx.Commit failure ⇒ Rollback; finalized=true store after tx.Commit nil
	var drv *ssa.Call
	allInstrs(commit, false, func(_ *ssa.Function, ins ssa.Instruction) {
		if c, ok := ins.(*ssa.Call); ok {
			if f := calleeObj(c); f != nil && f.Name() == "Commit" && f.Pkg() != nil && f.Pkg().Path() == "database/sql" {
				drv = c
			}
		}
	})
	rbOnCommitErr, finAfter := false, false
	preHookRB := false
	if drv != nil {
		allInstrs(commit, false, func(_ *ssa.Function, ins ssa.Instruction) {
			if c, ok := ins.(ssa.CallInstruction); ok {
				if f := calleeObj(c); f != nil && f.Name() == "Rollback" {
					for _, fa := range factsAt(c.Block()) {
						if fa.Kind == NonNil && sameValue(fa.Val, drv) {
							rbOnCommitErr = true
						}
						if fa.Kind == NonNil && !sameValue(fa.Val, drv) && isErrorType(fa.Val.Type()) && instrDominatesOrBefore(c, drv) {
							preHookRB = true
						}
					}
				}
			}
			if st, ok := ins.(*ssa.Store); ok {
				if fa, ok := st.Addr.(*ssa.FieldAddr); ok && fieldName(fa.X.Type(), fa.Field) == "finalized" {
					for _, f := range factsAt(st.Block()) {
						if f.Kind == IsNil && sameValue(f.Val, drv) {
							finAfter = true
						}
					}
				}
			}
		})
	}
	r.Check(rbOnCommitErr && preHookRB, rule, "Commit rolls back on failing pre-commit hook or driver commit", commit.Pos(), "Rollback on both failure edges", "a failing pre-commit hook or driver commit does not trigger Rollback (rollback hooks would not run)")
	r.Check(finAfter, rule, "Commit marks finalized only after the driver commit succeeded", commit.Pos(), "finalized = true under Commit() == nil", "the controller is marked finalized without a successful driver commit")
}

// instrDominatesOrBefore: a executes on no path after b (a's block does not come after b's).
func instrDominatesOrBefore(a ssa.Instruction, b ssa.Instruction) bool {
	return !canReach(b, a)
}
