package main

import (
	"fmt"
	"go/token"
	"go/types"
	"sort"

	"golang.org/x/tools/go/ssa"
)

// C23 — replicas converge.
func init() { register("C23", checkC23) }

const relRepl = "internal/storage/replication"

// content-affecting fields of option structs that a derived options value handed to a
// secondary must copy from the caller's options (conditional-write fields are evaluated by
// the primary only and are deliberately not replayed).
var optionContentFields = map[string][]string{
	"PutObjectOptions":               {"Tags", "Metadata", "StorageClass"},
	"CompleteMultipartUploadOptions": {"Parts"},
	"AppendObjectOptions":            {}, // WriteOffset is a precondition on the primary's size
}

// bucket-configuration methods that do not influence the observables named by the property
// (buckets, keys, contents, content types, metadata, tags): checked for shape when
// overridden, not required to be.
var c23OptionalBucketMethods = map[string]string{
	"PutBucketWebsiteConfiguration":      "website configuration is not among the replicated observables of the statement",
	"DeleteBucketWebsiteConfiguration":   "website configuration is not among the replicated observables of the statement",
	"PutBucketCORSConfiguration":         "CORS configuration is not among the replicated observables of the statement",
	"DeleteBucketCORSConfiguration":      "CORS configuration is not among the replicated observables of the statement",
	"PutBucketLifecycleConfiguration":    "lifecycle configuration is not among the replicated observables of the statement",
	"DeleteBucketLifecycleConfiguration": "lifecycle configuration is not among the replicated observables of the statement",
	"PutBucketNotificationConfiguration": "notification configuration is not part of the statement",
}

func checkC23(w *World, r *Run) {
	iface := checkStorageTable(w, r)
	T := w.Named(relRepl, "replicationStorage")
	ruleOv := r.Rule("replication-overrides-mutators", "F2",
		"every object/upload-mutating method, CreateBucket, DeleteBucket and PutBucketVersioningConfiguration is implemented by *replicationStorage itself; an inherited mutator changes only the primary", 16)
	ruleShape := r.Rule("replication-forwards-to-every-secondary", "F1",
		"each overriding mutator calls the primary first, and then — dominated by the primary's nil error — the same-named method on every element of rs.secondaryStorages in a full range loop; no possibly-successful return is reachable before the loop is exhausted", 16)
	ruleArgs := r.Rule("replication-same-arguments", "F3",
		"the secondary call receives the primary call's arguments; the upload id is translated through primaryUploadIdToSecondaryUploadIds[uploadId][i]; a derived options value copies every content-affecting field", 16)
	ruleLock := r.Rule("replication-uploadid-map-under-mutex", "F5",
		"every access to primaryUploadIdToSecondaryUploadIds happens with rs.mapMutex held", 8)
	if iface == nil || T == nil {
		r.Anchor(ruleOv, relRepl+".replicationStorage")
		return
	}
	mat := overrideMatrix(T, iface)
	var names []string
	for m, c := range storageMethods {
		if c.mutating() {
			names = append(names, m)
		}
	}
	sort.Strings(names)
	for _, m := range names {
		cons := "(*replicationStorage)." + m
		o := mat[m]
		if !o.Own {
			if why, opt := c23OptionalBucketMethods[m]; opt {
				r.Exempt(ruleOv, cons, T.Obj().Pos(), "inherited; "+why)
			} else {
				r.Bad(ruleOv, cons, T.Obj().Pos(), "inherited from "+o.Via+": the mutation reaches the primary only, secondaries diverge")
			}
			continue
		}
		r.OK(ruleOv, cons, o.Func.Pos(), "own implementation")
		checkC23Method(w, r, ruleShape, ruleArgs, cons, m, w.Prog.FuncValue(o.Func))
	}
	// lockset on the map
	sp := w.SSA[w.Pkg(relRepl).Types]
	for _, fn := range w.allFuncs {
		if fn.Pkg != sp {
			continue
		}
		allInstrs(fn, false, func(_ *ssa.Function, ins ssa.Instruction) {
			fa, ok := ins.(*ssa.FieldAddr)
			if !ok || fieldName(fa.X.Type(), fa.Field) != "primaryUploadIdToSecondaryUploadIds" {
				return
			}
			// every use of the loaded map (lookup / update / delete / range) must be under the lock
			for _, ref := range *fa.Referrers() {
				ld, ok := ref.(*ssa.UnOp)
				if !ok {
					if st, isStore := ref.(*ssa.Store); isStore && fn.Name() == "NewStorage" {
						r.Exempt(ruleLock, funcName(fn)+" initialises the map", posOf(st), "constructor: value not shared yet")
					}
					continue
				}
				for _, use := range *ld.Referrers() {
					cons := funcName(fn) + " uses primaryUploadIdToSecondaryUploadIds (" + fmt.Sprintf("%T", use)[5:] + ")"
					if lockHeldAt(use, "mapMutex", false) {
						r.OK(ruleLock, cons, posOf(use), "rs.mapMutex held")
					} else {
						r.Bad(ruleLock, cons, posOf(use), "map accessed without rs.mapMutex: concurrent multipart calls race on the upload-id translation")
					}
				}
			}
		})
	}
	checkC23SecondaryOptionsGuard(w, r)
	ruleSecDrain := r.Rule("secondary-outbox-copies-from-drained-source", "F1",
		"a secondary is usually the storage outbox: its CopyObject forwards only after an error-checked drain covering the source bucket and key and the destination bucket and key, so the copy on the secondary reads what the primary read", 1)
	checkOutboxDrain(w, r, ruleSecDrain, map[string]bool{"CopyObject": true})
	ruleQueued := r.Rule("queued-put-metadata-is-rebuilt-completely", "F3", "in both dialects FindStorageOutboxEntryPutOptionsById rebuilds ObjectMetadata under a guard that tests every variable the literal uses", 2)
	checkQueuedPutMetadataGuard(w, r, ruleQueued)
	checkC23Rewind(w, r)
	r.NotCovered("equality of the resulting states; behaviour when a secondary fails half-way (the primary is already changed); explicit version ids")
}

func derivesFromField(v ssa.Value, field string) bool {
	found := false
	backSlice(v, false, func(x ssa.Value) {
		if fa, ok := x.(*ssa.FieldAddr); ok && fieldName(fa.X.Type(), fa.Field) == field {
			found = true
		}
	})
	return found
}

func checkC23Method(w *World, r *Run, ruleShape, ruleArgs, cons, method string, fn *ssa.Function) {
	var primary, secondary []ssa.CallInstruction
	allInstrs(fn, false, func(_ *ssa.Function, ins ssa.Instruction) {
		c, ok := ins.(ssa.CallInstruction)
		if !ok || !c.Common().IsInvoke() || c.Common().Method.Name() != method {
			return
		}
		if n, _ := fieldLoadName(c.Common().Value); n == "Next" {
			primary = append(primary, c)
		} else if derivesFromField(c.Common().Value, "secondaryStorages") {
			secondary = append(secondary, c)
		}
	})
	if len(primary) != 1 || len(secondary) != 1 {
		r.Bad(ruleShape, cons, fn.Pos(), fmt.Sprintf("expected exactly one primary call rs.Next.%s and one call on the elements of rs.secondaryStorages, found %d and %d", method, len(primary), len(secondary)))
		return
	}
	pc, sc := primary[0], secondary[0]
	ok := true
	fail := func(rule, d string, pos token.Pos) {
		ok = false
		r.Bad(rule, cons, pos, d)
	}
	if !instrDominates(pc, sc) {
		fail(ruleShape, "the secondary call is not dominated by the primary call", posOf(sc))
	}
	perr := errResultOf(pc)
	guarded := false
	for _, f := range factsAt(sc.Block()) {
		if f.Kind == IsNil && perr != nil && sameValue(f.Val, perr) {
			guarded = true
		}
	}
	if !guarded {
		fail(ruleShape, "the secondary call is reachable when the primary call failed (no dominating err == nil edge)", posOf(sc))
	}
	// full range loop: receiver = secondaryStorages[idx], idx = phi(-1|0, idx+1)
	hdr, exitK := rangeLoopOf(sc)
	if hdr == nil {
		fail(ruleShape, "the secondary call is not inside a full range loop over rs.secondaryStorages (index must start at the first element and step by one)", posOf(sc))
	} else {
		for _, ret := range returnsReachableAvoiding(pc, func(ssa.Instruction) bool { return false }) {
			if isFailureReturn(ret) {
				continue
			}
			if !everyPathCrosses(ret.Block(), func(d *ssa.BasicBlock, k int) bool { return d == hdr && k == exitK }) {
				fail(ruleShape, "a possibly-successful return is reachable before every secondary was called", posOf(ret))
			}
		}
	}
	if ok {
		r.OK(ruleShape, cons, posOf(sc), "primary, then (err==nil) every secondary in a full range loop")
	}
	// arguments
	pa, sa := pc.Common().Args, sc.Common().Args
	sig := pc.Common().Method.Type().(*types.Signature)
	argsOK := true
	for i := range pa {
		if sameValue(pa[i], sa[i]) {
			continue
		}
		pname := sig.Params().At(i).Name()
		ptype := sig.Params().At(i).Type()
		switch {
		case isNamedType(ptype, "UploadId"):
			// translated id: secondaryUploadIds[i] from the map looked up with the primary id
			good := false
			backSlice(sa[i], false, func(x ssa.Value) {
				if lk, ok := x.(*ssa.Lookup); ok && derivesFromField(lk.X, "primaryUploadIdToSecondaryUploadIds") && sameValue(lk.Index, pa[i]) {
					good = true
				}
			})
			if !good {
				argsOK = false
				r.Bad(ruleArgs, cons, posOf(sc), "upload id passed to the secondary is not primaryUploadIdToSecondaryUploadIds[<primary upload id>][i]")
			}
		case isOptionsPtr(ptype) != "":
			on := isOptionsPtr(ptype)
			req, known := optionContentFields[on]
			if !known {
				argsOK = false
				r.Bad(ruleArgs, cons, posOf(sc), "secondary receives different options ("+on+") and no content-field table exists for that type")
				continue
			}
			for _, f := range req {
				if !optsCopiesField(sa[i], pa[i], f, 0) {
					argsOK = false
					r.Bad(ruleArgs, cons+" options."+f, posOf(sc), "the options value handed to the secondaries does not copy "+on+"."+f+" from the caller's options: replicas lose it")
				}
			}
		default:
			argsOK = false
			r.Bad(ruleArgs, cons, posOf(sc), fmt.Sprintf("argument %q of the secondary call differs from the primary call's", pname))
		}
	}
	if argsOK {
		r.OK(ruleArgs, cons, posOf(sc), "same arguments (upload id translated, options content fields copied)")
	}
}

func isNamedType(t types.Type, name string) bool {
	t = types.Unalias(t)
	n, ok := t.(*types.Named)
	return ok && n.Obj().Name() == name
}

func isOptionsPtr(t types.Type) string {
	p, ok := types.Unalias(t).(*types.Pointer)
	if !ok {
		return ""
	}
	n, ok := types.Unalias(p.Elem()).(*types.Named)
	if !ok {
		return ""
	}
	name := n.Obj().Name()
	if len(name) > 7 && name[len(name)-7:] == "Options" {
		return name
	}
	return ""
}

// rangeLoopOf: if call's receiver is slice[idx] with the canonical range lowering, returns
// the loop header block (ending in `if idx' < len`) and the index of its exit edge.
func rangeLoopOf(c ssa.CallInstruction) (*ssa.BasicBlock, int) {
	var idxAddr *ssa.IndexAddr
	backSlice(c.Common().Value, false, func(x ssa.Value) {
		if ia, ok := x.(*ssa.IndexAddr); ok && idxAddr == nil {
			idxAddr = ia
		}
	})
	if idxAddr == nil {
		return nil, 0
	}
	// index is `t = phi + 1` defined in the header, compared `t < len`
	inc, ok := idxAddr.Index.(*ssa.BinOp)
	if !ok || inc.Op != token.ADD {
		return nil, 0
	}
	phi, ok := inc.X.(*ssa.Phi)
	if !ok {
		return nil, 0
	}
	if one, isc := intConst(inc.Y); !isc || one != 1 {
		return nil, 0
	}
	start := false
	for _, e := range phi.Edges {
		if n, isc := intConst(e); isc && n == -1 {
			start = true
		} else if e != inc {
			return nil, 0
		}
	}
	if !start {
		return nil, 0
	}
	hdr := inc.Block()
	iff, ok := hdr.Instrs[len(hdr.Instrs)-1].(*ssa.If)
	if !ok {
		return nil, 0
	}
	cmp, ok := iff.Cond.(*ssa.BinOp)
	if !ok || cmp.Op != token.LSS || cmp.X != inc {
		return nil, 0
	}
	if !hdr.Succs[0].Dominates(c.Block()) && hdr.Succs[0] != c.Block() {
		return nil, 0
	}
	return hdr, 1
}

// optsCopiesField: the value v (options handed on) has field `field` assigned from the
// same field of src (the caller's options), directly or inside a pithos helper called with src.
func optsCopiesField(v, src ssa.Value, field string, depth int) bool {
	if depth > 2 {
		return false
	}
	found := false
	backSlice(v, false, func(x ssa.Value) {
		switch a := x.(type) {
		case *ssa.Alloc:
			for _, ref := range *a.Referrers() {
				fa, ok := ref.(*ssa.FieldAddr)
				if !ok || fieldName(fa.X.Type(), fa.Field) != field {
					continue
				}
				for _, st := range storesTo(fa) {
					backSlice(st, false, func(y ssa.Value) {
						if n, base := fieldLoadName(y); n == field && sameValue(base, src) {
							found = true
						}
					})
				}
			}
		case *ssa.Call:
			callee := a.Call.StaticCallee()
			if callee == nil || len(callee.Blocks) == 0 {
				return
			}
			for i, arg := range a.Call.Args {
				if sameValue(arg, src) && i < len(callee.Params) {
					for _, ret := range returnsOf(callee) {
						for _, res := range ret.Results {
							if optsCopiesField(res, callee.Params[i], field, depth+1) {
								found = true
							}
						}
					}
				}
			}
		}
	})
	return found
}
